#!/bin/bash
# run_mutant.sh <patch.diff> <ID> [tier]  : apply a mutant to /repo, run the check, always revert.
# exit 0 = the check caught the mutant (VIOLATION), 1 = missed
P="$(realpath "$1")"; ID="$2"; TIER="${3:-quick}"
cd /verif
if [ -n "$(git -C /repo status --porcelain --untracked-files=no)" ]; then echo "repo dirty"; exit 2; fi
trap 'git -C /repo checkout -- . ; ' EXIT
git -C /repo apply "$P" || { echo "patch does not apply"; exit 2; }
out=$(bin/check "$ID" "$TIER" 2>&1); rc=$?
echo "$out" | grep -E "VIOLATION|what:|KNOWN-FINDING|BUILD-ERROR|^OK" | head -8
# remove violation replays produced by the mutant
rm -f /verif/replays/$ID/violation_* 
if [ $rc -eq 1 ] && echo "$out" | grep -q "^VIOLATION"; then echo "MUTANT CAUGHT: $(basename $P)"; exit 0; fi
echo "MUTANT MISSED: $(basename $P) (rc=$rc)"; exit 1
