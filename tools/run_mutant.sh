#!/bin/bash
# run_mutant.sh <patch.diff> <ID> [tier]  : apply a mutant to the repo, run the check, always revert.
# exit 0 = the check caught the mutant (VIOLATION), 1 = missed
P="$(realpath "$1")"; ID="$2"; TIER="${3:-quick}"
V="$(cd "$(dirname "$0")/.." && pwd)"
R="${VERIF_REPO:-/repo}"
B="${VERIF_BUILD:-$V/build}"
cd "$V"
exec 8>"$B/.tree.lock"; flock -x 8
if [ -n "$(git -C $R status --porcelain --untracked-files=no)" ]; then echo "repo dirty"; exit 2; fi
trap 'git -C $R checkout -- . ; ' EXIT
git -C $R apply "$P" || { echo "patch does not apply"; exit 2; }
mkdir -p $B/mutant_replays
out=$(VERIF_NOLOCK=1 VERIF_EVIDENCE_DIR="$B/mutant_evidence" bin/check "$ID" "$TIER" 2>&1); rc=$?
echo "$out" | grep -E "VIOLATION|what:|KNOWN-FINDING|BUILD-ERROR|^OK" | head -8
# remove violation replays produced by the mutant
rm -f $V/replays/$ID/violation_*
if [ $rc -eq 1 ] && echo "$out" | grep -q "^VIOLATION"; then echo "MUTANT CAUGHT: $(basename $P)"; exit 0; fi
echo "MUTANT MISSED: $(basename $P) (rc=$rc)"; exit 1
