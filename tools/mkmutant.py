#!/usr/bin/env python3
"""mkmutant.py <ID> <name> <file relative to /repo> <old> <new> : create mutants/<ID>/<name>.diff by replacing a unique string."""
import os, subprocess, sys
pid, name, rel, old, new = sys.argv[1:6]
repo = os.environ.get("VERIF_REPO", "/repo")
p = os.path.join(repo, rel)
s = open(p).read()
if s.count(old) != 1:
    sys.exit("pattern occurs %d times in %s" % (s.count(old), rel))
open(p, "w").write(s.replace(old, new))
d = subprocess.run(["git", "-C", repo, "diff"], stdout=subprocess.PIPE, text=True).stdout
subprocess.run(["git", "-C", repo, "checkout", "--", rel], check=True)
od = os.path.join(os.path.dirname(os.path.dirname(os.path.abspath(__file__))), "mutants", pid)
os.makedirs(od, exist_ok=True)
open(os.path.join(od, name + ".diff"), "w").write(d)
print("wrote", os.path.join(od, name + ".diff"))
