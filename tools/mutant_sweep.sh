#!/bin/bash
# mutant_sweep.sh <ID>...  : run every mutants/<ID>/*.diff against a private worktree (/tmp/wt_mut), append to mutants/RESULTS.txt
export VERIF_REPO=/tmp/wt_mut VERIF_BUILD=/tmp/wtb_mut VERIF_WORK=/tmp/wtw_mut
cd /verif
git -C $VERIF_REPO checkout -q -- . 2>/dev/null
git -C $VERIF_REPO reset -q --hard $(git -C /repo rev-parse HEAD)
bin/ensure_build asan || exit 1
for id in "$@"; do
  for m in mutants/$id/*.diff; do
    [ -f "$m" ] || continue
    if grep -q "^$id $(basename $m) " mutants/RESULTS.txt 2>/dev/null; then continue; fi
    s=$(date +%s)
    out=$(tools/run_mutant.sh "$m" "$id" 2>&1)
    res=$(echo "$out" | grep -E "MUTANT (CAUGHT|MISSED)|patch does not apply|repo dirty" | tail -1)
    echo "$id $(basename $m) :: $res :: $(( $(date +%s) - s ))s :: $(echo "$out" | grep -m1 'what:' | cut -c1-200)" >> mutants/RESULTS.txt
  done
done
