#!/usr/local/bin/python3-vt
import json, os, sys
V = os.path.dirname(os.path.dirname(os.path.abspath(__file__)))
sys.path.insert(0, os.path.join(V, "lib"))
import props
props._load_modules()
from meta import META
NA_REASONS = {}
try:
    from meta import NA_REASONS
except ImportError:
    pass
props = [json.loads(l) for l in open(os.path.join(V, "properties.jsonl"))]
hooks_commits = [l.strip() for l in open(os.path.join(V, "HOOK_COMMITS.txt"))] if os.path.exists(os.path.join(V, "HOOK_COMMITS.txt")) else []
man = {
    "version": 1,
    "setup_cmd": "bin/setup",
    "hooks": {
        "guard": "LIBOCCA_OCCA_VERIF",
        "enable": "bin/ensure_build <variant> configures /repo with CMAKE_CXX_FLAGS containing -DLIBOCCA_OCCA_VERIF (plus clang sanitizers) into /verif/build/<variant>",
        "baseline_off_cmd": "tools/repo_test.sh",
        "source_commits": hooks_commits,
        "add_only": True,
    },
    "engines": [
        {"name": "rapidcheck", "path": "harness/", "serves_properties": sorted(p for p, v in META.items() if "rapidcheck" in v["engine"]),
         "kind_free_text": "C++ property-based testing; plain-data operation-list cases, model oracles, library shrinking, replay mode"},
        {"name": "hypothesis", "path": "lib/", "serves_properties": sorted(p for p, v in META.items() if "hypothesis" in v["engine"].lower()),
         "kind_free_text": "Python property-based testing driving C++ worker processes and host compilers (differential oracles)"},
        {"name": "libFuzzer", "path": "harness/fuzz_*.cpp", "serves_properties": sorted(p for p, v in META.items() if "libfuzzer" in v["engine"].lower()),
         "kind_free_text": "coverage-guided byte-level fuzzing with ASan+UBSan and an in-target semantic oracle"},
    ],
    "checks": [],
    "not_applicable": [],
    "notes": "All checks: bin/check <ID> <tier>. Seeds derive from VERIF_SEED (default 1). Tiers are bounded by case count, not wall clock. "
             "Known findings: KNOWN_FINDINGS.txt. Seeded breaking changes: seeded/. Mutants: mutants/.",
}
claimed = set(open(os.path.join(V, "lib", "claimed.txt")).read().split())
for p in props:
    pid = p["id"]
    if pid in META and pid in claimed:
        v = META[pid]
        man["checks"].append({
            "property_id": pid,
            "quick_cmd": "bin/check %s quick" % pid,
            "thorough_cmd": "bin/check %s thorough" % pid,
            "evidence_file": "/verif/evidence/%s.json" % pid,
            "replay_cmd_template": "bin/check %s quick --replay {path}" % pid,
            "engine": v["engine"],
            "level_claimed": {"category": v["level"], "text": v["text"], "design_ref": v["ref"]},
            "level_note": v["note"],
            "technique": v["technique"],
        })
    else:
        man["not_applicable"].append({"property_id": pid, "reason": NA_REASONS.get(pid, "check not built yet in this session (planned: see DESIGN.md §4); not claimed")})
json.dump(man, open(os.path.join(V, "MANIFEST.json"), "w"), indent=1)
print("checks:", len(man["checks"]), "not_applicable:", len(man["not_applicable"]))
