#!/bin/bash
# mutant_prio.sh ID:name ...  (private worktree /tmp/wt_mut; appends to mutants/RESULTS.txt)
export VERIF_REPO=/tmp/wt_mut VERIF_BUILD=/tmp/wtb_mut VERIF_WORK=/tmp/wtw_mut
cd /verif

git -C $VERIF_REPO checkout -q -- .
for pair in "$@"; do
  id=${pair%%:*}; name=${pair##*:}; m=mutants/$id/$name.diff
  [ -f "$m" ] || { echo "missing $m"; continue; }
  if grep -q "^$id $name.diff " mutants/RESULTS.txt 2>/dev/null; then continue; fi
  s=$(date +%s)
  out=$(tools/run_mutant.sh "$m" "$id" 2>&1)
  res=$(echo "$out" | grep -E "MUTANT (CAUGHT|MISSED)|patch does not apply|repo dirty" | tail -1)
  echo "$id $name.diff :: $res :: $(( $(date +%s) - s ))s :: $(echo "$out" | grep -m1 'what:' | cut -c1-200)" >> mutants/RESULTS.txt
done
