#!/bin/bash
# Rebuild /repo/_build (guard OFF: the baseline build has no -DLIBOCCA_OCCA_VERIF) and run the 61 baseline tests.
set -e
R="${1:-/repo}"
if [ ! -f "$R/_build/build.ninja" ]; then
  cmake -G Ninja -S "$R" -B "$R/_build" -DCMAKE_BUILD_TYPE=RelWithDebInfo -DOCCA_ENABLE_TESTS=ON -DCMAKE_CXX_FLAGS=-Wno-error > "$R/_build.cmake.log" 2>&1
fi
cmake --build "$R/_build" -j16 > /dev/null 2>&1 || { echo "BUILD FAILED"; cmake --build "$R/_build" -j16 2>&1 | grep -E "error|Error" | head -20; exit 1; }
ctest --test-dir "$R/_build" -j8 --timeout 900 2>&1 | tail -4
