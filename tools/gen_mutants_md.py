#!/usr/local/bin/python3-vt
"""Regenerate DESIGN.md §7.2 (mutant table) from mutants/RESULTS.txt and mutants/AGENT_RESULTS.txt."""
import os, re
V = os.path.dirname(os.path.dirname(os.path.abspath(__file__)))
rows = {}
for fn in ("RESULTS.txt", "AGENT_RESULTS.txt"):
    p = os.path.join(V, "mutants", fn)
    if not os.path.exists(p):
        continue
    for l in open(p):
        m = re.match(r"(C\d+) (\S+?)(?:\.diff)? :: (?:MUTANT )?(CAUGHT|MISSED|EQUIVALENT|NOT RUN)[^:]*(?::: (.*))?", l.strip())
        if m:
            rows[(m.group(1), m.group(2))] = (m.group(3), (m.group(4) or "").strip())
out = ["### 7.2 Mutants (`mutants/<ID>/*.diff`, quick tier, `tools/run_mutant.sh`)", "",
       "Small realistic edits that still compile; each is applied to a private worktree, the quick check is run, the tree reverted.",
       "`caught` = the check exited 1 with a VIOLATION line.  Results of the checks written by sub-agents are taken from their reports",
       "(`mutants/AGENT_RESULTS.txt`), the others from `mutants/RESULTS.txt`.", "",
       "| property | caught | missed / equivalent / not run |", "|---|---|---|"]
byp = {}
for (pid, name), (res, note) in sorted(rows.items()):
    byp.setdefault(pid, {"CAUGHT": [], "other": []})
    if res == "CAUGHT":
        byp[pid]["CAUGHT"].append(name)
    else:
        byp[pid]["other"].append("%s (%s%s)" % (name, res.lower(), (": " + note) if note and res != "MISSED" else ""))
for pid in sorted(byp):
    out.append("| %s | %s | %s |" % (pid, ", ".join("`%s`" % x for x in byp[pid]["CAUGHT"]) or "—", "; ".join(byp[pid]["other"]) or "—"))
# mutants on disk never run
import glob
notrun = []
for f in sorted(glob.glob(os.path.join(V, "mutants", "C*", "*.diff"))):
    pid, name = f.split("/")[-2], os.path.basename(f)[:-5]
    if (pid, name) not in rows:
        notrun.append("%s/%s" % (pid, name))
if notrun:
    out += ["", "Created but not run in this session (machine time): " + ", ".join("`%s`" % x for x in notrun) + "."]
md = "\n".join(out) + "\n\n"
s = open(os.path.join(V, "DESIGN.md")).read()
a = s.find("### 7.2 Mutants")
b = s.index("## 8. Order of implementation")
if a == -1:
    a = b
s = s[:a] + md + s[b:]
open(os.path.join(V, "DESIGN.md"), "w").write(s)
print("mutant rows:", len(rows), "not run:", len(notrun))
