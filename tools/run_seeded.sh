#!/bin/bash
# run_seeded.sh <seeded-id> [tier]: apply seeded/<id>/patch.diff to a private worktree of /repo (never to /repo itself when
# VERIF_REPO is set), run the check(s) named in seeded/<id>/meta.json, revert, append the outcome to seeded/RESULTS.txt.
V="$(cd "$(dirname "$0")/.." && pwd)"; cd "$V"
ID="$1"; TIER="${2:-quick}"
D="seeded/$ID"
[ -f "$D/patch.diff" ] || { echo "no $D/patch.diff"; exit 2; }
PY=python3-vt; command -v $PY >/dev/null 2>&1 || PY=/opt/veriftools/pyvenv/bin/python3
CHECKS=$($PY -c "import json;print(' '.join(json.load(open('$D/meta.json'))['checks']))")
for c in $CHECKS; do
  s=$(date +%s)
  out=$(tools/run_mutant.sh "$D/patch.diff" "$c" "$TIER" 2>&1)
  res=$(echo "$out" | grep -E "MUTANT (CAUGHT|MISSED)|patch does not apply|repo dirty" | tail -1 | sed 's/MUTANT/SEEDED CHANGE/')
  echo "$ID $c $TIER :: $res :: $(( $(date +%s) - s ))s :: $(echo "$out" | grep -m1 'what:' | cut -c1-220)" | tee -a seeded/RESULTS.txt
done
