#!/usr/local/bin/python3-vt
"""Regenerate the table of DESIGN.md §7.1 from seeded/*/meta.json and seeded/RESULTS.txt."""
import os, re, json, glob
V = os.path.dirname(os.path.dirname(os.path.abspath(__file__)))
NOTES = {
 "S-C02": "after device-to-device copies between different element sizes were added to the generator (they had been excluded as ambiguous)",
 "S-C05": "only after the generator was extended (the first C05 generator excluded `use_host_pointer` without a source as a precondition; §6)",
 "S-C06": "first run MISSED; caught after the request generator got the three property routes (top level, `modes/<Mode>`, the device's `kernel` properties)",
 "S-C10": "C11 caught it at once; C10 first MISSED, caught after struct field names stopped being alphabetical in the generator",
 "S-C12": "regression input `R\"(a)\" uR\"*(b)\"\\\\)*\"` and the search",
 "S-C16": "by the token-mutation stream through a grammar-generated parameter declaration (attribute x qualifier x type x pointer x array suffix); that mutation was added when the change came in, before the first run (the stream had no array-declared parameters next to `@restrict` before, so a miss was expected)",
 "S-C20": "after the generator was extended to produce write→read→write phase sequences",
 "S-C21": "the C21 generator only had `@atomic x += v` / `-=`, which cannot trigger it: the general `@atomic` forms (plain assignment that reads its target, one- and two-statement blocks) were added when the change came in, before the first run; the extension also exposed the known finding `atomic-critical-mix` (§3) on the unchanged tree",
 "S-C22": "after the one-nest-only mutations (`stray_inner_before/after`, `outer_without_inner_before/after`) were added",
 "S-C24": "first run MISSED; caught after escape-like text (`\\\\U` + hex, `\\\\x41`, `\\\\N` …) was added to the string generator",
 "S-C29": "the first harness excluded an uninitialised `occaCreateJson()` as \"not a value\", so a miss was certain: it is now admitted as a value of `occaJsonObjectSet` (dump/parse is skipped while one is stored: text cannot represent it)",
}
res = {}
for l in open(os.path.join(V, "seeded", "RESULTS.txt")):
    m = re.match(r"(S-C\d+) (C\d+) (\w+) :: SEEDED CHANGE (CAUGHT|MISSED)", l)
    if m:
        res.setdefault(m.group(1), {})[m.group(2)] = m.group(4)      # the last run of a check wins
rows = []
for d in sorted(glob.glob(os.path.join(V, "seeded", "S-C*"))):
    sid = os.path.basename(d)
    meta = json.load(open(os.path.join(d, "meta.json")))
    r = res.get(sid, {})
    caught = [c for c in meta["checks"] if r.get(c) == "CAUGHT"]
    missed = [c for c in meta["checks"] if r.get(c) == "MISSED"]
    notrun = [c for c in meta["checks"] if c not in r]
    out = []
    if caught: out.append("caught by %s quick" % ", ".join(caught))
    if missed: out.append("MISSED by %s" % ", ".join(missed))
    if notrun: out.append("not run: %s" % ", ".join(notrun))
    o = "; ".join(out)
    if sid in NOTES: o += " — " + NOTES[sid]
    rows.append("| %s | %s | %s |" % (sid, meta["needs"].replace("|", "\\|"), o))
s = open(os.path.join(V, "DESIGN.md")).read()
a = s.index("| id | what the change needs in order to manifest | outcome |")
b = s.index("### 7.2 Mutants")
s = s[:a] + "| id | what the change needs in order to manifest | outcome |\n|---|---|---|\n" + "\n".join(rows) + "\n\n" + s[b:]
open(os.path.join(V, "DESIGN.md"), "w").write(s)
print(len(rows), "rows")
