// C10 — kernel argument validation accepts exactly the compatible argument lists, and decides the
// same way for a freshly compiled kernel and for a kernel loaded from the cache.
//
// case  = PARAM* (LIST ARG*)*        (plain data, see the enums below)
//   PARAM  describes one parameter of the OKL kernel signature
//   LIST   starts an argument list (a[0] = the generator's mutation tag, informational only)
//   ARG    one run-time argument of the current list
//
// The kernel is JIT-built on a Serial device (fresh: the binary must not have existed), every list is
// decided on it (ran / occa::exception), the kernel and device are dropped, the kernel is built again
// from the cache in this process (new device; the binary file must be untouched) and once more in a
// *second process* (`--cached-worker`, started once per shard), and all three decision strings are compared with each other and with
// an independent model written from the property statement and the documented cast rule
// (dtype.hpp @startDoc{canBeCastedTo}: flattened types match or one is a whole-number repetition of the
// other; `byte` is the wildcard).
#include "common.hpp"

#include <occa.hpp>
#include <occa/internal/core/kernel.hpp>
#include <occa/internal/utils/sys.hpp>

#include <dirent.h>
#include <fcntl.h>
#include <signal.h>
#include <sys/wait.h>
#include <memory>
#include <sys/stat.h>
#include <unistd.h>

using namespace vf;

enum { PARAM = 0, ARG = 1, LIST = 2 };

// primitive classes: what a dtype leaf is (OCCA dtypes ignore signedness, long long == long)
enum { BOOL = 0, CHAR, SHORT, INT, LONG, FLOAT, DOUBLE, NCLS };
static const char *CLSNAME[NCLS] = {"bool", "char", "short", "int", "long", "float", "double"};

struct Spell { const char *text; int cls; };
// scalar element spellings the OKL parser is observed to accept
static const Spell SCALARS[] = {
  {"bool", BOOL}, {"char", CHAR}, {"unsigned char", CHAR}, {"signed char", CHAR},
  {"short", SHORT}, {"unsigned short", SHORT}, {"int", INT}, {"unsigned int", INT},
  {"long", LONG}, {"unsigned long", LONG}, {"long long", LONG}, {"unsigned long long", LONG},
  {"long int", LONG}, {"float", FLOAT}, {"double", DOUBLE}, {"long long int", LONG}};
static const int NSCALARS = sizeof(SCALARS) / sizeof(SCALARS[0]);
// OKL vector type bases (name<n>, n = 2..4)
static const Spell VECS[] = {
  {"char", CHAR}, {"uchar", CHAR}, {"short", SHORT}, {"ushort", SHORT}, {"int", INT}, {"uint", INT},
  {"long", LONG}, {"ulong", LONG}, {"float", FLOAT}, {"double", DOUBLE}};
static const int NVECS = sizeof(VECS) / sizeof(VECS[0]);
static const char *VEC_CTYPE[] = {"char", "unsigned char", "short", "unsigned short", "int", "unsigned int",
                                  "long", "unsigned long", "float", "double"};

// parameter forms
enum { F_VALUE = 0, F_PTR, F_ARR, F_ARR2, F_TDPTR, F_ARR0, NFORMS };
// element kinds
enum { E_SCALAR = 0, E_VECTOR, E_STRUCT };
// argument kinds
enum { A_SCALAR = 0, A_MEM, A_NULL, A_HOSTPTR, NAKINDS };
// memory dtype categories
enum { D_SCALAR = 0, D_VECTOR, D_BYTE, D_TUPLE, D_STRUCT, D_OPAQUE, NDCATS };
// host scalar types
enum { C_BOOL = 0, C_I8, C_U8, C_I16, C_U16, C_I32, C_U32, C_I64, C_U64, C_F32, C_F64, NCTYPES };
static const int CTYPE_CLS[NCTYPES] = {BOOL, CHAR, CHAR, SHORT, SHORT, INT, INT, LONG, LONG, FLOAT, DOUBLE};
static const char *CTYPE_NAME[NCTYPES] = {"bool", "int8_t", "uint8_t", "int16_t", "uint16_t", "int32_t", "uint32_t",
                                          "int64_t", "uint64_t", "float", "double"};

static ll at(const Op &o, size_t i) { return i < o.a.size() ? o.a[i] : 0; }
static int mod(ll v, int m) { return (int) (((v % m) + m) % m); }
static int rangeOf(ll v, int lo, int hi) { return lo + mod(v - lo, hi - lo + 1); }

// ---- decoded (sanitised) case -----------------------------------------------------------------------
struct Field { int vecBase = -1, scalar = 0, vn = 1, arr = 0; int cls() const { return vecBase >= 0 ? VECS[vecBase].cls : SCALARS[scalar].cls; } };
struct Param {
  int ek = 0, scalar = 0, vecBase = 0, vn = 1, form = F_PTR, cm = 0, n1 = 1, n2 = 1, alias = 0;
  std::vector<Field> fields;
  bool isPtr() const { return form != F_VALUE; }
  std::vector<int> elemFlat() const {
    std::vector<int> f;
    if (ek == E_SCALAR) f.push_back(SCALARS[scalar].cls);
    else if (ek == E_VECTOR) f.assign(vn, VECS[vecBase].cls);
    else for (const Field &fd : fields) for (int r = 0; r < (fd.arr ? fd.arr : 1); ++r) for (int i = 0; i < fd.vn; ++i) f.push_back(fd.cls());
    return f;
  }
};
struct SField { int cls = 0, vn = 1, count = 1; };
struct Arg {
  int kind = A_SCALAR, ctype = C_I32, value = 1;
  int dcat = D_SCALAR, cls = INT, vecBase = 0, vn = 1, n = 1, bytes = 4;
  std::vector<SField> sfields;
  // flattened leaves; -1 = opaque custom leaf (equal to nothing else)
  std::vector<int> flat() const {
    std::vector<int> f;
    switch (dcat) {
    case D_SCALAR: f.push_back(cls); break;
    case D_VECTOR: f.assign(vn, VECS[vecBase].cls); break;
    case D_TUPLE: f.assign((size_t) vn * n, cls); break;
    case D_STRUCT: for (const SField &s : sfields) for (int i = 0; i < s.vn * s.count; ++i) f.push_back(s.cls); break;
    case D_OPAQUE: f.push_back(-1); break;
    default: break;
    }
    return f;
  }
  bool sameAs(const Arg &o) const {   // ignoring the scalar *value*
    if (kind != o.kind) return false;
    if (kind == A_SCALAR) return ctype == o.ctype;
    if (kind != A_MEM) return true;
    if (dcat != o.dcat) return false;
    switch (dcat) {
    case D_SCALAR: return cls == o.cls;
    case D_VECTOR: return vecBase == o.vecBase && vn == o.vn;
    case D_TUPLE: return cls == o.cls && vn == o.vn && n == o.n;
    case D_STRUCT: {
      if (sfields.size() != o.sfields.size()) return false;
      for (size_t i = 0; i < sfields.size(); ++i)
        if (sfields[i].cls != o.sfields[i].cls || sfields[i].vn != o.sfields[i].vn || sfields[i].count != o.sfields[i].count) return false;
      return true;
    }
    case D_OPAQUE: return bytes == o.bytes;
    default: return true;
    }
  }
};
struct ArgList { int tag = 0; std::vector<Arg> args; };
struct Decoded { std::vector<Param> params; std::vector<ArgList> lists; };

static Param decodeParam(const Op &o) {
  Param p;
  p.ek = mod(at(o, 0), 3);
  p.scalar = mod(at(o, 1), NSCALARS);
  p.vecBase = mod(at(o, 1), NVECS);
  p.vn = (p.ek == E_VECTOR) ? rangeOf(at(o, 2), 2, 4) : 1;
  p.form = mod(at(o, 3), NFORMS);
  if (p.form == F_VALUE && p.ek != E_SCALAR) p.form = F_PTR;   // by-value vectors/structs: no defined way to pass them
  p.cm = mod(at(o, 4), 4);
  p.n1 = rangeOf(at(o, 5), 1, 5);
  p.alias = mod(at(o, 6), p.ek == E_STRUCT ? 3 : 2);
  p.n2 = rangeOf(at(o, 7), 1, 3);
  // OKL only digests typedefs of builtin types and `typedef struct {...} S;`: a typedef whose base is a typedef name or a
  // struct name is mis-printed or rejected by the front end (printer/parser defects outside this property), so the
  // kernel never compiles.  Those spellings are not generated.
  if (p.form == F_TDPTR) { if (p.ek == E_STRUCT) p.form = F_PTR; else p.alias = 0; }
  // likewise `struct S const *p` is printed as `struct const S * p` (printer defect, does not compile): const goes first
  if (p.ek == E_STRUCT && p.alias == 2 && p.cm == 2) p.cm = 1;
  if (p.ek == E_STRUCT) {
    for (size_t i = 8; i + 3 < o.a.size() && p.fields.size() < 4; i += 4) {
      Field f;
      const bool vec = mod(o.a[i], 2) == 1;
      if (vec) { f.vecBase = mod(o.a[i + 1], NVECS); f.vn = rangeOf(o.a[i + 2], 2, 4); }
      else f.scalar = mod(o.a[i + 1], NSCALARS);
      f.arr = mod(o.a[i + 3], 4);
      p.fields.push_back(f);
    }
    if (p.fields.empty()) { Field f; f.scalar = 13; p.fields.push_back(f); }
  }
  return p;
}

static Arg decodeArg(const Op &o) {
  Arg a;
  a.kind = mod(at(o, 0), NAKINDS);
  if (a.kind == A_SCALAR) {
    a.ctype = mod(at(o, 1), NCTYPES);
    a.value = mod(at(o, 2), 100);
  } else if (a.kind == A_MEM) {
    a.dcat = mod(at(o, 1), NDCATS);
    switch (a.dcat) {
    case D_SCALAR: a.cls = mod(at(o, 2), NCLS); a.value = mod(at(o, 3), 2); break;
    case D_VECTOR: a.vecBase = mod(at(o, 2), NVECS); a.vn = rangeOf(at(o, 3), 2, 4); break;
    case D_TUPLE: a.cls = mod(at(o, 2), NCLS); a.vn = rangeOf(at(o, 3), 1, 4); a.n = rangeOf(at(o, 4), 1, 6); break;
    case D_STRUCT:
      for (size_t i = 2; i + 2 < o.a.size() && a.sfields.size() < 4; i += 3) {
        SField s; s.cls = mod(o.a[i], NCLS); s.vn = rangeOf(o.a[i + 1], 1, 4); s.count = rangeOf(o.a[i + 2], 1, 3);
        a.sfields.push_back(s);
      }
      if (a.sfields.empty()) { SField s; s.cls = FLOAT; a.sfields.push_back(s); }
      break;
    case D_OPAQUE: a.bytes = rangeOf(at(o, 2), 1, 16); break;
    default: break;
    }
  }
  return a;
}

static Decoded decode(const Case &c) {
  Decoded d;
  for (const Op &o : c) {
    if (o.k == PARAM) { if (d.lists.empty() && d.params.size() < 6) d.params.push_back(decodeParam(o)); }
    else if (o.k == LIST) { if (d.lists.size() < 8) { ArgList l; l.tag = (int) at(o, 0); d.lists.push_back(l); } else break; }
    else if (o.k == ARG) { if (!d.lists.empty() && d.lists.back().args.size() < 8) d.lists.back().args.push_back(decodeArg(o)); }
  }
  return d;
}

// the argument a caller passes for an exact match
static Arg exactArg(const Param &p) {
  Arg a;
  if (!p.isPtr()) {
    a.kind = A_SCALAR;
    static const int exact[] = {C_BOOL, C_I8, C_U8, C_I8, C_I16, C_U16, C_I32, C_U32, C_I64, C_U64, C_I64, C_U64, C_I64, C_F32, C_F64, C_I64};
    a.ctype = exact[p.scalar];
    return a;
  }
  a.kind = A_MEM;
  if (p.ek == E_SCALAR) { a.dcat = D_SCALAR; a.cls = SCALARS[p.scalar].cls; }
  else if (p.ek == E_VECTOR) { a.dcat = D_VECTOR; a.vecBase = p.vecBase; a.vn = p.vn; }
  else {
    a.dcat = D_STRUCT;
    for (const Field &f : p.fields) { SField s; s.cls = f.cls(); s.vn = f.vn; s.count = f.arr ? f.arr : 1; a.sfields.push_back(s); }
  }
  return a;
}

// ---- rendering ----------------------------------------------------------------------------------------
static std::string elemSpelling(const Param &p, int i, std::string &decls) {
  std::ostringstream ss;
  std::string base;
  if (p.ek == E_SCALAR) base = SCALARS[p.scalar].text;
  else if (p.ek == E_VECTOR) { ss << VECS[p.vecBase].text << p.vn; base = ss.str(); ss.str(""); }
  else {
    std::ostringstream body;
    body << "{ ";
    for (size_t f = 0; f < p.fields.size(); ++f) {
      const Field &fd = p.fields[f];
      if (fd.vecBase >= 0) body << VECS[fd.vecBase].text << fd.vn; else body << SCALARS[fd.scalar].text;
      // field names are not always in alphabetical order: build.json must keep *declaration* order
      if ((i + p.fields.size()) % 2) body << " " << "wvut"[f % 4] << f; else body << " f" << f;
      if (fd.arr) body << "[" << fd.arr << "]";
      body << "; ";
    }
    body << "}";
    ss << "S" << i;
    const std::string sname = ss.str(); ss.str("");
    switch (p.alias) {
    case 1: decls += "typedef struct " + body.str() + " " + sname + ";\n"; return sname;
    case 2: decls += "struct " + sname + " " + body.str() + ";\n"; return "struct " + sname;
    default: decls += "struct " + sname + " " + body.str() + ";\n"; return sname;
    }
  }
  if (p.alias == 0) return base;
  ss << "e" << i << "_t";
  const std::string a1 = ss.str(); ss.str("");
  decls += "typedef " + base + " " + a1 + ";\n";
  // (a typedef of a typedef name or of a struct name is printed wrongly by the OKL printer -- `typedef typedef float e_t ee_t;`
  //  -- so such kernels never compile; that is a printer defect outside this property, the form is not generated)
  return a1;
}

static std::string paramDecl(const Param &p, int i, std::string &decls) {
  std::string elem = elemSpelling(p, i, decls);
  std::ostringstream ss;
  std::string t = elem;
  if (p.cm == 1) t = "const " + elem;
  else if (p.cm == 2) t = elem + " const";
  switch (p.form) {
  case F_VALUE: ss << t << " p" << i; break;
  case F_PTR: ss << t << " *" << (p.cm == 3 ? " const " : "") << "p" << i; break;
  case F_ARR: ss << t << " p" << i << "[" << p.n1 << "]"; break;
  case F_ARR2: ss << t << " p" << i << "[" << p.n1 << "][" << p.n2 << "]"; break;
  case F_ARR0: ss << t << " p" << i << "[]"; break;
  case F_TDPTR: {
    std::ostringstream tn; tn << "ptr" << i << "_t";
    decls += "typedef " + t + " *" + tn.str() + ";\n";
    ss << tn.str() << " p" << i;
    break;
  }
  }
  return ss.str();
}

static std::string signature(const Decoded &d, std::string &decls) {
  std::ostringstream ss;
  ss << "@kernel void k(";
  for (size_t i = 0; i < d.params.size(); ++i) ss << (i ? ", " : "") << paramDecl(d.params[i], (int) i, decls);
  ss << ")";
  return ss.str();
}

static std::string renderSource(const Decoded &d, const std::string &tag) {
  std::string decls;
  const std::string sig = signature(d, decls);
  return "// " + tag + "\n" + decls + sig +
         " {\n  for (int o = 0; o < 1; ++o; @outer) {\n    for (int i = 0; i < 1; ++i; @inner) {\n    }\n  }\n}\n";
}

static std::string argText(const Arg &a) {
  std::ostringstream ss;
  switch (a.kind) {
  case A_SCALAR: ss << "(" << CTYPE_NAME[a.ctype] << ")" << a.value; break;
  case A_NULL: ss << "occa::null"; break;
  case A_HOSTPTR: ss << "hostptr"; break;
  default:
    ss << "mem<";
    switch (a.dcat) {
    case D_SCALAR: ss << CLSNAME[a.cls]; break;
    case D_VECTOR: ss << VECS[a.vecBase].text << a.vn; break;
    case D_BYTE: ss << "byte"; break;
    case D_TUPLE: ss << "tuple(" << CLSNAME[a.cls]; if (a.vn > 1) ss << a.vn; ss << "," << a.n << ")"; break;
    case D_STRUCT:
      ss << "struct{";
      for (const SField &s : a.sfields) { ss << CLSNAME[s.cls]; if (s.vn > 1) ss << s.vn; if (s.count > 1) ss << "[" << s.count << "]"; ss << ";"; }
      ss << "}";
      break;
    case D_OPAQUE: ss << "opaque" << a.bytes; break;
    }
    ss << ">";
  }
  return ss.str();
}

static std::string describeCase(const Case &c) {
  Decoded d = decode(c);
  std::string decls;
  std::string sig = signature(d, decls);
  for (char &ch : decls) if (ch == '\n') ch = ' ';
  std::ostringstream ss;
  ss << decls << sig;
  for (const ArgList &l : d.lists) {
    ss << " | run(";
    for (size_t i = 0; i < l.args.size(); ++i) ss << (i ? ", " : "") << argText(l.args[i]);
    ss << ")";
  }
  return ss.str();
}

// ---- the model (independent of libocca) ------------------------------------------------------------
static bool repeats(const std::vector<int> &longer, const std::vector<int> &shorter) {
  if (shorter.empty() || longer.size() % shorter.size()) return false;
  for (size_t i = 0; i < longer.size(); ++i) if (longer[i] != shorter[i % shorter.size()] || longer[i] < 0) return false;
  return true;
}
static bool castable(const std::vector<int> &from, const std::vector<int> &to) {
  return from.size() <= to.size() ? repeats(to, from) : repeats(from, to);
}
static std::vector<int> times(const std::vector<int> &v, int n) {
  std::vector<int> r;
  for (int i = 0; i < n; ++i) r.insert(r.end(), v.begin(), v.end());
  return r;
}

// 'A' must run, 'R' must raise occa::exception, 'U' the statement gives no rule (only fresh == cached)
static char model(const Decoded &d, const ArgList &l, std::string &why) {
  if (l.args.size() != d.params.size()) { why = "arity"; return 'R'; }
  bool unasserted = false;
  for (size_t i = 0; i < l.args.size(); ++i) {
    const Param &p = d.params[i];
    const Arg &a = l.args[i];
    const bool memLike = (a.kind == A_MEM || a.kind == A_NULL);
    if (p.isPtr() && !memLike) { why = "non-memory for pointer parameter"; return 'R'; }
    if (!p.isPtr() && memLike) { why = "memory for non-pointer parameter"; return 'R'; }
    if (!p.isPtr()) {
      // scalar (or host pointer) for a value parameter: only the exact class is asserted
      if (a.kind != A_SCALAR || CTYPE_CLS[a.ctype] != SCALARS[p.scalar].cls) unasserted = true;
      continue;
    }
    if (a.kind == A_NULL || a.dcat == D_BYTE) continue;
    // element type of the parameter: libocca takes T[n] (vartype_t::dtype), C semantics say T (T[n2] for T p[n1][n2]);
    // the verdict is asserted only where both readings agree
    const std::vector<int> elem = p.elemFlat();
    std::vector<int> occaTo = elem, cTo = elem;
    if (p.form == F_ARR) occaTo = times(elem, p.n1);
    if (p.form == F_ARR2) { occaTo = times(elem, p.n1 * p.n2); cTo = times(elem, p.n2); }
    const std::vector<int> from = a.flat();
    const bool c1 = castable(from, occaTo), c2 = castable(from, cTo);
    if (c1 != c2) { unasserted = true; continue; }
    if (!c1) { why = "element type not castable"; return 'R'; }
  }
  return unasserted ? 'U' : 'A';
}

// how a list differs from the exact match: "exact", "arity+1", "arity-1", "one:<what>", "multi"
static std::string respect(const Decoded &d, const ArgList &l) {
  std::vector<Arg> ex;
  for (const Param &p : d.params) ex.push_back(exactArg(p));
  const size_t n = ex.size(), m = l.args.size();
  if (m == n) {
    int diffs = 0; std::string what;
    for (size_t i = 0; i < n; ++i) if (!l.args[i].sameAs(ex[i])) {
      ++diffs;
      const Arg &a = l.args[i];
      if (a.kind == A_NULL) what = d.params[i].isPtr() ? "null-for-pointer" : "null-for-value";
      else if (a.kind == A_HOSTPTR) what = d.params[i].isPtr() ? "hostptr-for-pointer" : "hostptr-for-value";
      else if (a.kind == A_SCALAR) what = d.params[i].isPtr() ? "scalar-for-pointer" : "other-scalar";
      else if (!d.params[i].isPtr()) what = "memory-for-value";
      else {
        static const char *dn[] = {"scalar", "vector", "byte", "tuple", "struct", "opaque"};
        what = std::string("memory-dtype-") + dn[a.dcat];
      }
    }
    if (!diffs) return "exact";
    return diffs == 1 ? "one:" + what : "multi";
  }
  if (m == n + 1) {
    // exact list with one argument inserted somewhere
    for (size_t skip = 0; skip < m; ++skip) {
      bool ok = true;
      for (size_t i = 0, j = 0; i < m; ++i) { if (i == skip) continue; if (!l.args[i].sameAs(ex[j])) { ok = false; break; } ++j; }
      if (ok) return "arity+1";
    }
    return "multi";
  }
  if (m + 1 == n) {
    for (size_t skip = 0; skip < n; ++skip) {
      bool ok = true;
      for (size_t i = 0, j = 0; i < n; ++i) { if (i == skip) continue; if (!l.args[j].sameAs(ex[i])) { ok = false; break; } ++j; }
      if (ok) return "arity-1";
    }
    return "multi";
  }
  return "multi";
}

// ---- libocca side --------------------------------------------------------------------------------------
static const occa::dtype_t &builtinScalar(int cls, int route) {
  // route != 0: the same registered dtype reached through the sized / unsigned aliases
  switch (cls) {
  case BOOL: return occa::dtype::bool_;
  case CHAR: return route ? occa::dtype::uint8 : occa::dtype::char_;
  case SHORT: return route ? occa::dtype::uint16 : occa::dtype::short_;
  case INT: return route ? occa::dtype::uint32 : occa::dtype::int_;
  case LONG: return route ? occa::dtype::uint64 : occa::dtype::long_;
  case FLOAT: return occa::dtype::float_;
  default: return occa::dtype::double_;
  }
}
static const occa::dtype_t &builtinVector(int base, int n) {
  using namespace occa::dtype;
  static const occa::dtype_t *t[10][3] = {
    {&char2, &char3, &char4}, {&uchar2, &uchar3, &uchar4}, {&short2, &short3, &short4}, {&ushort2, &ushort3, &ushort4},
    {&int2, &int3, &int4}, {&uint2, &uint3, &uint4}, {&long2, &long3, &long4}, {&ulong2, &ulong3, &ulong4},
    {&float2, &float3, &float4}, {&double2, &double3, &double4}};
  return *t[base][n - 2];
}
static int vecBaseOfCls(int cls) {
  switch (cls) { case CHAR: return 0; case SHORT: return 2; case INT: return 4; case LONG: return 6; case FLOAT: return 8; case DOUBLE: return 9; default: return -1; }
}
static const occa::dtype_t &leafOf(int cls, int vn) {
  if (vn > 1 && vecBaseOfCls(cls) >= 0) return builtinVector(vecBaseOfCls(cls), vn);
  return builtinScalar(cls, 0);
}

struct Built {
  std::vector<std::unique_ptr<occa::dtype_t>> dtypes;   // must outlive the memories
  std::vector<occa::memory> mems;
  std::vector<occa::kernelArg> args;
  ~Built() { args.clear(); for (auto &m : mems) m.free(); }
};

static float hostBuffer[16];

static void buildArgs(occa::device &dev, const ArgList &l, Built &b) {
  for (const Arg &a : l.args) {
    switch (a.kind) {
    case A_SCALAR:
      switch (a.ctype) {
      case C_BOOL: b.args.push_back(occa::kernelArg((bool) (a.value & 1))); break;
      case C_I8: b.args.push_back(occa::kernelArg((int8_t) a.value)); break;
      case C_U8: b.args.push_back(occa::kernelArg((uint8_t) a.value)); break;
      case C_I16: b.args.push_back(occa::kernelArg((int16_t) a.value)); break;
      case C_U16: b.args.push_back(occa::kernelArg((uint16_t) a.value)); break;
      case C_I32: b.args.push_back(occa::kernelArg((int32_t) a.value)); break;
      case C_U32: b.args.push_back(occa::kernelArg((uint32_t) a.value)); break;
      case C_I64: b.args.push_back(occa::kernelArg((int64_t) a.value)); break;
      case C_U64: b.args.push_back(occa::kernelArg((uint64_t) a.value)); break;
      case C_F32: b.args.push_back(occa::kernelArg((float) a.value)); break;
      default: b.args.push_back(occa::kernelArg((double) a.value)); break;
      }
      break;
    case A_NULL: b.args.push_back(occa::kernelArg(occa::null)); break;
    case A_HOSTPTR: b.args.push_back(occa::kernelArg(&hostBuffer[0])); break;
    default: {
      occa::memory m = dev.malloc(256, occa::dtype::byte);
      const occa::dtype_t *dt = &occa::dtype::byte;
      switch (a.dcat) {
      case D_SCALAR: dt = &builtinScalar(a.cls, a.value & 1); break;
      case D_VECTOR: dt = &builtinVector(a.vecBase, a.vn); break;
      case D_BYTE: break;
      case D_TUPLE:
        b.dtypes.emplace_back(new occa::dtype_t(occa::dtype_t::tuple(leafOf(a.cls, a.vn), a.n)));
        b.dtypes.back()->registerType();
        dt = b.dtypes.back().get();
        break;
      case D_STRUCT: {
        b.dtypes.emplace_back(new occa::dtype_t("hoststruct"));
        occa::dtype_t &s = *b.dtypes.back();
        int fi = 0;
        for (const SField &f : a.sfields) { std::ostringstream fn; fn << "f" << fi++; s.addField(fn.str(), leafOf(f.cls, f.vn), f.count); }
        s.registerType();
        dt = &s;
        break;
      }
      case D_OPAQUE:
        b.dtypes.emplace_back(new occa::dtype_t("opaque", a.bytes, true));
        dt = b.dtypes.back().get();
        break;
      }
      m.setDtype(*dt);
      b.mems.push_back(m);
      b.args.push_back(occa::kernelArg(m));
    }
    }
  }
}

// vector types of the bool class do not exist: a tuple/struct leaf (bool, vn>1) degrades to plain bool, keep the model in step
static void normalise(Decoded &d) {
  for (ArgList &l : d.lists) for (Arg &a : l.args) {
    if (a.kind != A_MEM) continue;
    if (a.dcat == D_TUPLE && vecBaseOfCls(a.cls) < 0) a.vn = 1;
    if (a.dcat == D_STRUCT) for (SField &s : a.sfields) if (vecBaseOfCls(s.cls) < 0) s.vn = 1;
  }
}

static char decideOne(occa::kernel &k, occa::device &dev, const ArgList &l, std::string &msg) {
  Built b;
  buildArgs(dev, l, b);
  char res;
  try {
    k.clearArgs();
    for (auto &a : b.args) k.pushArg(a);
    k.run();
    res = 'A';
  } catch (occa::exception &e) {
    res = 'R';
    msg = e.message;
  }
  k.clearArgs();
  return res;
}

static std::string decideAll(occa::kernel &k, occa::device &dev, const Decoded &d, std::vector<std::string> *msgs = NULL) {
  std::string r;
  for (const ArgList &l : d.lists) {
    std::string msg;
    r += decideOne(k, dev, l, msg);
    if (msgs) msgs->push_back(msg);
  }
  return r;
}

struct FileId {
  bool exists = false; ino_t ino = 0; off_t size = 0; long ms = 0, mns = 0;
  bool operator==(const FileId &o) const { return exists == o.exists && ino == o.ino && size == o.size && ms == o.ms && mns == o.mns; }
};
static FileId fileId(const std::string &p) {
  FileId f; struct stat st;
  if (stat(p.c_str(), &st) == 0) { f.exists = true; f.ino = st.st_ino; f.size = st.st_size; f.ms = st.st_mtim.tv_sec; f.mns = st.st_mtim.tv_nsec; }
  return f;
}
static std::set<std::string> listDir(const std::string &p) {
  std::set<std::string> s;
  if (DIR *dp = opendir(p.c_str())) {
    while (dirent *e = readdir(dp)) { std::string n = e->d_name; if (n != "." && n != "..") s.insert(n); }
    closedir(dp);
  }
  return s;
}
static std::string dirOf(const std::string &p) { size_t i = p.rfind('/'); return i == std::string::npos ? "." : p.substr(0, i); }

static std::string scratchDir() {
  std::string d = std::string(envOr("VERIF_C10_DIR", envOr("OCCA_CACHE_DIR", "."))) + "/c10_" + envOr("VERIF_SHARD", "r") + "_" + std::to_string((long) getpid());
  mkdir(d.c_str(), 0777);
  return d;
}

static void writeVecHeader(const std::string &path) {
  std::ofstream f(path);
  f << "#pragma once\n";
  for (int b = 0; b < NVECS; ++b) {
    f << "struct " << VECS[b].text << "2 { " << VEC_CTYPE[b] << " x, y; };\n";
    f << "struct " << VECS[b].text << "3 { " << VEC_CTYPE[b] << " x, y, z; };\n";
    f << "struct " << VECS[b].text << "4 { " << VEC_CTYPE[b] << " x, y, z, w; };\n";
  }
}

static occa::json kernelProps(const std::string &dir) {
  occa::json props;
  props["compiler_flags"] = "-O0 -include " + dir + "/okl_vectors.hpp";
  return props;
}

static occa::device newDevice() { return occa::device(std::string("{mode: 'Serial'}")); }

// second process: load from the cache (the binary must already be there and stay untouched), decide every list
// second process: load from the cache (the binary must already be there and stay untouched), decide every list.
// It is a *worker*: one request per line on stdin ("<case file>\t<source file>\t<expected binary>"), one answer line on
// stdout, so that the start-up cost of a sanitized process is paid once per shard and not once per case.  The worker
// never compiles anything: every kernel it runs comes out of the cache directory filled by its parent.
static std::string cachedOnce(const std::string &caseFile, const std::string &srcFile, const std::string &expectBinary) {
  std::ifstream f(caseFile);
  if (!f) return "C10CHILD-ERROR cannot open case";
  Case c = deserialize(f);
  Decoded d = decode(c);
  normalise(d);
  const FileId before = fileId(expectBinary);
  if (!before.exists) return "C10CHILD-ERROR binary " + expectBinary + " is not in the cache";
  const std::set<std::string> filesBefore = listDir(dirOf(expectBinary));
  try {
    occa::device dev = newDevice();
    occa::kernel k = dev.buildKernel(srcFile, "k", kernelProps(dirOf(srcFile)));
    const bool untouched = (fileId(expectBinary) == before) && k.binaryFilename() == expectBinary && listDir(dirOf(expectBinary)) == filesBefore;
    const std::string dec = decideAll(k, dev, d);
    k.free();
    dev.free();
    return "C10CHILD " + (dec.empty() ? std::string("-") : dec) + " " + (untouched ? "cache-hit" : "REBUILT");
  } catch (std::exception &e) {
    std::string m = e.what();
    for (char &ch : m) if (ch == '\n') ch = ' ';
    return "C10CHILD-ERROR exception " + m.substr(0, 600);
  }
}

static int cachedWorker() {
  std::string line;
  while (std::getline(std::cin, line)) {
    std::istringstream ls(line);
    std::string a, b, c;
    std::getline(ls, a, '\t'); std::getline(ls, b, '\t'); std::getline(ls, c, '\t');
    const std::string r = cachedOnce(a, b, c);
    printf("%s\n", r.c_str());
    fflush(stdout);
  }
  return 0;
}

static std::string selfExe() {
  char buf[4096];
  ssize_t n = readlink("/proc/self/exe", buf, sizeof(buf) - 1);
  if (n <= 0) return "";
  buf[n] = 0;
  return buf;
}

struct Worker {
  pid_t pid = -1;
  int toChild = -1;
  FILE *fromChild = NULL;
  std::string errFile;
  bool start(const std::string &dir) {
    errFile = dir + "/worker.err";
    int in[2], out[2];
    if (pipe(in) || pipe(out)) return false;
    const std::string exe = selfExe();
    pid = fork();
    if (pid < 0) return false;
    if (pid == 0) {
      dup2(in[0], 0); dup2(out[1], 1);
      int efd = open(errFile.c_str(), O_WRONLY | O_CREAT | O_TRUNC, 0666);
      if (efd >= 0) dup2(efd, 2);
      close(in[0]); close(in[1]); close(out[0]); close(out[1]);
      unsetenv("VERIF_STATS"); unsetenv("VERIF_CUR"); unsetenv("VERIF_FAIL");
      execl(exe.c_str(), exe.c_str(), "--cached-worker", (char*) NULL);
      _exit(127);
    }
    close(in[0]); close(out[1]);
    toChild = in[1];
    fromChild = fdopen(out[0], "r");
    return fromChild != NULL;
  }
  void stop() {
    if (toChild >= 0) close(toChild);
    if (fromChild) fclose(fromChild);
    if (pid > 0) { int st; waitpid(pid, &st, 0); }
    pid = -1; toChild = -1; fromChild = NULL;
  }
  // one request; on any failure the worker is torn down (a new one is started for the next case)
  bool ask(const std::string &req, std::string &answer) {
    const std::string line = req + "\n";
    if (write(toChild, line.data(), line.size()) != (ssize_t) line.size()) { answer = "cannot write to the worker"; stop(); return false; }
    char buf[4096];
    if (!fgets(buf, sizeof(buf), fromChild)) {
      stop();
      std::ifstream e(errFile);
      std::stringstream ss; ss << e.rdbuf();
      answer = "worker process died: " + ss.str().substr(0, 1500);
      return false;
    }
    answer = buf;
    while (!answer.empty() && (answer.back() == '\n' || answer.back() == '\r')) answer.pop_back();
    return true;
  }
  ~Worker() { stop(); }
};
static Worker &worker() { static Worker w; return w; }

static bool runCase(const Case &c, Ctx &ctx) {
  Decoded d = decode(c);
  normalise(d);
  if (d.lists.empty()) return true;   // nothing to decide

  static long counter = 0;
  static std::string dir;
  if (dir.empty()) { dir = scratchDir(); writeVecHeader(dir + "/okl_vectors.hpp"); }
  ++counter;

  // known findings (classes excluded by construction; the exclusion is counted)
  if (d.params.empty() && known()("zero-parameter-kernel-not-validated-when-fresh")) return true;

  std::ostringstream tag;
  tag << "C10 case " << std::hex << fnv(serialize(c)) << std::dec << " #" << counter << " shard " << envOr("VERIF_SHARD", "r");
  const std::string src = renderSource(d, tag.str());
  const std::string srcFile = dir + "/k.okl";
  { std::ofstream f(srcFile, std::ios::trunc); f << src; }
  const occa::json props = kernelProps(dir);
  const std::string cacheRoot = std::string(envOr("OCCA_CACHE_DIR", "")) + "/cache";

  // classes
  ctx.cls("params=" + std::to_string(d.params.size()));
  for (const Param &p : d.params) {
    static const char *fn[] = {"value", "pointer", "array", "array2d", "typedef-pointer", "unsized-array"};
    static const char *en[] = {"scalar", "vector", "struct"};
    ctx.cls(std::string("param:") + en[p.ek] + "/" + fn[p.form] + (p.alias ? "/alias" : ""));
  }

  // ---- model
  std::string want;
  std::vector<std::string> resp;
  for (const ArgList &l : d.lists) {
    std::string why;
    want += model(d, l, why);
    resp.push_back(respect(d, l));
    ctx.cls("list:" + resp.back() + "=>" + want.back());
  }

  // ---- fresh
  std::string fresh, cachedIn, binary;
  std::vector<std::string> msgs;
  {
    occa::device dev = newDevice();
    std::set<std::string> before = listDir(cacheRoot);
    occa::kernel k = dev.buildKernel(srcFile, "k", props);
    binary = k.binaryFilename();
    std::string hashDirName = dirOf(binary);
    hashDirName = hashDirName.substr(hashDirName.rfind('/') + 1);
    if (before.count(hashDirName)) {
      // left over from an earlier run with the same scratch directory (delta debugging replays): really rebuild
      k.free();
      occa::sys::rmrf(dirOf(binary));
      before = listDir(cacheRoot);
      k = dev.buildKernel(srcFile, "k", props);
      binary = k.binaryFilename();
    }
    if (before.count(hashDirName) || !fileId(binary).exists)
      return ctx.fail("harness: could not obtain a freshly compiled kernel (" + binary + ")");
    fresh = decideAll(k, dev, d, &msgs);
    k.free();
    dev.free();
  }
  // ---- cached, same process, new device
  {
    const FileId before = fileId(binary);
    const std::set<std::string> filesBefore = listDir(dirOf(binary));
    if (!fileId(dirOf(binary) + "/build.json").exists) return ctx.fail("harness: no build.json next to the binary");
    occa::device dev = newDevice();
    occa::kernel k = dev.buildKernel(srcFile, "k", props);
    if (!(fileId(binary) == before) || k.binaryFilename() != binary || listDir(dirOf(binary)) != filesBefore)
      return ctx.fail("harness: second build did not come from the cache");
    cachedIn = decideAll(k, dev, d);
    k.free();
    dev.free();
  }
  // ---- cached, second process
  std::string cachedOut;
  {
    const std::string caseFile = dir + "/child.case";
    { std::ofstream f(caseFile, std::ios::trunc); f << serialize(c); }
    Worker &w = worker();
    if (w.pid < 0 && !w.start(dir)) return ctx.fail("harness: cannot start the second process");
    std::string out;
    if (!w.ask(caseFile + "\t" + srcFile + "\t" + binary, out) || out.compare(0, 9, "C10CHILD ") != 0)
      return ctx.fail("second process that loads the kernel from the cache failed: " + out);
    std::istringstream ls(out.substr(9));
    std::string how;
    ls >> cachedOut >> how;
    if (cachedOut == "-") cachedOut.clear();
    if (how != "cache-hit") return ctx.fail("harness: second process did not load from the cache");
  }

  // ---- verdict
  for (size_t i = 0; i < d.lists.size(); ++i) {
    std::ostringstream ls;
    ls << "run(";
    for (size_t j = 0; j < d.lists[i].args.size(); ++j) ls << (j ? ", " : "") << argText(d.lists[i].args[j]);
    ls << ") [" << resp[i] << "]";
    const char f = fresh[i], ci = cachedIn[i], co = i < cachedOut.size() ? cachedOut[i] : '?';
    auto nm = [](char x) { return x == 'A' ? "ran" : x == 'R' ? "raised" : x == 'U' ? "unspecified" : "?"; };
    if (f != ci || f != co) {
      std::ostringstream w;
      w << ls.str() << ": freshly compiled kernel " << nm(f) << ", kernel loaded from the cache " << nm(ci)
        << " (same process) / " << nm(co) << " (second process); model " << nm(want[i])
        << (msgs[i].empty() ? "" : "; fresh message: " + msgs[i].substr(0, 160));
      return ctx.fail(w.str());
    }
    if (want[i] != 'U' && f != want[i]) {
      std::ostringstream w;
      w << ls.str() << ": kernel " << nm(f) << " (fresh and cached) but must have " << nm(want[i])
        << (msgs[i].empty() ? "" : "; message: " + msgs[i].substr(0, 200));
      return ctx.fail(w.str());
    }
    if (f == 'R') {
      const std::string &m = msgs[i];
      ctx.cls(m.find("Kernel expects [") != std::string::npos ? "raised:arity"
              : m.find("expects an occa::memory") != std::string::npos ? "raised:wants-memory"
              : m.find("non-occa::memory") != std::string::npos ? "raised:wants-value"
              : m.find("wrong runtime type") != std::string::npos ? "raised:dtype" : "raised:other");
    }
    if (resp[i] != "exact" && resp[i] != "multi") ctx.nontrivial = true;   // exactly one respect, decided fresh + cached
  }
  return true;
}

// ---- generator -----------------------------------------------------------------------------------------
static ll pick(ll lo, ll hi) { return *rng(lo, hi); }
static ll pickW(std::initializer_list<int> w) {
  ll total = 0; for (int x : w) total += x;
  ll r = pick(0, total - 1), i = 0;
  for (int x : w) { if (r < x) return i; r -= x; ++i; }
  return 0;
}

static Op genParam() {
  Op o; o.k = PARAM;
  const int ek = (int) pickW({5, 3, 2});
  int form;
  if (ek == E_SCALAR) form = (int) pickW({35, 34, 12, 5, 9, 5});
  else form = 1 + (int) pickW({56, 20, 8, 11, 5});
  o.a = {ek, ek == E_VECTOR ? pick(0, NVECS - 1) : pick(0, NSCALARS - 1), pick(2, 4), form, pickW({4, 3, 1, 1}),
         pickW({0, 2, 3, 3, 3, 1}), pickW({5, 3, ek == E_STRUCT ? 2 : 0}), pick(1, 3)};
  if (ek == E_STRUCT) {
    const int nf = (int) pick(1, 3);
    // fields of one class are the interesting ones for the repetition rule; "one class except the last field" is the
    // shape where a period check that stops early goes wrong
    const int shape = (int) pickW({9, 6, 5});   // uniform, uniform with a deviating last field, independent
    const ll sp = pick(0, NSCALARS - 1);
    for (int i = 0; i < nf; ++i) {
      const ll vec = pickW({3, 1});
      o.a.push_back(vec);
      const bool same = shape == 0 || (shape == 1 && (i + 1 < nf || nf == 1));
      if (same) {
        const int cls = SCALARS[sp].cls;
        o.a.push_back(vec ? (vecBaseOfCls(cls) >= 0 ? vecBaseOfCls(cls) + (cls <= LONG ? pick(0, 1) : 0) : 8) : sp);
      } else o.a.push_back(vec ? pick(0, NVECS - 1) : pick(0, NSCALARS - 1));
      o.a.push_back(pick(2, 4));
      o.a.push_back(shape == 1 && i + 1 < nf ? pickW({2, 0, 2, 1}) : pickW({5, 1, 2, 1}));
    }
  }
  return o;
}

static Op argOp(const Arg &a) {
  Op o; o.k = ARG;
  switch (a.kind) {
  case A_SCALAR: o.a = {A_SCALAR, a.ctype, a.value}; break;
  case A_NULL: o.a = {A_NULL}; break;
  case A_HOSTPTR: o.a = {A_HOSTPTR}; break;
  default:
    switch (a.dcat) {
    case D_SCALAR: o.a = {A_MEM, D_SCALAR, a.cls, a.value & 1}; break;
    case D_VECTOR: o.a = {A_MEM, D_VECTOR, a.vecBase, a.vn}; break;
    case D_BYTE: o.a = {A_MEM, D_BYTE}; break;
    case D_TUPLE: o.a = {A_MEM, D_TUPLE, a.cls, a.vn, a.n}; break;
    case D_STRUCT:
      o.a = {A_MEM, D_STRUCT};
      for (const SField &s : a.sfields) { o.a.push_back(s.cls); o.a.push_back(s.vn); o.a.push_back(s.count); }
      break;
    default: o.a = {A_MEM, D_OPAQUE, a.bytes}; break;
    }
  }
  return o;
}

static Arg genScalar(int clsHint) {
  Arg a; a.kind = A_SCALAR; a.value = (int) pick(0, 99);
  a.ctype = (int) pick(0, NCTYPES - 1);
  (void) clsHint;
  return a;
}

// a memory whose dtype differs from `elem` in a chosen way
static Arg genOtherMemory(const std::vector<int> &elem) {
  Arg a; a.kind = A_MEM; a.value = (int) pick(0, 1);
  const int cls0 = elem.empty() ? FLOAT : elem[0];
  bool uniform = true;
  for (int c : elem) uniform = uniform && c == cls0;
  const int sub = (int) pickW({3, 3, 2, 2, 3, 3, 1});
  const int cls = (pick(0, 3) != 0) ? cls0 : (int) pick(0, NCLS - 1);   // mostly the same base
  switch (sub) {
  case 0: a.dcat = D_SCALAR; a.cls = cls; break;
  case 1: {
    a.dcat = D_VECTOR;
    const int vb = vecBaseOfCls(cls);
    if (vb < 0) { a.dcat = D_SCALAR; a.cls = cls; break; }
    a.vecBase = vb + ((cls <= LONG) ? (int) pick(0, 1) : 0);
    a.vn = (int) pick(2, 4);
    break;
  }
  case 2: a.dcat = D_SCALAR; a.cls = (int) pick(0, NCLS - 1); break;
  case 3: a.dcat = D_BYTE; break;
  case 4: a.dcat = D_TUPLE; a.cls = cls; a.vn = (int) pickW({0, 4, 2, 1, 1}); a.n = (int) pick(1, 6); break;
  case 5: {
    a.dcat = D_STRUCT;
    const int nf = (int) pick(1, 3);
    const bool mirror = !uniform && pick(0, 1);   // the parameter's own leaf sequence, split differently
    if (mirror) {
      for (size_t i = 0; i < elem.size() && a.sfields.size() < 4; ++i) { SField s; s.cls = elem[i]; a.sfields.push_back(s); }
      if (pick(0, 1) && a.sfields.size() < 4) { SField s; s.cls = (int) pick(0, NCLS - 1); a.sfields.push_back(s); }
    } else {
      const bool deviantLast = pick(0, 2) == 0;   // cls ... cls other: a repetition that breaks in the last period
      for (int i = 0; i < nf; ++i) {
        SField s;
        if (deviantLast) { s.cls = (i + 1 < nf || nf == 1) ? cls : (int) pick(0, NCLS - 1); s.count = (i + 1 < nf) ? (int) pick(1, 3) : 1; }
        else { s.cls = (pick(0, 4) != 0) ? cls : (int) pick(0, NCLS - 1); s.vn = (int) pickW({0, 4, 1, 1, 1}); s.count = (int) pickW({0, 4, 1, 1}); }
        a.sfields.push_back(s);
      }
    }
    break;
  }
  default: a.dcat = D_OPAQUE; a.bytes = (int) pick(1, 16); break;
  }
  return a;
}

static Arg genAnyArg() {
  switch ((int) pickW({3, 3, 1, 1})) {
  case 0: return genScalar(-1);
  case 1: return genOtherMemory({(int) pick(0, NCLS - 1)});
  case 2: { Arg a; a.kind = A_NULL; return a; }
  default: { Arg a; a.kind = A_HOSTPTR; return a; }
  }
}

enum { M_EXACT = 0, M_DROP, M_INSERT, M_SWAP, M_DTYPE, M_NULL, M_HOSTPTR, M_SCALAR, M_DOUBLE };

static void mutate(const std::vector<Param> &ps, std::vector<Arg> &args, int kind) {
  const int n = (int) ps.size();
  auto position = [&](std::function<bool(const Param&)> ok) -> int {
    std::vector<int> cand;
    for (int i = 0; i < n; ++i) if (ok(ps[i])) cand.push_back(i);
    if (cand.empty()) return -1;
    return cand[(size_t) pick(0, (ll) cand.size() - 1)];
  };
  switch (kind) {
  case M_DROP: if (n) args.erase(args.begin() + pick(0, n - 1)); else args.push_back(genAnyArg()); break;
  case M_INSERT: args.insert(args.begin() + pick(0, n), genAnyArg()); break;
  case M_SWAP: {
    if (!n) { args.push_back(genAnyArg()); break; }
    const int i = (int) pick(0, n - 1);
    if (ps[i].isPtr()) args[i] = genScalar(-1);
    else { Arg a; a.kind = A_MEM; a.dcat = pick(0, 3) ? D_SCALAR : D_BYTE; a.cls = SCALARS[ps[i].scalar].cls; args[i] = a; }
    break;
  }
  case M_DTYPE: {
    const int i = position([](const Param &p) { return p.isPtr(); });
    if (i < 0) { mutate(ps, args, M_SWAP); break; }
    args[i] = genOtherMemory(ps[i].elemFlat());
    break;
  }
  case M_NULL: {
    if (!n) { Arg a; a.kind = A_NULL; args.push_back(a); break; }
    int i = position([](const Param &p) { return p.isPtr(); });
    if (i < 0 || pick(0, 3) == 0) i = (int) pick(0, n - 1);
    Arg a; a.kind = A_NULL; args[i] = a;
    break;
  }
  case M_HOSTPTR: {
    const int i = position([](const Param &p) { return p.isPtr(); });
    if (i < 0) { mutate(ps, args, M_INSERT); break; }
    Arg a; a.kind = A_HOSTPTR; args[i] = a;
    break;
  }
  case M_SCALAR: {
    const int i = position([](const Param &p) { return !p.isPtr(); });
    if (i < 0) { mutate(ps, args, M_DTYPE); break; }
    args[i] = genScalar(-1);
    break;
  }
  default: break;
  }
}

static Case genCase() {
  Case c;
  const int np = (int) pickW({2, 5, 5, 4, 3, 2, 2});
  std::vector<Param> ps;
  for (int i = 0; i < np; ++i) { Op o = genParam(); ps.push_back(decodeParam(o)); c.push_back(o); }
  const int nl = (int) pick(3, 6);
  for (int l = 0; l < nl; ++l) {
    int kind = (int) pickW({3, 2, 2, 3, 8, 2, 1, 1, 2});
    std::vector<Arg> args;
    for (const Param &p : ps) { Arg a = exactArg(p); a.value = (int) pick(0, 99); args.push_back(a); }
    // two mutations: the position-preserving one first (drop/insert shift the positions)
    if (kind == M_DOUBLE) { mutate(ps, args, (int) pick(3, 7)); mutate(ps, args, (int) pick(1, 7)); }
    else mutate(ps, args, kind);
    Op lo; lo.k = LIST; lo.a = {kind};
    c.push_back(lo);
    for (const Arg &a : args) c.push_back(argOp(a));
  }
  return c;
}

int main(int argc, char **argv) {
  signal(SIGPIPE, SIG_IGN);
  if (argc >= 2 && !strcmp(argv[1], "--cached-worker")) return cachedWorker();
  if (argc >= 3 && !strcmp(argv[1], "--show")) {
    std::ifstream f(argv[2]);
    Case c = deserialize(f);
    Decoded d = decode(c);
    printf("%s\n%s", describeCase(c).c_str(), renderSource(d, "show").c_str());
    return 0;
  }
  rc::Gen<Case> gen = rc::gen::exec([]() { return genCase(); });
  int rc = harnessMain(argc, argv, "C10 kernel argument validation", gen, runCase, describeCase);
  // scratch directory of this process (sources, vector header); the cache directory belongs to the runner
  return rc;
}
