// C25 — JSON path access and merging follow nested-dictionary semantics.
// Stateful history over three json registers mirrored on a nested std::map model.
//
// Model (properties.jsonl C25): path writes ("a/b/c") create missing intermediate objects; a write through an
// existing non-object intermediate must throw and leave the value unchanged; set(key, v) stores the literal key
// (no path splitting); reads of missing paths return an undefined value and create nothing; remove(path) erases
// the addressed member if it is reachable; r += s merges objects recursively, the right-hand side winning.
// Reads use the const interface only.
#include "common.hpp"
#include <occa/types/json.hpp>
#include <occa/utils/exception.hpp>

using namespace vf;

enum { ASSIGN = 0, ASSIGN_REG, SET, SET_REG, REMOVE, MERGE_EQ, MERGE_PLUS, RESET, RESET_OBJ };
static const int NREG = 3;
static const int MAX_NODES = 160;

struct MNode {
  enum K { NONE, NUL, BOOL, INT, STR, ARR, OBJ };
  K k = NONE;
  ll i = 0;
  std::string s;
  std::vector<MNode> arr;
  std::map<std::string, MNode> obj;
};

static int countNodes(const MNode &n) {
  int c = 1;
  for (auto &x : n.arr) c += countNodes(x);
  for (auto &kv : n.obj) c += countNodes(kv.second);
  return c;
}

static const char *STRS[] = {"", "x", "hello", "a/b", "7", "c"};

static MNode mkValue(ll vkind, ll payload) {
  MNode v;
  switch (((vkind % 6) + 6) % 6) {
  case 0: v.k = MNode::INT; v.i = (int32_t) payload; break;
  case 1: v.k = MNode::BOOL; v.i = payload & 1; break;
  case 2: v.k = MNode::NUL; break;
  case 3: v.k = MNode::STR; v.s = STRS[((payload % 6) + 6) % 6]; break;
  case 4: {
    v.k = MNode::ARR;
    const int n = (int) (((payload % 4) + 4) % 4);
    for (int e = 0; e < n; ++e) {
      MNode x;
      if (e == 0 && (payload & 4)) { x.k = MNode::STR; x.s = "s"; }
      else { x.k = MNode::INT; x.i = (int32_t) (payload + e); }
      v.arr.push_back(x);
    }
    break;
  }
  default: v.k = MNode::OBJ; break;
  }
  return v;
}

static occa::json toJson(const MNode &n) {
  switch (n.k) {
  case MNode::NUL: { occa::json j; j.asNull(); return j; }
  case MNode::BOOL: return occa::json((bool) n.i);
  case MNode::INT: return occa::json((int32_t) n.i);
  case MNode::STR: return occa::json(n.s);
  case MNode::ARR: { occa::json j; j.asArray(); for (auto &x : n.arr) j.array().push_back(toJson(x)); return j; }
  case MNode::OBJ: { occa::json j; j.asObject(); for (auto &kv : n.obj) j.object()[kv.first] = toJson(kv.second); return j; }
  default: return occa::json();
  }
}

static std::string showM(const MNode &n) {
  std::ostringstream ss;
  switch (n.k) {
  case MNode::NONE: ss << "<undefined>"; break;
  case MNode::NUL: ss << "null"; break;
  case MNode::BOOL: ss << (n.i ? "true" : "false"); break;
  case MNode::INT: ss << n.i; break;
  case MNode::STR: ss << '"' << n.s << '"'; break;
  case MNode::ARR: { ss << "["; bool f = true; for (auto &x : n.arr) { ss << (f ? "" : ",") << showM(x); f = false; } ss << "]"; break; }
  case MNode::OBJ: { ss << "{"; bool f = true; for (auto &kv : n.obj) { ss << (f ? "" : ",") << '"' << kv.first << "\":" << showM(kv.second); f = false; } ss << "}"; break; }
  }
  return ss.str();
}

// the documented text format (json::dump): members `"key": value`, separators ", " (indent 0) or ",\n"
static void mdump(const MNode &n, std::string &out, const std::string &indent, const std::string &cur) {
  switch (n.k) {
  case MNode::NONE: return;
  case MNode::NUL: out += "null"; return;
  case MNode::BOOL: out += n.i ? "true" : "false"; return;
  case MNode::INT: out += std::to_string(n.i); return;
  case MNode::STR: out += '"'; out += n.s; out += '"'; return;
  case MNode::ARR: {
    out += '[';
    if (!n.arr.empty()) {
      const std::string ni = cur + indent;
      if (!indent.empty()) out += '\n';
      for (size_t e = 0; e < n.arr.size(); ++e) {
        out += ni;
        mdump(n.arr[e], out, indent, ni);
        if (e + 1 < n.arr.size()) out += indent.empty() ? ", " : ",\n";
        else if (!indent.empty()) out += '\n';
      }
      out += cur;
    }
    out += ']';
    return;
  }
  case MNode::OBJ: {
    if (n.obj.empty()) { out += "{}"; return; }
    out += '{';
    const std::string ni = cur + indent;
    if (!indent.empty()) out += '\n';
    size_t e = 0;
    for (auto &kv : n.obj) {
      out += ni; out += '"'; out += kv.first; out += "\": ";
      mdump(kv.second, out, indent, ni);
      if (++e < n.obj.size()) out += indent.empty() ? ", " : ",\n";
      else if (!indent.empty()) out += '\n';
    }
    if (!indent.empty()) out += cur;
    out += '}';
    return;
  }
  }
}

// independent structural comparison through the const accessors
static bool same(const occa::json &j, const MNode &n, const std::string &at, std::string &why) {
  auto bad = [&](const std::string &m) { why = "at '" + at + "': " + m + " (model " + showM(n) + ")"; return false; };
  switch (n.k) {
  case MNode::NONE: return !j.isInitialized() ? true : bad("expected an undefined value, json type " + std::to_string((int) j.type));
  case MNode::NUL: return j.isNull() ? true : bad("expected null, json type " + std::to_string((int) j.type));
  case MNode::BOOL: return (j.isBool() && j.number().to<bool>() == (bool) n.i) ? true : bad("expected the boolean");
  case MNode::INT:
    return (j.isNumber() && !j.isBool() && j.number().isInteger() && j.number().to<int64_t>() == n.i) ? true
           : bad("expected the integer, got type " + std::to_string((int) j.type) + (j.isNumber() ? " value " + j.number().toString() : ""));
  case MNode::STR: return (j.isString() && j.string() == n.s) ? true : bad("expected the string");
  case MNode::ARR: {
    if (!j.isArray()) return bad("expected an array, json type " + std::to_string((int) j.type));
    if (j.array().size() != n.arr.size()) return bad("array length " + std::to_string(j.array().size()));
    for (size_t e = 0; e < n.arr.size(); ++e) if (!same(j.array()[e], n.arr[e], at + "[" + std::to_string(e) + "]", why)) return false;
    return true;
  }
  case MNode::OBJ: {
    if (!j.isObject()) return bad("expected an object, json type " + std::to_string((int) j.type));
    std::string got, exp;
    for (auto &kv : j.object()) got += "'" + kv.first + "' ";
    for (auto &kv : n.obj) exp += "'" + kv.first + "' ";
    if (got != exp) return bad("object has keys " + got + "expected " + exp);
    for (auto &kv : n.obj) if (!same(j.object().find(kv.first)->second, kv.second, at + "|" + kv.first, why)) return false;
    return true;
  }
  }
  return bad("unknown model kind");
}

static std::vector<std::string> splitPath(const std::string &p) {
  std::vector<std::string> r; std::string cur;
  for (char ch : p) { if (ch == '/') { r.push_back(cur); cur.clear(); } else cur += ch; }
  r.push_back(cur);
  return r;
}

static const MNode* mFind(const MNode &root, const std::vector<std::string> &comps) {
  const MNode *cur = &root;
  for (auto &c : comps) {
    if (cur->k != MNode::OBJ) return NULL;
    auto it = cur->obj.find(c);
    if (it == cur->obj.end()) return NULL;
    cur = &it->second;
  }
  return cur;
}

// returns false when the write must be rejected (existing non-object intermediate); model untouched then
static bool mAssign(MNode &root, const std::vector<std::string> &comps, const MNode &v) {
  if (root.k != MNode::NONE) {
    const MNode *cur = &root;
    for (auto &c : comps) {
      if (cur->k != MNode::OBJ) return false;
      auto it = cur->obj.find(c);
      if (it == cur->obj.end()) break;        // everything below is created
      cur = &it->second;
    }
  }
  if (root.k == MNode::NONE) root.k = MNode::OBJ;
  MNode *cur = &root;
  for (auto &c : comps) {
    MNode *child = &cur->obj[c];
    if (child->k == MNode::NONE) child->k = MNode::OBJ;
    cur = child;
  }
  *cur = v;
  return true;
}

static void mRemove(MNode &root, const std::vector<std::string> &comps) {
  MNode *cur = &root;
  for (size_t i = 0; i < comps.size(); ++i) {
    if (cur->k != MNode::OBJ) return;
    if (i + 1 == comps.size()) { cur->obj.erase(comps[i]); return; }
    auto it = cur->obj.find(comps[i]);
    if (it == cur->obj.end()) return;
    cur = &it->second;
  }
}

static void mMergeObj(MNode &l, const MNode &r, Ctx &ctx) {
  for (auto &kv : r.obj) {
    auto it = l.obj.find(kv.first);
    const bool slash = kv.first.find('/') != std::string::npos;
    if (it != l.obj.end()) {
      const bool lo = it->second.k == MNode::OBJ, ro = kv.second.k == MNode::OBJ;
      if (lo != ro) { ctx.nontrivial = true; ctx.cls("merge-kind-conflict"); }
      if (lo && ro) {
        ctx.nontrivial = true; ctx.cls(slash ? "merge-recursive-slash-key" : "merge-recursive");
        if (kv.second.obj.empty() && !it->second.obj.empty()) ctx.cls("merge-empty-object-onto-non-empty");
        mMergeObj(it->second, kv.second, ctx);
        continue;
      }
      ctx.cls("merge-overwrite");
    } else ctx.cls("merge-new-key");
    l.obj[kv.first] = kv.second;
  }
}
static void mMerge(MNode &l, const MNode &r, Ctx &ctx) {
  if (r.k == MNode::NONE) { ctx.cls("merge-undefined-rhs"); return; }
  if (l.k == MNode::NONE) { ctx.cls("merge-into-undefined"); l.k = MNode::OBJ; }
  mMergeObj(l, r, ctx);
}

static std::vector<std::string>& probePaths() {
  static std::vector<std::string> v;
  if (v.empty()) {
    const char *k[3] = {"a", "b", "c"};
    for (int x = 0; x < 3; ++x) {
      v.push_back(k[x]);
      for (int y = 0; y < 3; ++y) {
        v.push_back(std::string(k[x]) + "/" + k[y]);
        for (int z = 0; z < 3; ++z) v.push_back(std::string(k[x]) + "/" + k[y] + "/" + k[z]);
      }
    }
    v.push_back("a/b/c/a"); v.push_back("a/a/a/a"); v.push_back("c/b/a/c/b"); v.push_back("b/b/a/c");
    v.push_back("d"); v.push_back("a/d"); v.push_back("ab"); v.push_back("a/bc");
  }
  return v;
}

static bool checkReg(const occa::json &J, const MNode &M, int r, Ctx &ctx) {
  std::string why;
  const std::string R = "r" + std::to_string(r);
  if (!same(J, M, R, why)) return ctx.fail("structure differs from the model: " + why);
  if (J.isInitialized() != (M.k != MNode::NONE)) return ctx.fail(R + ": isInitialized() wrong");
  const occa::json sentinel(std::string("<<missing>>"));
  int pathNo = 0;

  for (const std::string &p : probePaths()) {
    const MNode *mn = mFind(M, splitPath(p));
    const std::string at = R + "[" + p + "]";
    if (!mn) ctx.cls("read-missing-path"); else ctx.cls("read-present-path");
    if (J.has(p) != (mn != NULL))
      return ctx.fail(at + ": has() = " + std::to_string(J.has(p)) + ", model " + (mn ? "has it" : "does not have it") + "; value " + showM(M));
    const occa::json &ref = J[p.c_str()];
    const occa::json &ref2 = J[p];
    if (&ref != &ref2) return ctx.fail(at + ": operator[](const char*) const and operator[](const std::string&) const return different nodes");
    if (!mn) {
      if (ref.isInitialized())
        return ctx.fail(at + ": const operator[] of a missing path returned a defined value; value " + showM(M));
    } else {
      if (!same(ref, *mn, at, why)) return ctx.fail("const operator[]: " + why + "; value " + showM(M));
      // size(): members / elements / string length / 0
      int esz = 0;
      if (mn->k == MNode::OBJ) esz = (int) mn->obj.size();
      else if (mn->k == MNode::ARR) esz = (int) mn->arr.size();
      else if (mn->k == MNode::STR) esz = (int) mn->s.size();
      if (ref.size() != esz) return ctx.fail(at + ": size() = " + std::to_string(ref.size()) + ", model " + std::to_string(esz));
      occa::strVector ks = ref.keys();
      std::vector<std::string> eks;
      if (mn->k == MNode::OBJ) for (auto &kv : mn->obj) eks.push_back(kv.first);
      if (ks != eks) return ctx.fail(at + ": keys() differs from the model's key list");
    }
    const occa::json g = ((++pathNo) & 1) ? J.get<occa::json>(p, sentinel) : J.get<occa::json>(p.c_str(), sentinel);
    if (!mn) {
      if (!(g.isString() && g.string() == "<<missing>>") || !(g == sentinel))
        return ctx.fail(at + ": get<json>(missing path, default) did not return the default; value " + showM(M));
    } else if (!same(g, *mn, at, why)) return ctx.fail("get<json>: " + why + "; value " + showM(M));
    if (!mn || mn->k == MNode::INT) {
      const int e = mn ? (int) mn->i : 77;
      if (J.get<int>(p, 77) != e) return ctx.fail(at + ": get<int>(path, 77) = " + std::to_string(J.get<int>(p, 77)) + ", model " + std::to_string(e));
    }
    if (!mn || mn->k == MNode::BOOL) {
      const bool e = mn ? (bool) mn->i : true;
      if (J.get<bool>(p, true) != e) return ctx.fail(at + ": get<bool>(path, true) differs from the model");
      const bool e2 = mn ? (bool) mn->i : false;
      if (J.get<bool>(p, false) != e2) return ctx.fail(at + ": get<bool>(path, false) differs from the model");
    }
    if (!mn || mn->k == MNode::STR) {
      const std::string e = mn ? mn->s : "dflt";
      if (J.get<std::string>(p, "dflt") != e) return ctx.fail(at + ": get<string>(path, \"dflt\") = '" + J.get<std::string>(p, "dflt") + "', model '" + e + "'");
    }
  }
  // root size / keys
  {
    const int esz = (M.k == MNode::OBJ) ? (int) M.obj.size() : 0;
    if (J.size() != esz) return ctx.fail(R + ": size() = " + std::to_string(J.size()) + ", model " + std::to_string(esz) + "; value " + showM(M));
    std::vector<std::string> eks;
    if (M.k == MNode::OBJ) for (auto &kv : M.obj) eks.push_back(kv.first);
    if (J.keys() != eks) return ctx.fail(R + ": keys() differs from the model; value " + showM(M));
    if (J.values().size() != eks.size()) return ctx.fail(R + ": values() has the wrong length");
  }
  // dump
  {
    std::string e2, e0;
    mdump(M, e2, "  ", "");
    mdump(M, e0, "", "");
    const std::string d2 = J.dump(), d0 = J.dump(0);
    if (d2 != e2) return ctx.fail(R + ": dump() = " + Stats::jsonEsc(d2) + " but the model dumps as " + Stats::jsonEsc(e2));
    if (d0 != e0) return ctx.fail(R + ": dump(0) = " + Stats::jsonEsc(d0) + " but the model dumps as " + Stats::jsonEsc(e0));
    if (M.k != MNode::NONE) {
      occa::json back;
      try { back = occa::json::parse(d2); } catch (occa::exception &e) { return ctx.fail(R + ": dump() does not parse: " + Stats::jsonEsc(d2)); }
      if (!same(back, M, R + "(reparsed)", why)) return ctx.fail("parse(dump()) differs from the model: " + why);
      if (!(back == J)) return ctx.fail(R + ": parse(dump()) == value is false");
    }
  }
  // reads created nothing
  if (!same(J, M, R, why)) return ctx.fail("a const read changed the value: " + why);
  return true;
}

static std::string pathOf(const std::vector<ll> &a, size_t from) {
  static const char *k[3] = {"a", "b", "c"};
  std::string p;
  size_t n = 0;
  for (size_t i = from; i < a.size() && n < 4; ++i, ++n) {
    if (n) p += '/';
    p += k[((a[i] % 3) + 3) % 3];
  }
  if (!n) p = "a";
  return p;
}

static bool runCase(const Case &c, Ctx &ctx) {
  occa::json J[NREG];
  MNode M[NREG];
  auto reg = [&](const Op &o, size_t i) -> int { return (int) ((((i < o.a.size() ? o.a[i] : 0) % NREG) + NREG) % NREG); };
  auto A = [&](const Op &o, size_t i) -> ll { return i < o.a.size() ? o.a[i] : 0; };

  for (int r = 0; r < NREG; ++r) if (!checkReg(J[r], M[r], r, ctx)) return false;

  for (const Op &o : c) {
    const int r = reg(o, 0);
    std::string opPath;
    switch (o.k) {
    case ASSIGN: case ASSIGN_REG: {
      MNode v;
      size_t pfrom;
      if (o.k == ASSIGN) { v = mkValue(A(o, 1), A(o, 2)); pfrom = 3; }
      else {
        const int s = reg(o, 1);
        if (M[s].k == MNode::NONE) { ctx.cls("skipped-undefined-source"); continue; }   // none_ values are never stored
        if (countNodes(M[r]) + countNodes(M[s]) > MAX_NODES) { ctx.cls("skipped-size"); continue; }
        v = M[s]; pfrom = 2;
      }
      const std::string path = pathOf(o.a, pfrom);
      opPath = path;
      const occa::json jv = (o.k == ASSIGN) ? toJson(v) : occa::json(J[reg(o, 1)]);   // copy first: no aliasing
      MNode before = M[r];
      const bool accept = mAssign(M[r], splitPath(path), v);
      bool threw = false;
      try {
        // typed assignment operators for scalars, json assignment otherwise
        if (o.k == ASSIGN && v.k == MNode::INT) J[r][path.c_str()] = (int32_t) v.i;
        else if (o.k == ASSIGN && v.k == MNode::BOOL) J[r][path] = (bool) v.i;
        else if (o.k == ASSIGN && v.k == MNode::STR && (A(o, 2) & 8)) J[r][path] = v.s;
        else if (o.k == ASSIGN && v.k == MNode::STR) J[r][path.c_str()] = v.s.c_str();
        else J[r][path] = jv;
      } catch (occa::exception &e) { threw = true; }
      if (accept && threw)
        return ctx.fail("r" + std::to_string(r) + "[\"" + path + "\"] = " + showM(v) + " threw although every intermediate is an object or missing; value " + showM(before));
      if (!accept && !threw)
        return ctx.fail("r" + std::to_string(r) + "[\"" + path + "\"] = " + showM(v) + " did not throw although an intermediate is not an object; value before " + showM(before));
      if (!accept) { ctx.nontrivial = true; ctx.cls("write-rejected-non-object-intermediate"); }
      else ctx.cls(splitPath(path).size() > 1 ? "write-deep-path" : "write-top-key");
      break;
    }
    case SET: case SET_REG: {
      MNode v;
      size_t pfrom;
      if (o.k == SET) { v = mkValue(A(o, 1), A(o, 2)); pfrom = 3; }
      else {
        const int s = reg(o, 1);
        if (M[s].k == MNode::NONE) { ctx.cls("skipped-undefined-source"); continue; }
        if (countNodes(M[r]) + countNodes(M[s]) > MAX_NODES) { ctx.cls("skipped-size"); continue; }
        v = M[s]; pfrom = 2;
      }
      // literal key: a, b, c, or a key that contains '/', which set() must not split
      std::string key = pathOf(o.a, pfrom);
      if (splitPath(key).size() > 3) key = "a/b";
      ctx.cls(key.find('/') == std::string::npos ? "set-plain-key" : "set-slash-key");
      const occa::json jv = (o.k == SET) ? toJson(v) : occa::json(J[reg(o, 1)]);
      if (M[r].k == MNode::NONE) M[r].k = MNode::OBJ;
      M[r].obj[key] = v;
      if (o.k == SET && v.k == MNode::INT) J[r].set(key, (int32_t) v.i);
      else if (o.k == SET && v.k == MNode::STR) J[r].set(key.c_str(), v.s);
      else J[r].set(key, jv);
      break;
    }
    case REMOVE: {
      const std::string path = pathOf(o.a, 1);
      opPath = path;
      ctx.cls(mFind(M[r], splitPath(path)) ? "remove-present" : "remove-absent");
      mRemove(M[r], splitPath(path));
      if (o.a.size() & 1) J[r].remove(path.c_str()); else J[r].remove(path);
      break;
    }
    case MERGE_EQ: {
      const int s = reg(o, 1);
      if (countNodes(M[r]) + countNodes(M[s]) > MAX_NODES) { ctx.cls("skipped-size"); continue; }
      const occa::json rhs(J[s]);           // copy first
      mMerge(M[r], M[s], ctx);
      try { J[r] += rhs; } catch (occa::exception &e) { return ctx.fail(std::string("+= of two object/undefined values threw: ") + e.what()); }
      break;
    }
    case MERGE_PLUS: {
      const int s1 = reg(o, 1), s2 = reg(o, 2);
      if (countNodes(M[s1]) + countNodes(M[s2]) > MAX_NODES) { ctx.cls("skipped-size"); continue; }
      MNode t = M[s1];
      mMerge(t, M[s2], ctx);
      occa::json sum;
      try { sum = static_cast<const occa::json&>(J[s1]) + J[s2]; } catch (occa::exception &e) { return ctx.fail(std::string("+ of two object/undefined values threw: ") + e.what()); }
      M[r] = t;
      J[r] = sum;
      ctx.cls("merge-plus");
      break;
    }
    case RESET: J[r] = occa::json(); M[r] = MNode(); ctx.cls("reset"); break;
    case RESET_OBJ: J[r] = occa::json(occa::json::object_); M[r] = MNode(); M[r].k = MNode::OBJ; ctx.cls("reset-object"); break;
    default: continue;
    }
    // the target and the operands (which must be unchanged); every register again at the end of the history
    {
      bool touched[NREG] = {false, false, false};
      touched[r] = true;
      if (o.k == ASSIGN_REG || o.k == SET_REG || o.k == MERGE_EQ || o.k == MERGE_PLUS) touched[reg(o, 1)] = true;
      if (o.k == MERGE_PLUS) touched[reg(o, 2)] = true;
      for (int q = 0; q < NREG; ++q) if (touched[q] && !checkReg(J[q], M[q], q, ctx)) return false;
    }

    // reported only: does a bare non-const read on a *copy* change what dump() shows?
    if (!opPath.empty()) {
      for (int q = r; q == r; ++q) {
        occa::json cp(J[q]);
        const std::string before = cp.dump(0);
        try { (void) cp[opPath.c_str()]; } catch (occa::exception &e) { ctx.cls("nonconst-bare-read-throws"); continue; }
        ctx.cls(cp.dump(0) != before ? "nonconst-bare-read-changes-dump" : "nonconst-bare-read-no-change");
      }
    }
  }
  for (int q = 0; q < NREG; ++q) if (!checkReg(J[q], M[q], q, ctx)) return false;
  return true;
}

int main(int argc, char **argv) {
  auto reg = rng(0, NREG - 1);
  // paths: bias toward 'a' and 'b' so that histories revisit the same members
  auto comp = rc::gen::exec([]() -> ll { ll s = *rng(0, 9); return s < 5 ? 0 : s < 8 ? 1 : 2; });
  auto withPath = [=](int k, std::vector<rc::Gen<ll>> head, int minLen, int maxLen) {
    return rc::gen::exec([=]() {
      Op o; o.k = k;
      for (auto &g : head) o.a.push_back(*g);
      const int n = (int) *rng(minLen, maxLen);
      for (int i = 0; i < n; ++i) o.a.push_back(*comp);
      return o;
    });
  };
  auto vkind = rc::gen::exec([]() -> ll { ll s = *rng(0, 11); return s < 4 ? 0 : s < 5 ? 1 : s < 6 ? 2 : s < 8 ? 3 : s < 10 ? 4 : 5; });
  auto payload = rng(-3, 40);
  rc::Gen<Case> gen = rc::gen::container<Case>(rc::gen::weightedOneOf<Op>({
    {10, withPath(ASSIGN, {reg, vkind, payload}, 1, 3)},
    {4, withPath(ASSIGN_REG, {reg, reg}, 1, 3)},
    {3, withPath(SET, {reg, vkind, payload}, 1, 3)},
    {2, withPath(SET_REG, {reg, reg}, 1, 2)},
    {3, withPath(REMOVE, {reg}, 1, 3)},
    {6, mkOp(MERGE_EQ, {reg, reg})},
    {2, mkOp(MERGE_PLUS, {reg, reg, reg})},
    {1, mkOp(RESET, {reg})},
    {1, mkOp(RESET_OBJ, {reg})}}));
  return harnessMain(argc, argv, "C25 json paths and merge", gen, runCase, [](const Case &c) {
    std::ostringstream ss;
    auto A = [](const Op &o, size_t i) -> ll { return i < o.a.size() ? o.a[i] : 0; };
    auto R = [&](const Op &o, size_t i) { return "r" + std::to_string((((A(o, i) % NREG) + NREG) % NREG)); };
    for (const Op &o : c) {
      switch (o.k) {
      case ASSIGN: ss << R(o, 0) << "[\"" << pathOf(o.a, 3) << "\"]=" << showM(mkValue(A(o, 1), A(o, 2))) << "; "; break;
      case ASSIGN_REG: ss << R(o, 0) << "[\"" << pathOf(o.a, 2) << "\"]=copy(" << R(o, 1) << "); "; break;
      case SET: { std::string k = pathOf(o.a, 3); if (splitPath(k).size() > 3) k = "a/b"; ss << R(o, 0) << ".set(\"" << k << "\"," << showM(mkValue(A(o, 1), A(o, 2))) << "); "; break; }
      case SET_REG: { std::string k = pathOf(o.a, 2); if (splitPath(k).size() > 3) k = "a/b"; ss << R(o, 0) << ".set(\"" << k << "\",copy(" << R(o, 1) << ")); "; break; }
      case REMOVE: ss << R(o, 0) << ".remove(\"" << pathOf(o.a, 1) << "\"); "; break;
      case MERGE_EQ: ss << R(o, 0) << "+=" << R(o, 1) << "; "; break;
      case MERGE_PLUS: ss << R(o, 0) << "=" << R(o, 1) << "+" << R(o, 2) << "; "; break;
      case RESET: ss << R(o, 0) << "=json(); "; break;
      case RESET_OBJ: ss << R(o, 0) << "=json(object_); "; break;
      default: break;
      }
    }
    return ss.str();
  });
}
