// C01 — handles release each backend object exactly once, for any handle history.
// Reference model: objects with the set of handle slots that refer to them; compared after every
// step with isInitialized() of every slot, the guarded live-object counters and memoryAllocated().
#include "common.hpp"
#include <occa.hpp>
#include <occa/internal/utils/verif.hpp>
#include <occa/internal/core/memory.hpp>
#include <occa/internal/core/memoryPool.hpp>
#include <memory>

#ifdef __has_feature
#  if __has_feature(address_sanitizer)
extern "C" int __lsan_do_recoverable_leak_check();
#    define HAVE_LSAN 1
#  endif
#endif

using namespace vf;

enum Kind { KD = 0, KM, KP, KK, KS, NKIND };
static const char *KN[] = {"device", "memory", "memoryPool", "kernel", "stream"};
static const int NSLOT[NKIND] = {3, 6, 3, 4, 4};

enum { NEW = 0, COPY, COPYCTOR, SELF, DROP, ASSIGN_EMPTY, FREE, DONTUSEREFS, SWAP, SLICE, RESERVE, GETSTREAM, SETSTREAM };
static const char *OPN[] = {"new", "assign", "copy-construct", "self-assign", "destroy-handle", "assign-empty", "free()",
                            "dontUseRefs", "swap", "slice", "reserve", "getStream", "setStream"};

// ---- model ----------------------------------------------------------------------------------------
struct Obj {
  Kind kind; bool alive = true; bool useRefs = true;
  int dev = -1;          // owning device object
  int group = -1;        // memory: buffer group (malloc) ; -1 for pool reservations
  int pool = -1;         // memory: pool object
  ll bytes = 0;          // memory from malloc: bytes of the buffer group
  std::set<int> handles; // handle ids: kind*100+slot for user slots; 1000+n for keeper / internal handles
};
struct Model {
  std::vector<Obj> objs;
  std::map<int, int> bind;                 // handle id -> object id
  std::map<int, int> currentStream;        // device obj -> stream obj
  std::map<int, bool> poolHasBuffer;
  int nextInternal = 1000;

  int objOf(int h) const { auto it = bind.find(h); return it == bind.end() ? -1 : it->second; }
  int groupLive(int dev, int group) const {
    int n = 0;
    for (auto &o : objs) if (o.alive && o.kind == KM && o.dev == dev && o.group == group) ++n;
    return n;
  }
  void destroy(int id) {
    Obj &o = objs[id];
    if (!o.alive) return;
    o.alive = false;
    for (int h : o.handles) bind.erase(h);
    o.handles.clear();
    if (o.kind == KD) {
      for (size_t i = 0; i < objs.size(); ++i) if (objs[i].alive && objs[i].dev == id) destroy((int) i);
      currentStream.erase(id);
    } else if (o.kind == KP) {
      for (size_t i = 0; i < objs.size(); ++i) if (objs[i].alive && objs[i].kind == KM && objs[i].pool == id) destroy((int) i);
    }
  }
  void unbind(int h) {
    int id = objOf(h);
    if (id < 0) return;
    bind.erase(h);
    objs[id].handles.erase(h);
    if (objs[id].handles.empty() && objs[id].useRefs) destroy(id);
  }
  void bindTo(int h, int id) {
    if (objOf(h) == id) return;
    unbind(h);
    if (id >= 0 && objs[id].alive) { bind[h] = id; objs[id].handles.insert(h); }
  }
  int add(Kind k, int dev) { Obj o; o.kind = k; o.dev = dev; objs.push_back(o); return (int) objs.size() - 1; }
  long live(Kind k) const { long n = 0; for (auto &o : objs) if (o.alive && o.kind == k) ++n; return n; }
};

// ---- real handles ---------------------------------------------------------------------------------
struct World {
  std::unique_ptr<occa::device> d[3];
  std::unique_ptr<occa::memory> m[6];
  std::unique_ptr<occa::memoryPool> p[3];
  std::unique_ptr<occa::kernel> k[4];
  std::unique_ptr<occa::stream> s[4];
  // keeper handles for objects under dontUseRefs (model handle ids >= 1000)
  std::map<int, occa::device> kd; std::map<int, occa::memory> km; std::map<int, occa::memoryPool> kp;
  std::map<int, occa::kernel> kk; std::map<int, occa::stream> ks;
  World() {
    for (auto &x : d) x.reset(new occa::device());
    for (auto &x : m) x.reset(new occa::memory());
    for (auto &x : p) x.reset(new occa::memoryPool());
    for (auto &x : k) x.reset(new occa::kernel());
    for (auto &x : s) x.reset(new occa::stream());
  }
};

static const char *KSRC[2] = {
  "@kernel void k0(const int n, int *a) { for (int i = 0; i < n; ++i; @outer) { for (int j = 0; j < 1; ++j; @inner) { a[i] = i; } } }",
  "@kernel void k1(const int n, int *a) { for (int i = 0; i < n; ++i; @outer) { for (int j = 0; j < 2; ++j; @inner) { a[i] = j; } } }"};

static bool slotInit(World &w, Kind kd, int i) {
  switch (kd) {
  case KD: return w.d[i]->isInitialized();
  case KM: return w.m[i]->isInitialized();
  case KP: return w.p[i]->isInitialized();
  case KK: return w.k[i]->isInitialized();
  default: return w.s[i]->isInitialized();
  }
}

static long base[occa::verif::kKindCount];
static long liveNow(int k) { return occa::verif::live(k) - base[k]; }

static bool compare(World &w, Model &mod, Ctx &ctx, const std::string &after) {
  std::ostringstream why;
  for (int kd = 0; kd < NKIND; ++kd) for (int i = 0; i < NSLOT[kd]; ++i) {
    const bool mi = mod.objOf(kd * 100 + i) >= 0;
    if (slotInit(w, (Kind) kd, i) != mi) {
      why << "after " << after << ": " << KN[kd] << " handle " << i << " isInitialized()=" << slotInit(w, (Kind) kd, i) << " but the model says " << mi;
      return ctx.fail(why.str());
    }
  }
  long pools = mod.live(KP), poolBufs = 0, groups = 0;
  for (size_t i = 0; i < mod.objs.size(); ++i) if (mod.objs[i].alive && mod.objs[i].kind == KP && mod.poolHasBuffer[(int) i]) ++poolBufs;
  std::set<std::pair<int, int>> gs;
  for (auto &o : mod.objs) if (o.alive && o.kind == KM && o.group >= 0) gs.insert({o.dev, o.group});
  groups = (long) gs.size();
  struct { int hook; long model; const char *name; } exp[] = {
    {occa::verif::kDevice, mod.live(KD), "device"},
    {occa::verif::kMemory, mod.live(KM), "memory"},
    {occa::verif::kMemoryPool, pools, "memoryPool"},
    {occa::verif::kBuffer, groups + pools + poolBufs, "buffer"},
    {occa::verif::kKernel, mod.live(KK), "kernel"},
    {occa::verif::kStream, mod.live(KS), "stream"},
  };
  for (auto &e : exp) if (liveNow(e.hook) != e.model) {
    why << "after " << after << ": " << liveNow(e.hook) << " live backend " << e.name << " objects but the model expects " << e.model
        << (liveNow(e.hook) > e.model ? " (object not destroyed / leaked)" : " (object destroyed early or twice)");
    return ctx.fail(why.str());
  }
  // accounted memory per live device that still has a user handle
  for (int i = 0; i < NSLOT[KD]; ++i) {
    int dv = mod.objOf(KD * 100 + i);
    if (dv < 0) continue;
    ll expB = 0;
    std::set<int> seen;
    for (auto &o : mod.objs) if (o.alive && o.kind == KM && o.dev == dv && o.group >= 0 && seen.insert(o.group).second) expB += o.bytes;
    for (size_t q = 0; q < mod.objs.size(); ++q) if (mod.objs[q].alive && mod.objs[q].kind == KP && mod.objs[q].dev == dv) {
      // pool buffer size is observed through any handle of the pool
      for (int h : mod.objs[q].handles) {
        if (h >= 1000) { expB += (ll) w.kp[h].size(); break; }
        if (h / 100 == KP) { expB += (ll) w.p[h % 100]->size(); break; }
      }
    }
    if ((ll) w.d[i]->memoryAllocated() != expB) {
      why << "after " << after << ": device handle " << i << " memoryAllocated()=" << w.d[i]->memoryAllocated() << " but live allocations sum to " << expB;
      return ctx.fail(why.str());
    }
  }
  return true;
}

static bool runCase(const Case &c, Ctx &ctx) {
  for (int k = 0; k < occa::verif::kKindCount; ++k) base[k] = occa::verif::live(k);
  bool sharedFreeSeen = false, swapSeen = false;
  {
    World w;
    Model mod;
    int nextGroup = 0;

    auto keeper = [&](int id) {   // dontUseRefs: harness keeps one more handle so the object can be freed explicitly
      const int h = mod.nextInternal++;
      Obj &o = mod.objs[id];
      const int any = *o.handles.begin();
      switch (o.kind) {
      case KD: w.kd[h] = (any >= 1000) ? w.kd[any] : *w.d[any % 100]; break;
      case KM: w.km[h] = (any >= 1000) ? w.km[any] : *w.m[any % 100]; break;
      case KP: w.kp[h] = (any >= 1000) ? w.kp[any] : *w.p[any % 100]; break;
      case KK: w.kk[h] = (any >= 1000) ? w.kk[any] : *w.k[any % 100]; break;
      default: w.ks[h] = (any >= 1000) ? w.ks[any] : *w.s[any % 100]; break;
      }
      mod.bindTo(h, id);
    };

    for (size_t step = 0; step < c.size(); ++step) {
      const Op &o = c[step];
      auto A = [&](size_t i) -> ll { return i < o.a.size() ? o.a[i] : 0; };
      const Kind kd = (Kind) (A(0) % NKIND);
      const int a = (int) (A(1) % NSLOT[kd]), b = (int) (A(2) % NSLOT[kd]);
      const int ha = kd * 100 + a, hb = kd * 100 + b;
      std::ostringstream label;
      label << "step " << step << " " << KN[kd] << "." << OPN[o.k] << "(" << a << "," << b << ")";
      bool threw = false, expectThrow = false;
      try {
        switch (o.k) {
        case NEW: {
          const int ds = (int) (A(3) % NSLOT[KD]);
          const int dv = mod.objOf(KD * 100 + ds);
          if (kd == KD) {
            *w.d[a] = occa::device(std::string((A(4) & 1) ? "{mode: 'OpenMP'}" : "{mode: 'Serial'}"));
            mod.unbind(ha);
            int id = mod.add(KD, -1);
            mod.bindTo(ha, id);
            int st = mod.add(KS, id);                 // the device's initial stream, held by the device itself
            mod.bindTo(mod.nextInternal++, st);
            mod.currentStream[id] = st;
            break;
          }
          if (dv < 0) { expectThrow = true; }
          if (kd == KM) {
            const ll n = 1 + A(4) % 64;
            occa::memory r = w.d[ds]->malloc<int>(n);
            *w.m[a] = r;
            mod.unbind(ha);
            int id = mod.add(KM, dv); mod.objs[id].group = nextGroup++; mod.objs[id].bytes = 4 * n;
            mod.bindTo(ha, id);
          } else if (kd == KP) {
            occa::memoryPool r = w.d[ds]->createMemoryPool();
            *w.p[a] = r;
            mod.unbind(ha);
            int id = mod.add(KP, dv); mod.poolHasBuffer[id] = false;
            mod.bindTo(ha, id);
          } else if (kd == KK) {
            const int which = (int) (A(4) & 1);
            occa::kernel r = w.d[ds]->buildKernelFromString(KSRC[which], which ? "k1" : "k0", occa::json::parse("{compiler_flags: '-O0'}"));
            *w.k[a] = r;
            mod.unbind(ha);
            int id = mod.add(KK, dv);
            mod.bindTo(ha, id);
          } else {
            occa::stream r = w.d[ds]->createStream();
            *w.s[a] = r;
            mod.unbind(ha);
            int id = mod.add(KS, dv);
            mod.bindTo(ha, id);
          }
          break;
        }
        case COPY: case COPYCTOR: {
          switch (kd) {
          case KD: if (o.k == COPY) *w.d[a] = *w.d[b]; else { occa::device t(*w.d[b]); *w.d[a] = t; } break;
          case KM: if (o.k == COPY) *w.m[a] = *w.m[b]; else { occa::memory t(*w.m[b]); *w.m[a] = t; } break;
          case KP: if (o.k == COPY) *w.p[a] = *w.p[b]; else { occa::memoryPool t(*w.p[b]); *w.p[a] = t; } break;
          case KK: if (o.k == COPY) *w.k[a] = *w.k[b]; else { occa::kernel t(*w.k[b]); *w.k[a] = t; } break;
          default: if (o.k == COPY) *w.s[a] = *w.s[b]; else { occa::stream t(*w.s[b]); *w.s[a] = t; } break;
          }
          mod.bindTo(ha, mod.objOf(hb));
          if (mod.objOf(hb) < 0) mod.unbind(ha);
          break;
        }
        case SELF: {
          switch (kd) {
          case KD: { occa::device &x = *w.d[a]; x = x; break; }
          case KM: { occa::memory &x = *w.m[a]; x = x; break; }
          case KP: { occa::memoryPool &x = *w.p[a]; x = x; break; }
          case KK: { occa::kernel &x = *w.k[a]; x = x; break; }
          default: { occa::stream &x = *w.s[a]; x = x; break; }
          }
          break;
        }
        case DROP: case ASSIGN_EMPTY: {
          // destroying a stream that is its device's current stream is fine: the device keeps its own handle
          switch (kd) {
          case KD: if (o.k == DROP) w.d[a].reset(new occa::device()); else *w.d[a] = occa::device(); break;
          case KM: if (o.k == DROP) w.m[a].reset(new occa::memory()); else *w.m[a] = occa::memory(); break;
          case KP: if (o.k == DROP) w.p[a].reset(new occa::memoryPool()); else *w.p[a] = occa::memoryPool(); break;
          case KK: if (o.k == DROP) w.k[a].reset(new occa::kernel()); else *w.k[a] = occa::kernel(); break;
          default: if (o.k == DROP) w.s[a].reset(new occa::stream()); else *w.s[a] = occa::stream(); break;
          }
          mod.unbind(ha);
          break;
        }
        case FREE: {
          const int id = mod.objOf(ha);
          if (kd == KS && id >= 0) {
            // freeing the stream a device currently uses leaves that device without a stream: not generated
            bool isCurrent = false;
            for (auto &cs : mod.currentStream) if (cs.second == id) isCurrent = true;
            if (isCurrent) continue;
          }
          if (id >= 0 && mod.objs[id].handles.size() >= 2) sharedFreeSeen = true;
          switch (kd) {
          case KD: w.d[a]->free(); break;
          case KM: w.m[a]->free(); break;
          case KP: w.p[a]->free(); break;
          case KK: w.k[a]->free(); break;
          default: w.s[a]->free(); break;
          }
          if (id >= 0) mod.destroy(id);
          break;
        }
        case DONTUSEREFS: {
          const int id = mod.objOf(ha);
          if (id < 0) continue;
          switch (kd) {
          case KD: w.d[a]->dontUseRefs(); break;
          case KM: w.m[a]->dontUseRefs(); break;
          case KP: w.p[a]->dontUseRefs(); break;
          case KK: w.k[a]->dontUseRefs(); break;
          default: w.s[a]->dontUseRefs(); break;
          }
          if (mod.objs[id].useRefs) { mod.objs[id].useRefs = false; keeper(id); }
          ctx.cls("dontUseRefs");
          break;
        }
        case SWAP: {
          if (kd != KM && kd != KP) continue;
          if (kd == KM) w.m[a]->swap(*w.m[b]); else w.p[a]->swap(*w.p[b]);
          const int ia = mod.objOf(ha), ib = mod.objOf(hb);
          if (a != b) {
            // exchange the bindings without dropping either object in between
            if (ia >= 0) { mod.objs[ia].handles.erase(ha); mod.bind.erase(ha); }
            if (ib >= 0) { mod.objs[ib].handles.erase(hb); mod.bind.erase(hb); }
            if (ib >= 0) { mod.bind[ha] = ib; mod.objs[ib].handles.insert(ha); }
            if (ia >= 0) { mod.bind[hb] = ia; mod.objs[ia].handles.insert(hb); }
          }
          if (ia != ib) swapSeen = true;
          break;
        }
        case SLICE: {
          const int ms = (int) (A(2) % NSLOT[KM]), md = (int) (A(1) % NSLOT[KM]);
          const int src = mod.objOf(KM * 100 + ms);
          occa::memory r = w.m[ms]->slice(0, 1);
          *w.m[md] = r;
          mod.unbind(KM * 100 + md);
          if (src >= 0) {
            const int srcNow = mod.objOf(KM * 100 + ms);   // md == ms: the source may just have lost its last handle
            (void) srcNow;
            int id = mod.add(KM, mod.objs[src].dev);
            mod.objs[id].group = mod.objs[src].group; mod.objs[id].pool = mod.objs[src].pool; mod.objs[id].bytes = mod.objs[src].bytes;
            mod.bindTo(KM * 100 + md, id);
          }
          ctx.cls("slice");
          break;
        }
        case RESERVE: {
          const int ps = (int) (A(2) % NSLOT[KP]), md = (int) (A(1) % NSLOT[KM]);
          const int pl = mod.objOf(KP * 100 + ps);
          if (pl < 0) expectThrow = true;
          occa::memory r = w.p[ps]->reserve<int>(1 + A(3) % 40);
          *w.m[md] = r;
          mod.unbind(KM * 100 + md);
          int id = mod.add(KM, mod.objs[pl].dev); mod.objs[id].pool = pl;
          mod.poolHasBuffer[pl] = true;
          mod.bindTo(KM * 100 + md, id);
          ctx.cls("pool-reserve");
          break;
        }
        case GETSTREAM: {
          const int ds = (int) (A(2) % NSLOT[KD]), sd = (int) (A(1) % NSLOT[KS]);
          const int dv = mod.objOf(KD * 100 + ds);
          if (dv < 0) expectThrow = true;
          occa::stream r = w.d[ds]->getStream();
          *w.s[sd] = r;
          mod.bindTo(KS * 100 + sd, mod.currentStream[dv]);
          break;
        }
        case SETSTREAM: {
          const int ds = (int) (A(2) % NSLOT[KD]), ss = (int) (A(1) % NSLOT[KS]);
          const int dv = mod.objOf(KD * 100 + ds), st = mod.objOf(KS * 100 + ss);
          if (dv < 0) expectThrow = true;
          else if (st < 0 || mod.objs[st].dev != dv) continue;   // a device is only given its own live streams
          w.d[ds]->setStream(*w.s[ss]);
          // the device's internal handle moves from the old current stream to the new one
          const int old = mod.currentStream[dv];
          int hInt = -1;
          for (int h : mod.objs[old].handles) if (h >= 1000 && !w.ks.count(h)) hInt = h;
          if (old != st) {
            const int hNew = mod.nextInternal++;
            mod.bind[hNew] = st; mod.objs[st].handles.insert(hNew);
            if (hInt >= 0) mod.unbind(hInt);
            mod.currentStream[dv] = st;
          }
          ctx.cls("setStream");
          break;
        }
        default: continue;
        }
      } catch (occa::exception &e) {
        threw = true;
        if (!expectThrow) return ctx.fail("after " + label.str() + ": unexpected occa::exception: " + std::string(e.what()).substr(0, 200));
      }
      if (expectThrow && !threw) return ctx.fail("after " + label.str() + ": use of an uninitialized/freed handle did not raise");
      if (!compare(w, mod, ctx, label.str())) return false;
    }

    // ---- end of history: free objects held under dontUseRefs explicitly, then drop every handle ----
    for (auto &x : w.kk) x.second.free();
    for (auto &x : w.ks) {
      bool isCurrent = false;
      int id = mod.objOf(x.first);
      for (auto &cs : mod.currentStream) if (cs.second == id) isCurrent = true;
      if (!isCurrent) x.second.free();
    }
    for (auto &x : w.km) x.second.free();
    for (auto &x : w.kp) x.second.free();
    for (auto &x : w.kd) x.second.free();
  }
  // all handles are gone now
  std::ostringstream why;
  static const char *HN[] = {"device", "buffer", "memory", "memoryPool", "kernel", "stream", "streamTag"};
  for (int k = 0; k < occa::verif::kKindCount; ++k) if (liveNow(k) != 0) {
    why << "after dropping every handle " << liveNow(k) << " backend " << HN[k] << " object(s) are still alive (leak) or were destroyed twice";
    return ctx.fail(why.str());
  }
  // (LeakSanitizer is not part of this oracle: every JIT-built kernel binary that is dlopen'ed leaves a few bytes allocated by
  //  its own static initialisers, which LSan attributes to an unknown module; leaked *backend objects* are what the counters see)
  if (sharedFreeSeen || swapSeen) { ctx.nontrivial = true; }
  if (sharedFreeSeen) ctx.cls("free-with>=2-handles");
  if (swapSeen) ctx.cls("swap");
  return true;
}

int main(int argc, char **argv) {
  auto kind = rc::gen::exec([]() { ll r = *rng(0, 19); return r < 3 ? (ll) KD : r < 10 ? (ll) KM : r < 13 ? (ll) KP : r < 16 ? (ll) KK : (ll) KS; });
  auto slot = rng(0, 11);
  auto raw = rng(0, 1000);
  rc::Gen<Case> body = caseOf({
    {10, mkOp(NEW, {kind, slot, slot, rc::gen::exec([]() { ll r = *rng(0, 9); return r < 7 ? (ll) 0 : r - 6; }), raw})},
    {8, mkOp(COPY, {kind, slot, slot})},
    {4, mkOp(COPYCTOR, {kind, slot, slot})},
    {2, mkOp(SELF, {kind, slot, slot})},
    {5, mkOp(DROP, {kind, slot, slot})},
    {2, mkOp(ASSIGN_EMPTY, {kind, slot, slot})},
    {5, mkOp(FREE, {kind, slot, slot})},
    {1, mkOp(DONTUSEREFS, {kind, slot, slot})},
    {4, mkOp(SWAP, {rc::gen::exec([]() { return *rng(0, 3) ? (ll) KM : (ll) KP; }), slot, slot})},
    {4, mkOp(SLICE, {rc::gen::just((ll) KM), slot, slot})},
    {4, mkOp(RESERVE, {rc::gen::just((ll) KM), slot, slot, raw})},
    {2, mkOp(GETSTREAM, {rc::gen::just((ll) KS), slot, slot})},
    {2, mkOp(SETSTREAM, {rc::gen::just((ll) KS), slot, slot})},
  });
  // every history starts with a device in slot 0 so that most operations have something to act on
  rc::Gen<Case> gen = rc::gen::map(body, [](Case c) {
    Op o; o.k = NEW; o.a = {KD, 0, 0, 0, 0};
    c.insert(c.begin(), o);
    return c;
  });
  return harnessMain(argc, argv, "C01 handles", gen, runCase, [](const Case &c) {
    std::ostringstream ss;
    for (const Op &o : c) {
      const int kd = (int) (o.a.size() ? o.a[0] % NKIND : 0);
      ss << KN[kd] << "." << (o.k <= SETSTREAM ? OPN[o.k] : "?") << "(";
      for (size_t i = 1; i < o.a.size(); ++i) ss << (i > 1 ? "," : "") << o.a[i];
      ss << ") ";
    }
    return ss.str();
  });
}
