// C30 — with sharable devices (ENABLE_SHARABLE_DEVICE=ON) concurrent handle use is race-free.
//
// A case is a set of per-thread scripts organised in rounds.  The main thread creates one device and
// the shared objects (memory, kernel, stream, memory pool), gives every thread its own *base* handle
// to each of them and then drops its own handles, so that the reference rings only contain handles
// owned by the worker threads (the ring head moves between threads).  In every round every thread runs
// its ops; two barriers between rounds line the threads up and give thread 0 a quiescent point at which
// the live-object counters and memoryAllocated() are compared with the sequential model (every script
// is order-independent in its effect: a thread only destroys what it created).
//
// Oracle 1: ThreadSanitizer reports nothing during the case.  The reports are read from the TSan log
//           (one file per process), normalised to  <kind> @ <top occa:: frame of access 1> | <... 2>
//           (template arguments removed); known findings are matched by exactly that identity.
// Oracle 2: counters / memoryAllocated() == model at every round end and at the end; kernels that
//           were run produced their values; no occa::exception; no crash.
#include "common.hpp"
#include <occa.hpp>
#include <occa/internal/utils/verif.hpp>

#include <pthread.h>
#include <unistd.h>
#include <memory>
#include <thread>

extern "C" void __sanitizer_set_report_path(const char *path);

// Defaults; TSAN_OPTIONS in the environment still overrides them.
extern "C" const char *__tsan_default_options() {
  return "halt_on_error=0:exitcode=0:history_size=7:report_thread_leaks=0:report_signal_unsafe=0:"
         "second_deadlock_stack=1:external_symbolizer_path=/usr/bin/llvm-symbolizer-14";
}

using namespace vf;

// ---- op kinds -------------------------------------------------------------------------------------
enum { HDR = 0, COPY, HOLD, DROP, ROTATE, GETDEV, MALLOC, FREE, SLICE, SLICEDROP, POOLRES, POOLREL, POOLFREE,
       BUILD, KDROP, RUN, STREAM, STREAMDROP, TAG, NOPKIND };
static const char *OPN[] = {"hdr", "copy", "hold", "drop", "rotate", "getDevice", "malloc", "free", "slice", "sliceDrop",
                            "poolReserve", "poolRelease", "poolFree", "build", "kernelDrop", "run", "createStream",
                            "streamDrop", "tagStream"};
enum { OMEM = 0, OKERN, OSTREAM, ODEV, OPOOL, NOBJ };
static const char *OBJN[] = {"memory", "kernel", "stream", "device", "memoryPool"};

static const int MAXT = 16, MAXR = 8, NHOLD = 3, NMEM = 3, NSLC = 3, NRES = 3, NKERN = 2, NSTRM = 2;

static const char *KSRC[2] = {
  "@kernel void ka(const int n, int *a) { for (int i = 0; i < n; ++i; @outer) { for (int j = 0; j < 1; ++j; @inner) { a[i] = 3 * i + 1; } } }",
  "@kernel void kb(const int n, int *a) { for (int i = 0; i < n; ++i; @outer) { for (int j = 0; j < 1; ++j; @inner) { a[i] = 5 * i + 2; } } }"};
static const char *KNAME[2] = {"ka", "kb"};
static int kval(int which, int i) { return which ? 5 * i + 2 : 3 * i + 1; }

// ---- TSan log -------------------------------------------------------------------------------------
static std::string g_logFile;
static size_t g_logOff = 0;

static std::string readNewLog() {
  if (g_logFile.empty()) return "";
  std::ifstream f(g_logFile, std::ios::binary);
  if (!f) return "";
  f.seekg(0, std::ios::end);
  const size_t sz = (size_t) f.tellg();
  if (sz <= g_logOff) return "";
  f.seekg((std::streamoff) g_logOff);
  std::string s(sz - g_logOff, '\0');
  f.read(&s[0], (std::streamsize) s.size());
  g_logOff = sz;
  return s;
}

struct Report { std::string kind, id, text; std::vector<std::string> tops; };

// "#0 occa::gc::ring_t<occa::memory>::removeRef(occa::memory*, bool) /p/gc.tpp:80:14 (libocca.so+0x1)" -> occa::gc::ring_t::removeRef
// "#1 occa::dtype_t const*& std::vector<occa::dtype_t const*>::emplace_back<occa::dtype_t const*>(...) ..." -> std::vector::emplace_back
static std::string frameFunction(const std::string &line) {
  size_t p = line.find('#');
  if (p == std::string::npos) return "";
  p = line.find(' ', p);
  if (p == std::string::npos) return "";
  ++p;
  // 1. drop template arguments (operator< / operator<< / operator-> are not brackets)
  std::string src = line.substr(p), flat;
  for (size_t a; (a = src.find("(anonymous namespace)")) != std::string::npos; ) src.replace(a, 21, "{anonymous}");
  int depth = 0;
  for (p = 0; p < src.size(); ++p) {
    const char c = src[p];
    const bool afterOperator = flat.size() >= 8 && (flat.compare(flat.size() - 8, 8, "operator") == 0 ||
                                                    (flat.size() >= 9 && flat.compare(flat.size() - 9, 9, "operator<") == 0) ||
                                                    (flat.size() >= 9 && flat.compare(flat.size() - 9, 9, "operator-") == 0));
    if (c == '<' && !afterOperator) { ++depth; continue; }
    if (c == '>' && depth > 0) { --depth; continue; }
    if (depth > 0) continue;
    flat += c;
  }
  // 2. the function name ends at the first '(' that opens the parameter list
  size_t q = 0;
  for (;;) {
    q = flat.find('(', q);
    if (q == std::string::npos) { q = flat.find(' '); break; }
    if (q >= 8 && flat.compare(q - 8, 8, "operator") == 0) { q += 2; continue; }   // operator()
    if (q == 0 || flat[q - 1] == ' ' || flat[q - 1] == ':') { ++q; continue; }       // "(anonymous namespace)::"
    break;
  }
  std::string head = q == std::string::npos ? flat : flat.substr(0, q);
  // 3. a return type may precede the name (the symbolizer prints it for function templates)
  size_t sp = head.rfind(' ');
  while (sp != std::string::npos && sp >= 8 && head.compare(sp - 8, 8, "operator") == 0 && sp > 8) sp = head.rfind(' ', sp - 1);
  if (sp != std::string::npos && head.compare(0, std::min<size_t>(head.size(), 8), "operator") != 0) {
    const std::string last = head.substr(sp + 1);
    if (!last.empty()) head = last;
  }
  return head;
}

static std::vector<Report> parseReports(const std::string &txt) {
  std::vector<Report> out;
  std::istringstream in(txt);
  std::string line;
  bool inRep = false;
  Report cur;
  std::vector<std::vector<std::string>> stacks;   // frames of the access stacks
  bool curIsAccess = false;
  auto flush = [&]() {
    std::set<std::string> tops;
    for (auto &st : stacks) {
      std::string top;
      for (auto &fn : st) if (fn.compare(0, 6, "occa::") == 0 && fn.compare(0, 15, "occa::mutex_t::") != 0) { top = fn; break; }
      if (top.empty()) top = st.empty() ? "?" : "!" + st[0];
      tops.insert(top);
    }
    cur.tops.assign(tops.begin(), tops.end());
    cur.id = cur.kind + " @";
    for (size_t i = 0; i < cur.tops.size(); ++i) cur.id += (i ? " | " : " ") + cur.tops[i];
    out.push_back(cur);
  };
  while (std::getline(in, line)) {
    if (line.compare(0, 26, "WARNING: ThreadSanitizer: ") == 0) {
      inRep = true;
      cur = Report();
      stacks.clear();
      cur.kind = line.substr(26);
      size_t q = cur.kind.find(" (pid=");
      if (q != std::string::npos) cur.kind = cur.kind.substr(0, q);
      cur.text = line + "\n";
      stacks.push_back({});          // reports about a mutex start with a stack without a header
      curIsAccess = true;
      continue;
    }
    if (!inRep) continue;
    cur.text += line + "\n";
    if (line.compare(0, 9, "SUMMARY: ") == 0) {
      if (!stacks.empty() && stacks[0].empty() && stacks.size() > 1) stacks.erase(stacks.begin());
      flush();
      inRep = false;
      continue;
    }
    if (line.size() > 2 && line[0] == ' ' && line[1] == ' ' && line[2] != ' ') {
      // section header
      const std::string h = line.substr(2);
      const bool meta = h.compare(0, 11, "Location is") == 0 || h.compare(0, 8, "Thread T") == 0 ||
                        (h.compare(0, 7, "Mutex M") == 0 && h.find("created at") != std::string::npos) ||
                        h.compare(0, 18, "As if synchronized") == 0 || h.compare(0, 5, "Cycle") == 0;
      curIsAccess = !meta;
      if (curIsAccess) {
        stacks.push_back({});
        if (h.find("failed to restore the stack") != std::string::npos) { /* stays empty => "?" */ }
      }
      continue;
    }
    size_t p = line.find_first_not_of(' ');
    if (p != std::string::npos && line[p] == '#' && curIsAccess && !stacks.empty()) {
      stacks.back().push_back(frameFunction(line));
    } else if (p != std::string::npos && line.find("[failed to restore the stack]") != std::string::npos) {
      /* leaves the stack empty */
    }
  }
  return out;
}

// ---- known findings: exact identities --------------------------------------------------------------
struct KnownRace { const char *slug, *kind, *a, *b; };
static const KnownRace KNOWN_RACES[] = {
  // handle::remove*Ref(): removeRef() under the ring mutex, then needsFree() reads ring.head outside it
  {"ring-check-then-delete", "data race", "occa::gc::ring_t::needsFree", "occa::gc::ring_t::removeRef"},
};

// returns slug or "" ; oneSide is set when only one stack was available and it is one side of the pair
static std::string matchKnown(const Report &r) {
  for (const KnownRace &k : KNOWN_RACES) {
    if (r.kind != k.kind) continue;
    std::set<std::string> want = {k.a, k.b};
    std::set<std::string> got(r.tops.begin(), r.tops.end());
    if (got == want) return k.slug;
    // the second stack could not be restored by TSan: accept when the stack we have is one side of the pair
    if (got.count("?") && got.size() == 2) {
      got.erase("?");
      if (want.count(*got.begin())) return k.slug;
    }
  }
  return "";
}

// ---- per-thread state -----------------------------------------------------------------------------
struct Buf { ll bytes = 0; int nmem = 0; };

struct TS {
  // base handles (bdev first: destroyed last)
  occa::device bdev;
  occa::memoryPool bpool;
  occa::stream bstream;
  occa::kernel bkern;
  occa::memory bmem;
  // held copies of the shared objects
  occa::device hdev[NHOLD]; occa::memoryPool hpool[NHOLD]; occa::stream hstream[NHOLD]; occa::kernel hkern[NHOLD]; occa::memory hmem[NHOLD];
  // private objects on the shared device
  occa::memory mem[NMEM]; ll memEntries[NMEM]; int memBuf[NMEM];
  occa::memory slc[NSLC]; int slcBuf[NSLC];      // -1 empty, -2 slice of the shared memory
  occa::memoryPool pool; bool poolAlive = false, poolHasBuf = false;
  occa::memory res[NRES]; ll resEntries[NRES];
  occa::kernel kern[NKERN]; int kernWhich[NKERN];
  occa::stream strm[NSTRM];
  // model of what this thread keeps alive
  std::map<int, Buf> bufs; int nextBuf = 0;
  long mMemory = 0, mKernel = 0, mStream = 0, mPool = 0;
  ll poolSize = 0;
  std::string fail;
  ll seedEntries = 0;
  bool openmp = false;

  TS() {
    for (int i = 0; i < NMEM; ++i) { memEntries[i] = 0; memBuf[i] = -1; }
    for (int i = 0; i < NSLC; ++i) slcBuf[i] = -1;
    for (int i = 0; i < NRES; ++i) resEntries[i] = 0;
    for (int i = 0; i < NKERN; ++i) kernWhich[i] = -1;
  }
  void bad(const std::string &w) { if (fail.empty()) fail = w; }

  void unrefBuf(int id) {
    if (id < 0) return;
    auto it = bufs.find(id);
    if (it != bufs.end() && --it->second.nmem == 0) bufs.erase(it);
  }
  void dropMem(int i, bool explicitFree) {
    if (memBuf[i] < 0) return;
    if (explicitFree) mem[i].free(); else mem[i] = occa::memory();
    --mMemory; unrefBuf(memBuf[i]); memBuf[i] = -1; memEntries[i] = 0;
  }
  void dropSlice(int i) {
    if (slcBuf[i] == -1) return;
    slc[i] = occa::memory();
    --mMemory; unrefBuf(slcBuf[i]); slcBuf[i] = -1;
  }
  void dropRes(int i) {
    if (!resEntries[i]) return;
    res[i] = occa::memory();
    --mMemory; resEntries[i] = 0;
  }
  void dropPool() {
    for (int i = 0; i < NRES; ++i) dropRes(i);
    if (!poolAlive) return;
    pool = occa::memoryPool();
    poolAlive = false; poolHasBuf = false; --mPool; poolSize = 0;
  }
  void dropKern(int i) {
    if (kernWhich[i] < 0) return;
    kern[i] = occa::kernel();
    kernWhich[i] = -1; --mKernel;
  }
  void dropStream(int i) {
    if (!strm[i].isInitialized()) return;
    strm[i] = occa::stream();
    --mStream;
  }
  void dropHeld() {
    for (int i = 0; i < NHOLD; ++i) {
      hmem[i] = occa::memory(); hkern[i] = occa::kernel(); hstream[i] = occa::stream();
      hpool[i] = occa::memoryPool(); hdev[i] = occa::device();
    }
  }
  void dropPrivate() {
    for (int i = 0; i < NKERN; ++i) dropKern(i);
    for (int i = 0; i < NSLC; ++i) dropSlice(i);
    for (int i = 0; i < NMEM; ++i) dropMem(i, false);
    dropPool();
    for (int i = 0; i < NSTRM; ++i) dropStream(i);
    dropHeld();
  }
};

template <class H>
static void copyDestroy(H &base, int n, int style) {
  if (style == 1) {
    for (int i = 0; i < n; ++i) { H t(base); H u; u = t; }
    return;
  }
  std::vector<std::unique_ptr<H>> v;
  for (int i = 0; i < n; ++i) v.emplace_back(new H(base));
  if (style == 0) { while (!v.empty()) v.pop_back(); }
  else { for (auto &p : v) p.reset(); }
}
template <class H>
static void rotate(H &base) { H t(base); base = H(); base = t; }

static void execOp(TS &s, const Op &o) {
  auto A = [&](size_t i) -> ll { return i + 2 < o.a.size() ? o.a[i + 2] : 0; };
  switch (o.k) {
  case COPY: {
    const int obj = (int) (A(0) % NOBJ), n = (int) (1 + A(1) % 16), st = (int) (A(2) % 3);
    switch (obj) {
    case OMEM: copyDestroy(s.bmem, n, st); break;
    case OKERN: copyDestroy(s.bkern, n, st); break;
    case OSTREAM: copyDestroy(s.bstream, n, st); break;
    case ODEV: copyDestroy(s.bdev, n, st); break;
    default: copyDestroy(s.bpool, n, st); break;
    }
    break;
  }
  case HOLD: case DROP: {
    const int obj = (int) (A(0) % NOBJ), i = (int) (A(1) % NHOLD);
    const bool h = o.k == HOLD;
    switch (obj) {
    case OMEM: s.hmem[i] = h ? s.bmem : occa::memory(); break;
    case OKERN: s.hkern[i] = h ? s.bkern : occa::kernel(); break;
    case OSTREAM: s.hstream[i] = h ? s.bstream : occa::stream(); break;
    case ODEV: s.hdev[i] = h ? s.bdev : occa::device(); break;
    default: s.hpool[i] = h ? s.bpool : occa::memoryPool(); break;
    }
    break;
  }
  case ROTATE: {
    switch ((int) (A(0) % NOBJ)) {
    case OMEM: rotate(s.bmem); break;
    case OKERN: rotate(s.bkern); break;
    case OSTREAM: rotate(s.bstream); break;
    case ODEV: rotate(s.bdev); break;
    default: rotate(s.bpool); break;
    }
    break;
  }
  case GETDEV: {
    const int n = (int) (1 + A(1) % 4);
    for (int i = 0; i < n; ++i) {
      switch ((int) (A(0) % NOBJ)) {
      case OMEM: { occa::device d = s.bmem.getDevice(); if (d != s.bdev) s.bad("memory.getDevice() is not the shared device"); break; }
      case OKERN: { occa::device d = s.bkern.getDevice(); if (d != s.bdev) s.bad("kernel.getDevice() is not the shared device"); break; }
      case OSTREAM: { occa::device d = s.bstream.getDevice(); if (d != s.bdev) s.bad("stream.getDevice() is not the shared device"); break; }
      case ODEV: { occa::stream st = s.bdev.getStream(); if (!st.isInitialized()) s.bad("device.getStream() is uninitialized"); break; }
      default: { occa::device d = s.bpool.getDevice(); if (d != s.bdev) s.bad("memoryPool.getDevice() is not the shared device"); break; }
      }
    }
    break;
  }
  case MALLOC: {
    const int i = (int) (A(0) % NMEM); const ll n = 1 + A(1) % 96;
    s.dropMem(i, false);
    s.mem[i] = s.bdev.malloc<int>(n);
    const int id = s.nextBuf++;
    s.bufs[id].bytes = 4 * n; s.bufs[id].nmem = 1;
    s.memBuf[i] = id; s.memEntries[i] = n; ++s.mMemory;
    break;
  }
  case FREE: s.dropMem((int) (A(0) % NMEM), (A(1) & 1) != 0); break;
  case SLICE: {
    const int i = (int) (A(0) % NSLC), src = (int) (A(1) % (NMEM + 1));
    s.dropSlice(i);
    const bool priv = src > 0 && s.memBuf[src - 1] >= 0;
    const ll entries = priv ? s.memEntries[src - 1] : s.seedEntries;
    const ll off = A(2) % entries, cnt = 1 + A(3) % (entries - off);
    s.slc[i] = (priv ? s.mem[src - 1] : s.bmem).slice(off, cnt);
    if ((ll) s.slc[i].length() != cnt) s.bad("slice has the wrong length");
    s.slcBuf[i] = priv ? s.memBuf[src - 1] : -2;
    if (priv) ++s.bufs[s.memBuf[src - 1]].nmem;
    ++s.mMemory;
    break;
  }
  case SLICEDROP: s.dropSlice((int) (A(0) % NSLC)); break;
  case POOLRES: {
    const int i = (int) (A(0) % NRES); const ll n = 1 + A(1) % 64;
    if (!s.poolAlive) { s.pool = s.bdev.createMemoryPool(); s.poolAlive = true; ++s.mPool; }
    s.dropRes(i);
    s.res[i] = s.pool.reserve<int>(n);
    s.resEntries[i] = n; s.poolHasBuf = true; ++s.mMemory;
    s.poolSize = (ll) s.pool.size();
    break;
  }
  case POOLREL: s.dropRes((int) (A(0) % NRES)); break;
  case POOLFREE: s.dropPool(); break;
  case BUILD: {
    const int i = (int) (A(0) % NKERN), which = (int) (A(1) & 1);
    s.dropKern(i);
    s.kern[i] = s.bdev.buildKernelFromString(KSRC[which], KNAME[which], occa::json::parse("{compiler_flags: '-O0'}"));
    if (!s.kern[i].isInitialized()) { s.bad("buildKernelFromString returned an uninitialized kernel"); break; }
    s.kernWhich[i] = which; ++s.mKernel;
    break;
  }
  case KDROP: s.dropKern((int) (A(0) % NKERN)); break;
  case RUN: {
    const int ki = (int) (A(0) % NKERN);
    // OpenMP kernels are not run here: libgomp is not instrumented, TSan cannot see its synchronisation and reports false races
    if (s.kernWhich[ki] < 0 || s.openmp) break;
    // target: a private malloc or a private pool reservation
    occa::memory *tgt = NULL; ll n = 0;
    const int want = (int) (A(1) % (NMEM + NRES));
    for (int q = 0; q < NMEM + NRES && !tgt; ++q) {
      const int c = (want + q) % (NMEM + NRES);
      if (c < NMEM) { if (s.memBuf[c] >= 0) { tgt = &s.mem[c]; n = s.memEntries[c]; } }
      else if (s.resEntries[c - NMEM]) { tgt = &s.res[c - NMEM]; n = s.resEntries[c - NMEM]; }
    }
    if (!tgt) break;
    s.kern[ki]((int) n, *tgt);
    std::vector<int> host((size_t) n, -1);
    tgt->copyTo(host.data());
    for (ll q = 0; q < n; ++q) if (host[(size_t) q] != kval(s.kernWhich[ki], (int) q)) {
      std::ostringstream w; w << "kernel " << KNAME[s.kernWhich[ki]] << " wrote " << host[(size_t) q] << " at index " << q << ", expected " << kval(s.kernWhich[ki], (int) q);
      s.bad(w.str()); break;
    }
    break;
  }
  case STREAM: {
    const int i = (int) (A(0) % NSTRM);
    s.dropStream(i);
    s.strm[i] = s.bdev.createStream();
    ++s.mStream;
    break;
  }
  case STREAMDROP: s.dropStream((int) (A(0) % NSTRM)); break;
  case TAG: { occa::streamTag t = s.bdev.tagStream(); if (!t.isInitialized()) s.bad("tagStream() returned an uninitialized tag"); break; }
  default: break;
  }
}

// ---- one case -------------------------------------------------------------------------------------
static long base_[occa::verif::kKindCount];
static long liveNow(int k) { return occa::verif::live(k) - base_[k]; }
static const char *HN[] = {"device", "buffer", "memory", "memoryPool", "kernel", "stream", "streamTag"};

// expected live objects, given what the threads keep alive (shared: 1 device, seed buffer + shared pool, seed memory,
// shared pool, seed kernel, device stream + seed stream)
static bool compareCounters(std::vector<std::unique_ptr<TS>> &ts, occa::device &dev, ll seedBytes, const std::string &when, std::string &why) {
  long eBuf = 2, eMem = 1, ePool = 1, eKern = 1, eStream = 2;
  ll eBytes = seedBytes;
  for (auto &p : ts) {
    TS &s = *p;
    eBuf += (long) s.bufs.size() + s.mPool + (s.poolHasBuf ? 1 : 0);
    eMem += s.mMemory; ePool += s.mPool; eKern += s.mKernel; eStream += s.mStream;
    for (auto &b : s.bufs) eBytes += b.second.bytes;
    if (s.poolAlive) eBytes += s.poolSize;
  }
  struct { int hook; long model; } exp[] = {
    {occa::verif::kDevice, 1}, {occa::verif::kBuffer, eBuf}, {occa::verif::kMemory, eMem}, {occa::verif::kMemoryPool, ePool},
    {occa::verif::kKernel, eKern}, {occa::verif::kStream, eStream}, {occa::verif::kStreamTag, 0}};
  std::ostringstream w;
  for (auto &e : exp) if (liveNow(e.hook) != e.model) {
    w << when << ": " << liveNow(e.hook) << " live backend " << HN[e.hook] << " objects but the sequential model expects " << e.model
      << (liveNow(e.hook) > e.model ? " (leak / lost release)" : " (destroyed early or twice)");
    why = w.str();
    return false;
  }
  if ((ll) dev.memoryAllocated() != eBytes) {
    w << when << ": memoryAllocated()=" << dev.memoryAllocated() << " but the live allocations of all threads sum to " << eBytes;
    why = w.str();
    return false;
  }
  return true;
}

static bool runCase(const Case &c, Ctx &ctx) {
  // ---- decode ----
  int nT = 2, mode = 0; ll seedEntries = 16;
  for (const Op &o : c) if (o.k == HDR && !o.a.empty()) {
    nT = (int) std::min<ll>(MAXT, std::max<ll>(2, o.a[0]));
    if (o.a.size() > 1) mode = (int) (o.a[1] & 1);
    if (o.a.size() > 2) seedEntries = 4 + o.a[2] % 61;
    break;
  }
  int nR = 1;
  std::vector<std::vector<std::vector<const Op*>>> script(nT, std::vector<std::vector<const Op*>>(MAXR));
  // non-triviality: per round, threads that touch handles of the same shared object / allocate on the device
  std::set<int> handleThreads[MAXR][NOBJ], allocThreads[MAXR];
  for (const Op &o : c) {
    if (o.k <= HDR || o.k >= NOPKIND || o.a.size() < 2) continue;
    const int t = (int) (((o.a[0] % nT) + nT) % nT), r = (int) (((o.a[1] % MAXR) + MAXR) % MAXR);
    script[t][r].push_back(&o);
    nR = std::max(nR, r + 1);
    ctx.cls(std::string("op:") + OPN[o.k]);
    if (o.k == COPY || o.k == HOLD || o.k == DROP || o.k == ROTATE || o.k == GETDEV) {
      const int obj = (int) ((o.a.size() > 2 ? o.a[2] : 0) % NOBJ);
      handleThreads[r][o.k == GETDEV ? (obj == ODEV ? OSTREAM : ODEV) : obj].insert(t);
    } else if (o.k == MALLOC || o.k == POOLRES || o.k == SLICE) {
      allocThreads[r].insert(t);
    }
  }
  bool contended = false;
  for (int r = 0; r < nR; ++r) {
    for (int ob = 0; ob < NOBJ; ++ob) if (handleThreads[r][ob].size() >= 2) { contended = true; ctx.cls(std::string("contended-handles:") + OBJN[ob]); }
    if (allocThreads[r].size() >= 2) { contended = true; ctx.cls("contended-allocation"); }
  }
  ctx.nontrivial = contended;
  ctx.cls(nT <= 4 ? "threads:2-4" : nT <= 8 ? "threads:5-8" : "threads:9-16");
  ctx.cls(mode ? "mode:OpenMP" : "mode:Serial");

  for (int k = 0; k < occa::verif::kKindCount; ++k) base_[k] = occa::verif::live(k);
  std::string why;

  // ---- first case of the process only: the threads' first use of occa::settings() is concurrent ----
  // (settings() initialises a process-wide json under its own mutex on first use; afterwards it is only read)
  static bool firstCaseInProcess = true;
  if (firstCaseInProcess) {
    firstCaseInProcess = false;
    pthread_barrier_t sb;
    pthread_barrier_init(&sb, NULL, (unsigned) nT);
    std::vector<int> sizes((size_t) nT, 0);
    std::vector<std::thread> th;
    for (int t = 0; t < nT; ++t) th.emplace_back([&sb, &sizes, t]() {
      pthread_barrier_wait(&sb);
      const occa::json &st = occa::settings();
      sizes[(size_t) t] = st.size();
    });
    for (auto &x : th) x.join();
    pthread_barrier_destroy(&sb);
    for (int t = 0; t < nT; ++t) if (sizes[(size_t) t] <= 0 && why.empty()) why = "occa::settings() was empty for a thread that used it concurrently with the first use";
    ctx.cls("concurrent-first-settings()");
  }

  {
    std::vector<std::unique_ptr<TS>> ts;
    const ll seedBytes = 4 * seedEntries;
    {
      // ---- shared objects, created and handed out by the main thread ----
      occa::device dev(std::string(mode ? "{mode: 'OpenMP'}" : "{mode: 'Serial'}"));
      const occa::json kprops = occa::json::parse("{compiler_flags: '-O0'}");
      occa::kernel skern = dev.buildKernelFromString(KSRC[0], KNAME[0], kprops);
      { occa::kernel warm = dev.buildKernelFromString(KSRC[1], KNAME[1], kprops); }   // cache entry for kb
      occa::memory smem = dev.malloc<int>(seedEntries);
      occa::stream sstream = dev.createStream();
      occa::memoryPool spool = dev.createMemoryPool();
      for (int t = 0; t < nT; ++t) {
        ts.emplace_back(new TS());
        TS &s = *ts.back();
        s.bdev = dev; s.bmem = smem; s.bkern = skern; s.bstream = sstream; s.bpool = spool;
        s.seedEntries = seedEntries; s.openmp = mode != 0;
      }
      // the main thread's own handles go away here: the rings now only hold the threads' handles
    }

    pthread_barrier_t bar;
    pthread_barrier_init(&bar, NULL, (unsigned) nT);
    std::string roundFail;    // written by thread 0 only, between the two barriers
    auto body = [&](int t) {
      TS &s = *ts[(size_t) t];
      for (int r = 0; r < nR; ++r) {
        pthread_barrier_wait(&bar);
        for (const Op *o : script[(size_t) t][(size_t) r]) {
          try { execOp(s, *o); }
          catch (occa::exception &e) { s.bad(std::string("unexpected occa::exception in ") + OPN[o->k] + ": " + std::string(e.what()).substr(0, 300)); }
        }
        if (s.poolAlive) s.poolSize = (ll) s.pool.size();
        pthread_barrier_wait(&bar);
        if (t == 0 && roundFail.empty()) {
          std::ostringstream when; when << "end of round " << r;
          std::string w;
          if (!compareCounters(ts, s.bdev, seedBytes, when.str(), w)) roundFail = w;
        }
      }
      pthread_barrier_wait(&bar);
      // every thread releases what it created (concurrently with the others); base handles stay
      try { s.dropPrivate(); }
      catch (occa::exception &e) { s.bad(std::string("unexpected occa::exception while releasing: ") + std::string(e.what()).substr(0, 300)); }
    };
    {
      std::vector<std::thread> th;
      for (int t = 0; t < nT; ++t) th.emplace_back(body, t);
      for (auto &x : th) x.join();
    }
    pthread_barrier_destroy(&bar);

    if (why.empty()) why = roundFail;
    for (int t = 0; t < nT && why.empty(); ++t) if (!ts[(size_t) t]->fail.empty()) {
      std::ostringstream w; w << "thread " << t << ": " << ts[(size_t) t]->fail; why = w.str();
    }
    if (why.empty()) {
      std::string w;
      if (!compareCounters(ts, ts[0]->bdev, seedBytes, "after joining all threads", w)) why = w;
    }
    // base handles are destroyed here, sequentially, by the main thread
  }
  if (why.empty()) {
    for (int k = 0; k < occa::verif::kKindCount; ++k) if (liveNow(k) != 0) {
      std::ostringstream w;
      w << "after dropping every handle " << liveNow(k) << " backend " << HN[k] << " object(s) are still alive (leak) or were destroyed twice";
      why = w.str(); break;
    }
  }

  // ---- oracle 1: ThreadSanitizer ----
  const std::string logtxt = readNewLog();
  std::vector<Report> reps = parseReports(logtxt);
  std::string tsanWhy;
  for (const Report &r : reps) {
    const std::string slug = matchKnown(r);
    if (!slug.empty() && known()(slug)) { ctx.cls("tsan-known:" + slug); continue; }
    if (tsanWhy.empty()) {
      tsanWhy = "ThreadSanitizer: " + r.id;
      fprintf(stderr, "---- offending ThreadSanitizer report (%s) ----\n%s\n", r.id.c_str(), r.text.c_str());
    } else {
      tsanWhy += " ;; " + r.id;
    }
  }
  if (!tsanWhy.empty()) return ctx.fail(tsanWhy + (why.empty() ? "" : " ;; also: " + why));
  if (!why.empty()) return ctx.fail(why);
  return true;
}

// ---- generator ------------------------------------------------------------------------------------
static Op mk(int k, int t, int r, std::initializer_list<ll> rest) {
  Op o; o.k = k; o.a = {t, r};
  for (ll v : rest) o.a.push_back(v);
  return o;
}

static Op genHandleOp(int t, int r, int obj) {
  const ll w = *rng(0, 9);
  if (w < 5) return mk(COPY, t, r, {obj, *rng(0, 15), *rng(0, 2)});
  if (w < 6) return mk(HOLD, t, r, {obj, *rng(0, NHOLD - 1)});
  if (w < 7) return mk(DROP, t, r, {obj, *rng(0, NHOLD - 1)});
  if (w < 9) return mk(ROTATE, t, r, {obj});
  return mk(GETDEV, t, r, {obj, *rng(0, 3)});
}
static Op genAllocOp(int t, int r) {
  const ll w = *rng(0, 11);
  if (w < 4) return mk(MALLOC, t, r, {*rng(0, NMEM - 1), *rng(0, 95)});
  if (w < 6) return mk(FREE, t, r, {*rng(0, NMEM - 1), *rng(0, 1)});
  if (w < 8) return mk(SLICE, t, r, {*rng(0, NSLC - 1), *rng(0, NMEM), *rng(0, 95), *rng(0, 95)});
  if (w < 9) return mk(SLICEDROP, t, r, {*rng(0, NSLC - 1)});
  if (w < 10) return mk(POOLRES, t, r, {*rng(0, NRES - 1), *rng(0, 63)});
  if (w < 11) return mk(POOLREL, t, r, {*rng(0, NRES - 1)});
  return mk(POOLFREE, t, r, {});
}
static Op genKernelOp(int t, int r) {
  const ll w = *rng(0, 9);
  if (w < 4) return mk(BUILD, t, r, {*rng(0, NKERN - 1), *rng(0, 1)});
  if (w < 5) return mk(KDROP, t, r, {*rng(0, NKERN - 1)});
  if (w < 7) return mk(MALLOC, t, r, {*rng(0, NMEM - 1), *rng(0, 95)});
  return mk(RUN, t, r, {*rng(0, NKERN - 1), *rng(0, NMEM + NRES - 1)});
}
static Op genStreamOp(int t, int r) {
  const ll w = *rng(0, 5);
  if (w < 3) return mk(STREAM, t, r, {*rng(0, NSTRM - 1)});
  if (w < 4) return mk(STREAMDROP, t, r, {*rng(0, NSTRM - 1)});
  return mk(TAG, t, r, {});
}
static Op genAnyOp(int t, int r) {
  const ll w = *rng(0, 9);
  if (w < 4) return genHandleOp(t, r, (int) *rng(0, NOBJ - 1));
  if (w < 7) return genAllocOp(t, r);
  if (w < 9) return genKernelOp(t, r);
  return genStreamOp(t, r);
}

static rc::Gen<Case> genCase() {
  return rc::gen::exec([]() {
    Case c;
    const ll tw = *rng(0, 9);
    const int nT = (int) (tw < 3 ? *rng(2, 4) : tw < 6 ? *rng(5, 8) : *rng(9, 16));
    const int nR = (int) *rng(1, 5);
    Op h; h.k = HDR; h.a = {nT, (*rng(0, 3) == 0) ? 1 : 0, *rng(0, 60)};
    c.push_back(h);
    for (int r = 0; r < nR; ++r) {
      // focus of the round: most threads work on the same object / on allocation, to raise contention
      // 0..4 shared object, 5 allocation, 6 kernels, 7 streams, 8 mixed, 9 run-only (after a build round: no ring operation
      // and therefore no lock in the whole round, so nothing orders the threads' kernel runs)
      int focus = (int) *rng(0, 9);
      if (focus == 9 && r == 0) focus = 6;
      const int maxOps = (int) *rng(2, 12);
      for (int t = 0; t < nT; ++t) {
        if (focus == 9) {
          const int n = (int) *rng(1, 3);
          for (int i = 0; i < n; ++i) c.push_back(mk(RUN, t, r, {*rng(0, NKERN - 1), *rng(0, NMEM + NRES - 1)}));
          continue;
        }
        const int n = (int) *rng(1, maxOps);
        for (int i = 0; i < n; ++i) {
          const bool onFocus = *rng(0, 9) < 7;
          if (!onFocus || focus == 8) c.push_back(genAnyOp(t, r));
          else if (focus < NOBJ) c.push_back(genHandleOp(t, r, focus));
          else if (focus == 5) c.push_back(genAllocOp(t, r));
          else if (focus == 6) c.push_back(genKernelOp(t, r));
          else c.push_back(genStreamOp(t, r));
        }
      }
    }
    return c;
  });
}

static std::string describe(const Case &c) {
  std::ostringstream ss;
  for (const Op &o : c) {
    if (o.k == HDR) {
      ss << "threads=" << (o.a.size() ? o.a[0] : 2) << " mode=" << ((o.a.size() > 1 && (o.a[1] & 1)) ? "OpenMP" : "Serial")
         << " :";
      continue;
    }
    if (o.k < 0 || o.k >= NOPKIND || o.a.size() < 2) continue;
    ss << " T" << o.a[0] << "r" << o.a[1] << ":" << OPN[o.k];
    if (o.k == COPY || o.k == HOLD || o.k == DROP || o.k == ROTATE || o.k == GETDEV) ss << "(" << OBJN[(o.a.size() > 2 ? o.a[2] : 0) % NOBJ] << ")";
    if (ss.tellp() > 1500) { ss << " ... (" << c.size() << " ops)"; break; }
  }
  return ss.str();
}

int main(int argc, char **argv) {
  // TSan log: one file per process under the work directory (next to this process' OCCA cache directory)
  std::string logBase = envOr("VERIF_TSAN_LOG", "");
  if (logBase.empty()) {
    std::string cache = envOr("OCCA_CACHE_DIR", "");
    while (!cache.empty() && cache.back() == '/') cache.pop_back();
    if (!cache.empty()) logBase = cache + ".tsan";
  }
  if (!logBase.empty()) {
    __sanitizer_set_report_path(logBase.c_str());
    g_logFile = logBase + "." + std::to_string((long) getpid());
    FILE *probe = fopen((g_logFile + ".probe").c_str(), "w");
    if (!probe) { fprintf(stderr, "C30: cannot write the ThreadSanitizer log next to %s\n", logBase.c_str()); return 3; }
    fclose(probe);
    remove((g_logFile + ".probe").c_str());
  } else {
    fprintf(stderr, "C30: neither VERIF_TSAN_LOG nor OCCA_CACHE_DIR is set: ThreadSanitizer reports cannot be attributed\n");
    return 3;
  }
  // no library shrinking: TSan reports a racy pair of stacks once per process, so a re-execution of a smaller case in this
  // process cannot fail for the same reason; the unit of reproduction is `--replay` in a fresh process
  int rcode = harnessMain(argc, argv, "C30 sharable-device thread scripts", rc::gen::noShrink(genCase()), runCase, describe);
  // reports written outside any case window (static destruction etc.)
  std::vector<Report> late = parseReports(readNewLog());
  for (const Report &r : late) {
    const std::string slug = matchKnown(r);
    if (!slug.empty() && known().has(slug)) continue;
    fprintf(stderr, "C30: ThreadSanitizer report outside a case: %s\n%s\n", r.id.c_str(), r.text.c_str());
    if (rcode == 0) rcode = 4;
  }
  return rcode;
}
