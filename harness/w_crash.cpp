// Worker for C08 (crash points of a kernel build) and C09 (concurrent builds).
//
//   w_crash <Serial|OpenMP> <id>[,<id>...] [--gate] [--delay-us N]
//
// For every kernel id (in order): ids starting with 's' are *string-built* (the text of $W_SRC/<id>.okl is
// passed to device.buildKernelFromString), all other ids are *file-built* (device.buildKernel on
// $W_SRC/<id>.okl, which may #include a header next to it).  The kernel function is named like the id and has the
// signature (const int n, const int *a, int *out).  It is built with compiler = $W_COMPILER (default g++) and
// compiler_flags = "-O0", run on a = 1..10 and the ten outputs are printed as
//   RESULT <id> v0 ... v9
// Exit 0 when everything was built and run.  An occa::exception gives exit 3 (message on stderr), any other
// exception exit 4.  The cache directory comes from OCCA_CACHE_DIR.
//
// --gate: after the device is set up print "READY <pid>" and wait for one byte (or EOF) on stdin, then sleep --delay-us
// microseconds.  The C09 driver uses it to release all processes at the same instant, so that the generated start
// offsets (and not process start-up jitter) decide the interleaving.
#include <occa.hpp>

#include <unistd.h>

#include <cstdio>
#include <cstdlib>
#include <cstring>
#include <fstream>
#include <iostream>
#include <sstream>
#include <string>
#include <vector>

static std::string slurp(const std::string &path) {
  std::ifstream in(path.c_str(), std::ios::binary);
  if (!in) {
    std::cerr << "WORKER-ERROR: cannot read " << path << std::endl;
    std::exit(5);
  }
  std::ostringstream ss;
  ss << in.rdbuf();
  return ss.str();
}

int main(int argc, char **argv) {
  if (argc < 3) {
    std::cerr << "usage: w_crash <mode> <ids> [--gate] [--delay-us N]" << std::endl;
    return 2;
  }
  const std::string mode = argv[1];
  std::vector<std::string> ids;
  {
    std::stringstream ss(argv[2]);
    std::string id;
    while (std::getline(ss, id, ',')) {
      if (!id.empty()) ids.push_back(id);
    }
  }
  bool gate = false;
  long delayUs = 0;
  for (int i = 3; i < argc; ++i) {
    if (!std::strcmp(argv[i], "--gate")) gate = true;
    else if (!std::strcmp(argv[i], "--delay-us") && i + 1 < argc) delayUs = std::atol(argv[++i]);
  }
  const char *srcEnv = std::getenv("W_SRC");
  const char *ccEnv = std::getenv("W_COMPILER");
  const std::string srcDir = srcEnv ? srcEnv : ".";
  const std::string compiler = (ccEnv && *ccEnv) ? ccEnv : "g++";

  const int n = 10;
  try {
    occa::device device({{"mode", mode}});

    if (gate) {
      std::cout << "READY " << (long) ::getpid() << std::endl;
      char c;
      ssize_t r = ::read(0, &c, 1);
      (void) r;
      if (delayUs > 0) ::usleep((useconds_t) delayUs);
    }

    std::vector<int> a(n), out(n);
    for (int i = 0; i < n; ++i) a[i] = i + 1;

    occa::json props;
    props["compiler"] = compiler;
    props["compiler_flags"] = "-O0";
    // the raw source is copied into the cache before it is parsed: headers next to the kernel file are found
    // through the documented include path property
    props["okl/include_paths"] = occa::json::parse("[\"" + srcDir + "\"]");

    for (const std::string &id : ids) {
      const std::string file = srcDir + "/" + id + ".okl";
      occa::kernel k;
      if (id[0] == 's') {
        k = device.buildKernelFromString(slurp(file), id, props);
      } else {
        k = device.buildKernel(file, id, props);
      }
      if (!k.isInitialized()) {
        std::cerr << "WORKER-ERROR: kernel " << id << " not initialized" << std::endl;
        return 6;
      }
      for (int i = 0; i < n; ++i) out[i] = -777;
      occa::memory o_a = device.malloc<int>(n, a.data());
      occa::memory o_out = device.malloc<int>(n, out.data());
      k(n, o_a, o_out);
      device.finish();
      o_out.copyTo(out.data());
      std::cout << "RESULT " << id;
      for (int i = 0; i < n; ++i) std::cout << ' ' << out[i];
      std::cout << std::endl;
    }
  } catch (occa::exception &e) {
    std::cerr << "OCCA-EXCEPTION: " << e.what() << std::endl;
    std::cout.flush();
    return 3;
  } catch (std::exception &e) {
    std::cerr << "STD-EXCEPTION: " << e.what() << std::endl;
    std::cout.flush();
    return 4;
  }
  return 0;
}
