// C02 — device memory behaves like an aliased byte array; misuse raises occa::exception.
#include "common.hpp"
#include <occa.hpp>
#include <occa/internal/utils/sys.hpp>
#include <memory>

using namespace vf;

enum { MALLOC = 0, WRAP, SLICE, PLUS, CAST, CLONE, COPYFROM_PTR, COPYTO_PTR, COPY_MM, DROP, PLUSEQ };
static const char *OPN[] = {"malloc", "wrapMemory", "slice", "operator+", "cast", "clone", "copyFrom(ptr)", "copyTo(ptr)",
                            "copy(mem,mem)", "drop", "operator+="};
static const int NSLOT = 8;

struct Dt { const occa::dtype_t *dt; int sz; };
static Dt dtypeSel(ll s) {
  switch (((s % 6) + 6) % 6) {
  case 0: return {&occa::dtype::byte, 1};
  case 1: return {&occa::dtype::short_, 2};
  case 2: return {&occa::dtype::int_, 4};
  case 3: return {&occa::dtype::double_, 8};
  case 4: return {&occa::dtype::float3, 12};
  default: return {&occa::dtype::double2, 16};
  }
}

struct View { bool init = false; int alloc = -1; ll off = 0, len = 0; int dsz = 1; };
struct World {
  occa::device dev;
  occa::memory mem[NSLOT];
  View view[NSLOT];
  std::vector<std::vector<unsigned char>> allocs;
  std::vector<void*> hostBufs;   // wrapped host buffers (harness owned)
  std::vector<int> hostAlloc;    // alloc id of each host buffer
  unsigned pat = 7;
  ~World() {
    for (int i = 0; i < NSLOT; ++i) mem[i] = occa::memory();
    for (void *p : hostBufs) occa::sys::free(p);
  }
};

static void fill(unsigned char *v, size_t n, unsigned &pat) {
  for (size_t i = 0; i < n; ++i) { pat = pat * 1103515245u + 12345u; v[i] = (unsigned char) (pat >> 16); }
}

// argument decoding: class 0..6 valid-ish value inside [0, hi]; 7 => -1; 8 => other negative; 9 => hi+1; 10 => huge
static ll pick(ll cls, ll raw, ll hi, bool &maybeInvalid) {
  switch (cls) {
  case 7: maybeInvalid = true; return -1;
  case 8: maybeInvalid = true; return -2 - (raw % 5);
  case 9: maybeInvalid = true; return hi + 1 + (raw % 3);
  case 10: maybeInvalid = true; return (1LL << 40) + raw;
  default: return hi > 0 ? raw % (hi + 1) : 0;
  }
}

static bool readBackAll(World &w, Ctx &ctx, const char *after) {
  for (int i = 0; i < NSLOT; ++i) {
    View &v = w.view[i];
    std::ostringstream why;
    if (w.mem[i].isInitialized() != v.init) {
      why << after << ": slot " << i << " isInitialized()=" << w.mem[i].isInitialized() << " model " << v.init;
      return ctx.fail(why.str());
    }
    if (!v.init) continue;
    if ((ll) w.mem[i].byte_size() != v.len || (ll) w.mem[i].length() != v.len / v.dsz || w.mem[i].dtype().bytes() != v.dsz) {
      why << after << ": slot " << i << " byte_size=" << w.mem[i].byte_size() << " length=" << w.mem[i].length() << " dtype bytes="
          << w.mem[i].dtype().bytes() << "; model bytes=" << v.len << " dtype bytes=" << v.dsz;
      return ctx.fail(why.str());
    }
    const ll n = (v.len / v.dsz) * v.dsz;   // bytes reachable through whole elements
    std::unique_ptr<unsigned char[]> buf(new unsigned char[n ? n : 1]);
    w.mem[i].copyTo(buf.get());   // all elements
    const unsigned char *exp = w.allocs[v.alloc].data() + v.off;
    for (ll k = 0; k < n; ++k) if (buf[k] != exp[k]) {
      why << after << ": slot " << i << " byte " << k << " reads " << (int) buf[k] << " but the byte-array model has " << (int) exp[k]
          << " (view alloc " << v.alloc << " off " << v.off << " len " << v.len << ")";
      return ctx.fail(why.str());
    }
    // wrapped host buffers: the host side must agree too
  }
  for (size_t h = 0; h < w.hostBufs.size(); ++h) {
    auto &a = w.allocs[w.hostAlloc[h]];
    if (memcmp(w.hostBufs[h], a.data(), a.size())) return ctx.fail(std::string(after) + ": wrapped host buffer differs from the model");
  }
  return true;
}

static bool runCase(const Case &c, Ctx &ctx) {
  World w;
  bool omp = !c.empty() && !c[0].a.empty() && (c[0].a[0] & 16);
  w.dev = occa::device(std::string(omp ? "{mode: 'OpenMP'}" : "{mode: 'Serial'}"));
  int aliasWrites = 0;

  for (const Op &o : c) {
    auto A = [&](size_t i) -> ll { return i < o.a.size() ? o.a[i] : 0; };
    const int d = (int) (A(0) % NSLOT), s = (int) (A(1) % NSLOT);
    bool expectThrow = false, mayThrowOrNoop = false, threw = false;
    std::string what;
    // planned model update (applied only if the call does not throw)
    View nv; bool setView = false;
    std::function<void()> modelUpdate;
    try {
      switch (o.k) {
      case MALLOC: {
        Dt dt = dtypeSel(A(2));
        bool inv = false;
        ll n = pick(A(3), A(4), 40, inv);
        if (n > 40) n = -3;                          // "huge" allocations are not requested; use a negative count instead
        const bool withSrc = (A(5) & 1) && n > 0;
        std::vector<unsigned char> init(n > 0 ? n * dt.sz : 0);
        fill(init.data(), init.size(), w.pat);
        expectThrow = n < 0;
        occa::memory m = withSrc ? w.dev.malloc(n, *dt.dt, (const void*) init.data()) : w.dev.malloc(n, *dt.dt);
        if (n > 0 && !withSrc) m.copyFrom(init.data());
        w.mem[d] = m;
        if (n > 0) { w.allocs.push_back(init); nv.init = true; nv.alloc = (int) w.allocs.size() - 1; nv.off = 0; nv.len = n * dt.sz; nv.dsz = dt.sz; }
        setView = true;
        break;
      }
      case WRAP: {
        const ll n = 1 + A(3) % 64;
        void *p = occa::sys::malloc(n);
        std::vector<unsigned char> init(n);
        fill(init.data(), n, w.pat);
        memcpy(p, init.data(), n);
        w.hostBufs.push_back(p);
        w.allocs.push_back(init);
        w.hostAlloc.push_back((int) w.allocs.size() - 1);
        w.mem[d] = w.dev.wrapMemory((const void*) p, n, occa::dtype::byte);
        nv.init = true; nv.alloc = (int) w.allocs.size() - 1; nv.off = 0; nv.len = n; nv.dsz = 1; setView = true;
        ctx.cls("wrapMemory");
        break;
      }
      case SLICE: case PLUS: case PLUSEQ: {
        const View sv = w.view[s];
        const ll len = sv.init ? sv.len / sv.dsz : 0;
        bool inv = false;
        ll off = pick(A(2), A(3), len, inv);
        ll cnt = (o.k == SLICE) ? pick(A(4), A(5), len > off && off >= 0 ? len - off : 0, inv) : -1;
        if (!sv.init) { mayThrowOrNoop = true; ctx.cls("uninitialized-receiver"); }
        else {
          const bool valid = off >= 0 && ((cnt == -1) ? off <= len : (cnt >= 0 && off + cnt <= len));
          expectThrow = !valid;
          const ll ecnt = (cnt == -1) ? len - off : cnt;
          nv.init = true; nv.alloc = sv.alloc; nv.off = sv.off + off * sv.dsz; nv.len = ecnt * sv.dsz; nv.dsz = sv.dsz;
          if (valid && ecnt == 0) { /* zero-length slice: still an initialized handle of size 0 */ }
        }
        occa::memory r;
        if (o.k == SLICE) r = w.mem[s].slice(off, cnt);
        else if (o.k == PLUS) r = w.mem[s] + off;
        else { r = w.mem[s]; r += off; }
        w.mem[d] = r;
        if (!sv.init) { nv = View(); if (r.isInitialized()) return ctx.fail("slice of an uninitialized handle returned an initialized one"); }
        setView = true;
        ctx.cls(sv.init && (w.view[s].off > 0 || w.view[s].len < (ll) w.allocs[w.view[s].alloc].size()) ? "slice-of-slice" : "slice");
        break;
      }
      case CAST: {
        const View sv = w.view[s];
        Dt dt = dtypeSel(A(2));
        if (!sv.init) mayThrowOrNoop = true;
        occa::memory r = w.mem[s].cast(*dt.dt);
        w.mem[d] = r;
        // cast() is slice(0) in units of the *current* dtype followed by setDtype: trailing bytes that do not fill a whole
        // element of the current dtype are not part of the new view (the statement does not say otherwise)
        if (sv.init) { nv = sv; nv.len = (sv.len / sv.dsz) * sv.dsz; nv.dsz = dt.sz; } else { nv = View(); if (r.isInitialized()) return ctx.fail("cast of uninitialized handle is initialized"); }
        setView = true;
        ctx.cls("cast");
        break;
      }
      case CLONE: {
        const View sv = w.view[s];
        // cloning nothing (uninitialized handle, or a zero-length view: malloc(0) yields an empty handle) may raise or give an empty handle
        if (!sv.init || sv.len == 0) mayThrowOrNoop = true;
        occa::memory r = w.mem[s].clone();
        w.mem[d] = r;
        if (sv.init) {
          if (sv.len == 0) { nv = View(); }           // malloc(0) yields an empty handle
          else {
            std::vector<unsigned char> cp(w.allocs[sv.alloc].begin() + sv.off, w.allocs[sv.alloc].begin() + sv.off + sv.len);
            w.allocs.push_back(cp);
            nv.init = true; nv.alloc = (int) w.allocs.size() - 1; nv.off = 0; nv.len = sv.len; nv.dsz = sv.dsz;
          }
        } else nv = View();
        setView = true;
        ctx.cls("clone");
        break;
      }
      case COPYFROM_PTR: case COPYTO_PTR: {
        const View sv = w.view[s];
        const ll len = sv.init ? sv.len / sv.dsz : 0;
        bool inv = false;
        ll off = pick(A(2), A(3), len, inv);
        ll cnt = pick(A(4), A(5), len > off && off >= 0 ? len - off : 0, inv);
        if (cnt == -1 && off != 0) off = 0;            // "all elements" is only requested from the start
        if (!sv.init) { mayThrowOrNoop = true; ctx.cls("uninitialized-receiver"); }
        const ll ecnt = (cnt == -1) ? len : cnt;
        const bool valid = sv.init && off >= 0 && cnt >= -1 && off + ecnt <= len;
        if (sv.init) expectThrow = !valid;
        const ll nbytes = valid ? ecnt * sv.dsz : 0;
        // exact-size host buffer: an over-read / over-write of one byte is an ASan error
        const ll hostBytes = valid ? nbytes : 64;
        std::unique_ptr<unsigned char[]> host(new unsigned char[hostBytes ? hostBytes : 1]);
        if (o.k == COPYFROM_PTR) {
          fill(host.get(), hostBytes, w.pat);
          if (valid) {
            std::vector<unsigned char> data(host.get(), host.get() + nbytes);
            const View svc = sv; const ll offc = off;
            modelUpdate = [&w, svc, offc, data]() { std::copy(data.begin(), data.end(), w.allocs[svc.alloc].begin() + svc.off + offc * svc.dsz); };
            if (sv.off > 0 || sv.len < (ll) w.allocs[sv.alloc].size()) ++aliasWrites;
          }
          w.mem[s].copyFrom((const void*) host.get(), cnt, off);
        } else {
          memset(host.get(), 0xA5, hostBytes);
          w.mem[s].copyTo((void*) host.get(), cnt, off);
          if (valid && memcmp(host.get(), w.allocs[sv.alloc].data() + sv.off + off * sv.dsz, nbytes))
            return ctx.fail("copyTo(ptr, count, offset) returned bytes that differ from the byte-array model");
          if (!sv.init) for (ll k = 0; k < hostBytes; ++k) if (host[k] != 0xA5) return ctx.fail("copyTo from an uninitialized handle wrote to the destination");
        }
        break;
      }
      case COPY_MM: {
        // dest.copyFrom(src, count, destOffset, srcOffset) / src.copyTo(dest, ...): count is in elements of the *caller*,
        // every offset in elements of the memory it belongs to (docs: "destOffset: the memory offset for the destination")
        const View dv = w.view[d], sv = w.view[s];
        const bool viaCopyTo = A(8) & 1;
        const ll ddsz = dv.init ? dv.dsz : 1, sdsz = sv.init ? sv.dsz : 1;
        const ll cdsz = viaCopyTo ? sdsz : ddsz;                     // caller's element size
        const ll dlen = dv.init ? dv.len / ddsz : 0, slen = sv.init ? sv.len / sdsz : 0;
        bool inv = false;
        ll doff = pick(A(2), A(3), dlen, inv), soff = pick(A(4), A(5), slen, inv);
        const ll dRoomB = (doff >= 0 && doff <= dlen) ? dv.len - doff * ddsz : 0;
        const ll sRoomB = (soff >= 0 && soff <= slen) ? sv.len - soff * sdsz : 0;
        const ll room = std::min(dRoomB, sRoomB) / cdsz;
        ll cnt = pick(A(6), A(7), room, inv);
        // "all" (-1) means every element of the *caller*: only requested from offset 0
        if (cnt == -1 && !(doff == 0 && soff == 0)) { doff = 0; soff = 0; }
        const ll callerLen = viaCopyTo ? slen : dlen;
        const ll ecnt = (cnt == -1) ? callerLen : cnt;
        if (!dv.init && !sv.init) { mayThrowOrNoop = true; ctx.cls("both-uninitialized"); }
        else if (!dv.init || !sv.init) { expectThrow = true; ctx.cls("one-side-uninitialized"); }
        else {
          const ll nb = ecnt * cdsz, db = dv.off + doff * ddsz, sb = sv.off + soff * sdsz;
          const bool valid = doff >= 0 && soff >= 0 && cnt >= -1 && doff * ddsz + nb <= dv.len && soff * sdsz + nb <= sv.len;
          expectThrow = !valid;
          if (valid) {
            // like memcpy, overlapping device-to-device ranges are unspecified: not generated
            if (dv.alloc == sv.alloc && nb > 0 && db < sb + nb && sb < db + nb) continue;
            std::vector<unsigned char> data(w.allocs[sv.alloc].begin() + sb, w.allocs[sv.alloc].begin() + sb + nb);
            const int da = dv.alloc;
            modelUpdate = [&w, da, db, data]() { std::copy(data.begin(), data.end(), w.allocs[da].begin() + db); };
            if (dv.off > 0 || dv.len < (ll) w.allocs[dv.alloc].size()) ++aliasWrites;
            ctx.cls(ddsz != sdsz ? "device-to-device:different-element-sizes" : "device-to-device");
            if (ddsz != sdsz && (doff > 0 || soff > 0)) ctx.nontrivial = true;
          }
        }
        if (viaCopyTo) w.mem[s].copyTo(w.mem[d], cnt, doff, soff);
        else w.mem[d].copyFrom(w.mem[s], cnt, doff, soff);
        break;
      }
      case DROP: {
        w.mem[d] = occa::memory();
        nv = View(); setView = true;
        break;
      }
      default: continue;
      }
    } catch (occa::exception &e) {
      threw = true;
      what = e.what();
    }
    std::ostringstream why;
    if (expectThrow) {
      ctx.nontrivial = true; ctx.cls("invalid-request");
      if (!threw) {
        why << OPN[o.k] << " with an out-of-range / negative / uninitialized argument did not raise occa::exception: " << o;
        return ctx.fail(why.str());
      }
    } else if (threw && !mayThrowOrNoop) {
      why << OPN[o.k] << " with valid arguments raised: " << o << " :: " << what.substr(0, 200);
      return ctx.fail(why.str());
    }
    if (!threw) {
      if (modelUpdate) modelUpdate();
      if (setView) w.view[d] = nv;
    }
    if (!readBackAll(w, ctx, OPN[o.k])) return false;
    if (aliasWrites > 0) {
      // a later read through another alias of a written slice is the interesting case
      int aliases = 0;
      for (int i = 0; i < NSLOT; ++i) for (int j = i + 1; j < NSLOT; ++j)
        if (w.view[i].init && w.view[j].init && w.view[i].alloc == w.view[j].alloc) ++aliases;
      if (aliases) { ctx.nontrivial = true; ctx.cls("read-through-alias-after-write"); }
    }
  }
  return true;
}

int main(int argc, char **argv) {
  auto slot = rng(0, 31);
  auto cls = rng(0, 10);      // 0..6 valid, 7..10 invalid classes => ~36 % invalid-prone arguments per position
  auto clsV = rc::gen::exec([]() { ll r = *rng(0, 19); return r < 14 ? (ll) 0 : 7 + (r - 14) % 4; });   // 70 % valid
  auto raw = rng(0, 1000);
  (void) cls;
  rc::Gen<Case> gen = caseOf({
    {8, mkOp(MALLOC, {slot, slot, rng(0, 5), clsV, raw, rng(0, 1)})},
    {2, mkOp(WRAP, {slot, slot, rng(0, 5), raw})},
    {7, mkOp(SLICE, {slot, slot, clsV, raw, clsV, raw})},
    {2, mkOp(PLUS, {slot, slot, clsV, raw})},
    {1, mkOp(PLUSEQ, {slot, slot, clsV, raw})},
    {4, mkOp(CAST, {slot, slot, rng(0, 5)})},
    {2, mkOp(CLONE, {slot, slot})},
    {6, mkOp(COPYFROM_PTR, {slot, slot, clsV, raw, clsV, raw})},
    {4, mkOp(COPYTO_PTR, {slot, slot, clsV, raw, clsV, raw})},
    {7, mkOp(COPY_MM, {slot, slot, clsV, raw, clsV, raw, clsV, raw, rng(0, 1)})},
    {1, mkOp(DROP, {slot})},
  });
  return harnessMain(argc, argv, "C02 memory", gen, runCase, [](const Case &c) {
    std::ostringstream ss;
    for (const Op &o : c) {
      ss << (o.k <= PLUSEQ ? OPN[o.k] : "?") << "(";
      for (size_t i = 0; i < o.a.size(); ++i) ss << (i ? "," : "") << o.a[i];
      ss << ") ";
    }
    return ss.str();
  });
}
