// w_print — plain batch worker for C15: parse a small C translation unit with OCCA's base parser, print it, parse the
// printed text again, print that, and serialise both parse trees structurally.
//
// Protocol (line oriented, one request line -> exactly one answer line on stdout):
//   request:  <id> <hex(source)>                          ("quit" ends the worker)
//   answer :  <id> <ok0> <ok1> <hex(P1)> <hex(P2)> <hex(S0)> <hex(S1)> <hex(diagnostics)>
//     ok0 = OCCA parsed the source;  P1 = print(parse(source));  S0 = S(parse(source))
//     ok1 = OCCA parsed P1;          P2 = print(parse(P1));      S1 = S(parse(P1))
//     An empty field is written as "-".  Diagnostics = what OCCA printed (first 3000 bytes) / the exception text.
//   S(tree) is an s-expression: statements by kind with their expression trees, every expression node by kind with its
//   operator / leaf text (identifier, literal spelling, string/char value) and its children; types with their
//   qualifiers (as a sorted set), pointers (and pointer qualifiers), reference flag, array extents and bit field.  Strings are written
//   length-prefixed (<n>:<bytes>) so that the serialisation is unambiguous.
//   Parser objects: see parseAndPrint().  Before every phase of a request (parse0, print0, parse1, print1) the line
//   "<id> <phase>" is written to the file named by $W_PRINT_CUR so that the driver can attribute a sanitizer abort to
//   the request and phase in progress.
#include <algorithm>
#include <cstdio>
#include <cstdlib>
#include <fstream>
#include <iostream>
#include <sstream>
#include <string>
#include <vector>
#include <fcntl.h>
#include <unistd.h>

#include <occa/utils/exception.hpp>
#include <occa/internal/io/output.hpp>
#include <occa/internal/lang/parser.hpp>
#include <occa/internal/lang/expr.hpp>
#include <occa/internal/lang/statement.hpp>
#include <occa/internal/lang/variable.hpp>
#include <occa/internal/lang/type.hpp>

using namespace occa;
using namespace occa::lang;

static std::string hexEncode(const std::string &s) {
  static const char *d = "0123456789abcdef";
  std::string r;
  r.reserve(2 * s.size());
  for (unsigned char c : s) { r += d[c >> 4]; r += d[c & 15]; }
  return r.empty() ? "-" : r;
}

static std::string hexDecode(const std::string &h) {
  if (h == "-") return "";
  std::string r;
  auto v = [](char c) -> int { return (c >= 'a') ? c - 'a' + 10 : c - '0'; };
  for (size_t i = 0; i + 1 < h.size(); i += 2) r += (char) (v(h[i]) * 16 + v(h[i + 1]));
  return r;
}

static std::string diag;
static void capture(const char *s) { if (diag.size() < 20000) diag += s; }

// ---------------------------------------------------------------------------------------------------------------
// structural serialisation
// ---------------------------------------------------------------------------------------------------------------
static std::string lp(const std::string &s) {
  std::ostringstream o;
  o << s.size() << ':' << s;
  return o.str();
}

static void serExpr(std::ostringstream &o, const exprNode *e);

static void serQualifiers(std::ostringstream &o, const qualifiers_t &q) {
  // a qualifier list is a set (const struct S == struct S const, long unsigned == unsigned long): serialised sorted
  std::vector<std::string> items;
  for (int i = 0; i < q.size(); ++i) {
    std::ostringstream it;
    it << (q[i] ? q[i]->name : std::string("?"));
    const exprNodeVector &args = q.qualifiers[i].args;
    if (args.size()) {
      it << "<";
      for (exprNode *a : args) serExpr(it, a);
      it << ">";
    }
    items.push_back(it.str());
  }
  std::sort(items.begin(), items.end());
  o << "[";
  for (size_t i = 0; i < items.size(); ++i) {
    if (i) o << ' ';
    o << items[i];
  }
  o << "]";
}

static void serVartype(std::ostringstream &o, const vartype_t &vt) {
  o << "(vt q";
  serQualifiers(o, vt.qualifiers);
  o << " t=" << lp(vt.type ? vt.type->name() : std::string("<null>"));
  if (vt.type) {
    o << '#' << vt.type->type();
  }
  for (const pointer_t &p : vt.pointers) {
    o << " *";
    serQualifiers(o, p.qualifiers);
  }
  if (vt.referenceToken) o << " &";
  for (const array_t &a : vt.arrays) {
    o << " [";
    if (a.size) serExpr(o, a.size);
    o << "]";
  }
  if (vt.bitfield >= 0) o << " bf=" << vt.bitfield;
  if (vt.customPrefix.size()) o << " pre=" << lp(vt.customPrefix);
  if (vt.customSuffix.size()) o << " suf=" << lp(vt.customSuffix);
  o << ")";
}

static void serVariableDecl(std::ostringstream &o, const variable_t &v) {
  o << "(var " << lp(v.name()) << ' ';
  serVartype(o, v.vartype);
  o << ")";
}

static void serExpr(std::ostringstream &o, const exprNode *e) {
  if (!e) { o << "(null)"; return; }
  const udim_t t = e->type();
  if (t & exprNodeType::empty) { o << "(empty)"; return; }
  if (t & exprNodeType::primitive) {
    o << "(prim " << lp(((const primitiveNode*) e)->value.toString()) << ")";
    return;
  }
  if (t & exprNodeType::char_) { o << "(char " << lp(((const charNode*) e)->value) << ")"; return; }
  if (t & exprNodeType::string) {
    const stringNode *s = (const stringNode*) e;
    o << "(string " << lp(s->value);
    // encoding prefix and user-defined suffix live in the token (stringNode keeps only the value)
    if (s->token && (s->token->type() & tokenType::string)) {
      const stringToken &st = s->token->to<stringToken>();
      o << " enc=" << st.encoding << " udf=" << lp(st.udf);
    }
    o << ")";
    return;
  }
  if (t & exprNodeType::identifier) { o << "(id " << lp(((const identifierNode*) e)->value) << ")"; return; }
  if (t & exprNodeType::variable) { o << "(varref " << lp(((const variableNode*) e)->value.name()) << ")"; return; }
  if (t & exprNodeType::function) { o << "(funcref " << lp(((const functionNode*) e)->value.name()) << ")"; return; }
  if (t & exprNodeType::type) { o << "(type " << lp(((const typeNode*) e)->value.name()) << ")"; return; }
  if (t & exprNodeType::vartype) {
    o << "(vartype ";
    serVartype(o, ((const vartypeNode*) e)->value);
    o << ")";
    return;
  }
  if (t & exprNodeType::leftUnary) {
    const leftUnaryOpNode *n = (const leftUnaryOpNode*) e;
    o << "(lunary " << lp(n->op.str) << ' ';
    serExpr(o, n->value);
    o << ")";
    return;
  }
  if (t & exprNodeType::rightUnary) {
    const rightUnaryOpNode *n = (const rightUnaryOpNode*) e;
    o << "(runary " << lp(n->op.str) << ' ';
    serExpr(o, n->value);
    o << ")";
    return;
  }
  if (t & exprNodeType::binary) {
    const binaryOpNode *n = (const binaryOpNode*) e;
    o << "(binary " << lp(n->op.str) << ' ';
    serExpr(o, n->leftValue);
    o << ' ';
    serExpr(o, n->rightValue);
    o << ")";
    return;
  }
  if (t & exprNodeType::ternary) {
    const ternaryOpNode *n = (const ternaryOpNode*) e;
    o << "(ternary ";
    serExpr(o, n->checkValue);
    o << ' ';
    serExpr(o, n->trueValue);
    o << ' ';
    serExpr(o, n->falseValue);
    o << ")";
    return;
  }
  if (t & exprNodeType::subscript) {
    const subscriptNode *n = (const subscriptNode*) e;
    o << "(subscript ";
    serExpr(o, n->value);
    o << ' ';
    serExpr(o, n->index);
    o << ")";
    return;
  }
  if (t & exprNodeType::call) {
    const callNode *n = (const callNode*) e;
    o << "(call ";
    serExpr(o, n->value);
    for (exprNode *a : n->args) { o << ' '; serExpr(o, a); }
    o << ")";
    return;
  }
  if (t & exprNodeType::sizeof_) {
    o << "(sizeof ";
    serExpr(o, ((const sizeofNode*) e)->value);
    o << ")";
    return;
  }
  if (t & exprNodeType::parenCast) {
    const parenCastNode *n = (const parenCastNode*) e;
    o << "(parencast ";
    serVartype(o, n->valueType);
    o << ' ';
    serExpr(o, n->value);
    o << ")";
    return;
  }
  if (t & exprNodeType::funcCast) {
    const funcCastNode *n = (const funcCastNode*) e;
    o << "(funccast ";
    serVartype(o, n->valueType);
    o << ' ';
    serExpr(o, n->value);
    o << ")";
    return;
  }
  if (t & exprNodeType::parentheses) {
    o << "(paren ";
    serExpr(o, ((const parenthesesNode*) e)->value);
    o << ")";
    return;
  }
  if (t & exprNodeType::tuple) {
    const tupleNode *n = (const tupleNode*) e;
    o << "(tuple";
    for (exprNode *a : n->args) { o << ' '; serExpr(o, a); }
    o << ")";
    return;
  }
  // anything else: kind bits, printed text and the children the node itself reports
  o << "(node#" << (unsigned long long) t << ' ' << lp(e->toString());
  exprNodeVector children;
  const_cast<exprNode*>(e)->pushChildNodes(children);
  for (exprNode *c : children) { o << ' '; serExpr(o, c); }
  o << ")";
}

static void serStatement(std::ostringstream &o, statement_t *s);

static void serChildren(std::ostringstream &o, blockStatement &b) {
  const int n = b.size();
  for (int i = 0; i < n; ++i) {
    o << ' ';
    serStatement(o, b[i]);
  }
}

static void serStatement(std::ostringstream &o, statement_t *s) {
  if (!s) { o << "(nullstmt)"; return; }
  const int t = s->type();
  if (s->attributes.size()) {
    o << "(attrs";
    for (auto &it : s->attributes) o << ' ' << lp(it.first);
    o << ")";
  }
  if (t & statementType::functionDecl) {
    functionDeclStatement &f = s->to<functionDeclStatement>();
    function_t &fn = f.function();
    o << "(funcdecl " << lp(fn.name()) << " ret=";
    serVartype(o, fn.returnType);
    o << " args(";
    for (variable_t *a : fn.args) serVariableDecl(o, *a);
    o << ")";
    serChildren(o, f);
    o << ")";
    return;
  }
  if (t & statementType::function) {
    functionStatement &f = s->to<functionStatement>();
    function_t &fn = f.function();
    o << "(funcproto " << lp(fn.name()) << " ret=";
    serVartype(o, fn.returnType);
    o << " args(";
    for (variable_t *a : fn.args) serVariableDecl(o, *a);
    o << "))";
    return;
  }
  if (t & statementType::if_) {
    ifStatement &f = s->to<ifStatement>();
    o << "(if ";
    serStatement(o, f.condition);
    o << " (then";
    serChildren(o, f);
    o << ")";
    for (elifStatement *e : f.elifSmnts) {
      o << " (elif ";
      serStatement(o, e->condition);
      serChildren(o, *e);
      o << ")";
    }
    if (f.elseSmnt) {
      o << " (else";
      serChildren(o, *f.elseSmnt);
      o << ")";
    }
    o << ")";
    return;
  }
  if (t & statementType::elif_) {
    elifStatement &e = s->to<elifStatement>();
    o << "(elif-free ";
    serStatement(o, e.condition);
    serChildren(o, e);
    o << ")";
    return;
  }
  if (t & statementType::else_) {
    o << "(else-free";
    serChildren(o, s->to<elseStatement>());
    o << ")";
    return;
  }
  if (t & statementType::for_) {
    forStatement &f = s->to<forStatement>();
    o << "(for ";
    serStatement(o, f.init);
    o << ' ';
    serStatement(o, f.check);
    o << ' ';
    serStatement(o, f.update);
    o << " (body";
    serChildren(o, f);
    o << "))";
    return;
  }
  if (t & statementType::while_) {
    whileStatement &w = s->to<whileStatement>();
    o << (w.isDoWhile ? "(dowhile " : "(while ");
    serStatement(o, w.condition);
    o << " (body";
    serChildren(o, w);
    o << "))";
    return;
  }
  if (t & statementType::switch_) {
    switchStatement &w = s->to<switchStatement>();
    o << "(switch ";
    serStatement(o, w.condition);
    o << " (body";
    serChildren(o, w);
    o << "))";
    return;
  }
  if (t & statementType::case_) {
    o << "(case ";
    serExpr(o, s->to<caseStatement>().value);
    o << ")";
    return;
  }
  if (t & statementType::default_) { o << "(default)"; return; }
  if (t & statementType::continue_) { o << "(continue)"; return; }
  if (t & statementType::break_) { o << "(break)"; return; }
  if (t & statementType::return_) {
    o << "(return ";
    serExpr(o, s->to<returnStatement>().value);
    o << ")";
    return;
  }
  if (t & statementType::empty) {
    o << "(emptystmt)";
    return;
  }
  if (t & statementType::expression) {
    expressionStatement &e = s->to<expressionStatement>();
    o << "(expr" << (e.hasSemicolon ? ";" : "") << ' ';
    serExpr(o, e.expr);
    o << ")";
    return;
  }
  if (t & statementType::declaration) {
    declarationStatement &d = s->to<declarationStatement>();
    o << "(decl" << (d.declaredType ? "+type" : "");
    for (variableDeclaration &vd : d.declarations) {
      o << " (";
      if (vd.hasVariable()) serVariableDecl(o, vd.variable()); else o << "(novar)";
      if (vd.hasValue()) { o << " = "; serExpr(o, vd.value); }
      o << ")";
    }
    o << ")";
    return;
  }
  if (t & (statementType::block | statementType::namespace_)) {
    o << ((t & statementType::block) ? "(block" : "(namespace");
    serChildren(o, s->to<blockStatement>());
    o << ")";
    return;
  }
  // comment, directive, pragma, goto, class ... : kind + printed text (+ children when it is a block)
  o << "(stmt#" << t << ' ' << lp(s->statementName()) << ' ' << lp(s->toString());
  if (s->is<blockStatement>()) serChildren(o, s->to<blockStatement>());
  o << ")";
}

struct Parsed {
  bool ok;
  std::string printed, ser;
};

// Constructing a parser_t costs ~100 ms under ASan (keyword map, operator tries): by default one parser object is
// reused (parseSource() starts with clear(), as the library's own tests rely on); with W_PRINT_FRESH=1 every parse
// gets a new parser object (the driver confirms every failure that way before it reports it).
static bool freshParsers = false;
static parser_t *sharedParser = NULL;

static const char *curFile = NULL;
static std::string curId;

// side file: "<request id> <phase>"; phase in parse0, print0, parse1, print1 (0 = the request's source, 1 = P1)
static void logPhase(const char *phase) {
  if (!curFile) return;
  std::ofstream f(curFile, std::ios::trunc);
  f << curId << ' ' << phase << "\n";
}

static Parsed parseAndPrint(const std::string &src, const int round) {
  Parsed r;
  r.ok = false;
  parser_t *parser = NULL;
  logPhase(round ? "parse1" : "parse0");
  try {
    if (freshParsers) {
      parser = new parser_t();
    } else {
      if (!sharedParser) sharedParser = new parser_t();
      parser = sharedParser;
    }
    parser->parseSource(src);
    r.ok = parser->succeeded();
    if (r.ok) {
      logPhase(round ? "print1" : "print0");
      r.printed = parser->toString();
      std::ostringstream o;
      o << "(root";
      serChildren(o, parser->root);
      o << ")";
      r.ser = o.str();
    }
  } catch (occa::exception &e) {
    r.ok = false;
    diag += std::string("occa::exception: ") + e.what();
    if (!freshParsers) {
      // do not trust the state of a parser that threw
      sharedParser = NULL;
    }
  } catch (std::exception &e) {
    r.ok = false;
    diag += std::string("std::exception: ") + e.what();
    if (!freshParsers) sharedParser = NULL;
  }
  if (freshParsers) delete parser;
  return r;
}

int main() {
  occa::io::stderr.setOverride(capture);
  occa::io::stdout.setOverride(capture);
  const char *cur = ::getenv("W_PRINT_CUR");
  curFile = cur;
  freshParsers = (::getenv("W_PRINT_FRESH") != NULL);
  // OCCA prints some debugging output straight to stdout: keep the protocol channel private
  int outfd = ::dup(1);
  ::dup2(2, 1);
  FILE *out = ::fdopen(outfd, "w");
  if (!out) return 3;
  std::string line;
  while (std::getline(std::cin, line)) {
    std::istringstream ls(line);
    std::string id, hsrc;
    ls >> id >> hsrc;
    if (id.empty()) continue;
    if (id == "quit") break;
    curId = id;
    const std::string src = hexDecode(hsrc);
    diag.clear();
    Parsed p0 = parseAndPrint(src, 0);
    Parsed p1;
    p1.ok = false;
    if (p0.ok) {
      diag += "\n@@reparse@@\n";
      p1 = parseAndPrint(p0.printed, 1);
    }
    std::string a = id + " " + (p0.ok ? "1" : "0") + " " + (p1.ok ? "1" : "0") + " " + hexEncode(p0.printed) + " " +
                    hexEncode(p1.printed) + " " + hexEncode(p0.ser) + " " + hexEncode(p1.ser) + " " +
                    hexEncode(diag.substr(0, 3000));
    ::fputs(a.c_str(), out);
    ::fputc('\n', out);
    ::fflush(out);
  }
  if (cur) { std::ofstream f(cur, std::ios::trunc); f << "-\n"; }
  return 0;
}
