// w_build: ONE kernel build + run per process, through the public OCCA API only (used by C06, C07).
//
//   w_build <request.json>          (or "-" / no argument: the request is read from stdin)
//
// Request (one JSON object, parsed with occa::json exactly like a user's property string would be):
//   "mode"        : "Serial" | "OpenMP"                      device mode                       (required)
//   "device"      : { ... }                                   extra device properties           (optional)
//   "file"        : "/abs/path/kernel.okl"                    -> device.buildKernel(file, kernel, props)
//   "source_file" : "/abs/path/text"                          -> device.buildKernelFromString(<content>, kernel, props)
//                   (exactly one of "file" / "source_file")
//   "kernel"      : "probe"                                   kernel name                       (required)
//   "props"       : { ... }                                   the property JSON given to buildKernel, verbatim
//   "functions"   : { "<name>": {"source": "[=](int a) -> int { return a + 1; }"} , ... }
//                   each source is registered as an int(int) occa function definition in this process and
//                   props["functions/<name>"] is set to its hash, like OCCA_FUNCTION captured into the props;
//                   "functions_raw": { "<name>": "<string>" } sets props["functions/<name>"] to the given string
//                   after resolving the token "@hash:<name2>" to the hash of the registered function <name2>
//   "defines_ref" : { "<name>": "<name2>" }                   props["defines/<name>"] = hash string of function <name2>
//   "nout"        : 16                                         entries of the int output buffer (initialised to -1)
//   "args"        : [1, 2]                                     extra `const int` arguments passed after the buffer
//
// Answer: exactly one line on stdout starting with "RESULT " followed by a JSON object
//   {"ok":true,"out":[...],"hash":"<kernel.hash().getFullString()>","binary":"<kernel.binaryFilename()>",
//    "source":"<kernel.sourceFilename()>","mode":"<device.mode()>","fhash":{"<name>":"<hash>"}}
// exit 0.  A build that raises an occa::exception prints {"ok":false,"error":"..."} and exits 3; any other
// exception exits 4; a malformed request exits 5.  Whether the compiler ran is NOT decided here: the driver puts
// logging wrapper scripts named g++/clang++/gcc/clang first in PATH (lib/v_hypproc.py) and reads their log.
// The cache directory comes from OCCA_CACHE_DIR (set by the driver; ~/.occa is never used).
#include <occa.hpp>
#include <occa/functional/functionDefinition.hpp>

#include <cstdio>
#include <cstdlib>
#include <fstream>
#include <iostream>
#include <map>
#include <sstream>
#include <string>
#include <vector>

static std::string slurp(std::istream &in) {
  std::ostringstream ss;
  ss << in.rdbuf();
  return ss.str();
}

static std::string slurpFile(const std::string &path) {
  std::ifstream in(path.c_str(), std::ios::binary);
  if (!in) {
    std::cerr << "WORKER-ERROR: cannot read " << path << std::endl;
    std::exit(5);
  }
  return slurp(in);
}

static std::string esc(const std::string &s) {
  std::string r;
  char buf[8];
  for (unsigned char c : s) {
    if (c == '"' || c == '\\') { r += '\\'; r += (char) c; }
    else if (c == '\n') r += "\\n";
    else if (c == '\t') r += "\\t";
    else if (c == '\r') r += "\\r";
    else if (c < 0x20) { std::snprintf(buf, sizeof(buf), "\\u%04x", c); r += buf; }
    else r += (char) c;
  }
  return r;
}

int main(int argc, char **argv) {
  std::string reqText;
  if (argc >= 2 && std::string(argv[1]) != "-") {
    reqText = slurpFile(argv[1]);
  } else {
    reqText = slurp(std::cin);
  }

  int exitCode = 0;
  try {
    const occa::json req = occa::json::parse(reqText);
    if (!req.isObject() || !req.has("mode") || !req.has("kernel")) {
      std::cerr << "WORKER-ERROR: request needs mode and kernel" << std::endl;
      return 5;
    }
    const std::string mode   = req.get<std::string>("mode", "Serial");
    const std::string kname  = req.get<std::string>("kernel", "probe");
    const int nout           = req.get<int>("nout", 16);
    occa::json props;
    if (req.has("props")) {
      props = req["props"];
    }

    // functions: register like OCCA_FUNCTION would, hand the hash over through the props
    std::map<std::string, std::string> fhash;
    if (req.has("functions")) {
      const occa::jsonObject &fo = req["functions"].object();
      for (occa::jsonObject::const_iterator it = fo.begin(); it != fo.end(); ++it) {
        const std::string src = it->second.get<std::string>("source", "");
        occa::dtypeVector argTypes;
        argTypes.push_back(occa::dtype::int_);
        occa::functionDefinitionSharedPtr def = occa::functionDefinition::cache(
          occa::scope(), src, occa::dtype::int_, argTypes
        );
        fhash[it->first] = def->hash.getFullString();
        if (!it->second.get<bool>("register_only", false)) {
          props["functions"].asObject();
          props["functions"].set(it->first, fhash[it->first]);
        }
      }
    }
    if (req.has("functions_raw")) {
      const occa::jsonObject &fo = req["functions_raw"].object();
      for (occa::jsonObject::const_iterator it = fo.begin(); it != fo.end(); ++it) {
        std::string v = (std::string) it->second;
        if (v.compare(0, 6, "@hash:") == 0) v = fhash[v.substr(6)];
        props["functions"].asObject();
        props["functions"].set(it->first, v);
      }
    }
    if (req.has("defines_ref")) {
      const occa::jsonObject &fo = req["defines_ref"].object();
      for (occa::jsonObject::const_iterator it = fo.begin(); it != fo.end(); ++it) {
        props["defines"].asObject();
        props["defines"].set(it->first, fhash[(std::string) it->second]);
      }
    }

    occa::json devProps;
    if (req.has("device")) {
      devProps = req["device"];
    }
    devProps["mode"] = mode;
    occa::device device(devProps);

    occa::kernel kernel;
    if (req.has("file")) {
      kernel = device.buildKernel(req.get<std::string>("file", ""), kname, props);
    } else if (req.has("source_file")) {
      const std::string content = slurpFile(req.get<std::string>("source_file", ""));
      kernel = device.buildKernelFromString(content, kname, props);
    } else {
      std::cerr << "WORKER-ERROR: request needs file or source_file" << std::endl;
      return 5;
    }
    if (!kernel.isInitialized()) {
      std::cout << "RESULT {\"ok\":false,\"error\":\"buildKernel returned an uninitialized kernel\"}" << std::endl;
      return 3;
    }

    std::vector<int> host(nout, -1);
    occa::memory o_out = device.malloc<int>(nout, host.data());
    kernel.clearArgs();
    kernel.pushArg(o_out);
    if (req.has("args")) {
      const occa::jsonArray &arr = req["args"].array();
      for (size_t i = 0; i < arr.size(); ++i) {
        kernel.pushArg((int) arr[i]);
      }
    }
    kernel.run();
    device.finish();
    o_out.copyTo(host.data());

    std::ostringstream out;
    out << "RESULT {\"ok\":true,\"out\":[";
    for (int i = 0; i < nout; ++i) out << (i ? "," : "") << host[i];
    out << "],\"hash\":\"" << esc(kernel.hash().getFullString()) << "\""
        << ",\"binary\":\"" << esc(kernel.binaryFilename()) << "\""
        << ",\"source\":\"" << esc(kernel.sourceFilename()) << "\""
        << ",\"mode\":\"" << esc(device.mode()) << "\",\"fhash\":{";
    bool first = true;
    for (auto &kv : fhash) {
      out << (first ? "" : ",") << "\"" << esc(kv.first) << "\":\"" << esc(kv.second) << "\"";
      first = false;
    }
    out << "}}";
    std::cout << out.str() << std::endl;
  } catch (const occa::exception &e) {
    std::cout << "RESULT {\"ok\":false,\"error\":\"" << esc(e.toString()) << "\"}" << std::endl;
    exitCode = 3;
  } catch (const std::exception &e) {
    std::cout << "RESULT {\"ok\":false,\"error\":\"std::exception: " << esc(e.what()) << "\"}" << std::endl;
    exitCode = 4;
  }
  return exitCode;
}
