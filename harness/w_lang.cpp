// w_lang — plain batch worker exposing OCCA's language front end to Python-driven checks (C13, C14).
//
// Protocol (line oriented, one request line -> exactly one response line on stdout):
//   request :  <op> <id> <hex(payload)>\n           op in {ping, preprocess, eval, quit}
//   response:  one JSON object per line, always with "id" and "op"; every string value that can
//              contain arbitrary bytes is hex encoded (keys ending in "_hex").
//     preprocess -> {"id","op","out_hex","errors","warnings","tok_errors","tok_warnings","exc_hex"}
//                   out = emitted tokens separated by one blank, newline tokens as '\n'.
//                   errors/warnings = preprocessor_t::errors/warnings, tok_* = tokenizer_t's,
//                   exc = what() of an occa::exception / std::exception that escaped ("" if none).
//     eval       -> {"id","op","status","type","signed","float","width","bits","text_hex","exc_hex"}
//                   status: "value" | "parse_error" (parser returned NULL) | "empty" |
//                           "cannot_evaluate" | "nan" (evaluate() returned type none) | "exception"
//                   type: bool,int8,...,uint64,float,double ; width = sizeof ; bits = value
//                   zero-extended to 64 bits, 16 hex digits (float/double: IEEE bit pattern).
//   Before a case is executed its id is written to the side file named by $W_LANG_CUR (truncate,
//   write, close) so that a sanitizer abort / signal identifies the crashing case.
//   OCCA diagnostics go to stderr (the driver redirects it to a per-worker log).
#include <cstdint>
#include <cstdio>
#include <cstdlib>
#include <cstring>
#include <iostream>
#include <sstream>
#include <string>
#include <fcntl.h>
#include <unistd.h>

#include <occa/utils/exception.hpp>
#include <occa/internal/utils/env.hpp>
#include <occa/internal/io/output.hpp>
#include <occa/internal/lang/expr.hpp>
#include <occa/internal/lang/preprocessor.hpp>
#include <occa/internal/lang/tokenizer.hpp>
#include <occa/types/primitive.hpp>

using namespace occa;
using namespace occa::lang;

static std::string hexEncode(const std::string &s) {
  static const char *d = "0123456789abcdef";
  std::string r;
  r.reserve(2 * s.size());
  for (unsigned char c : s) { r += d[c >> 4]; r += d[c & 15]; }
  return r;
}

static std::string hexDecode(const std::string &h) {
  std::string r;
  auto v = [](char c) -> int { return (c >= 'a') ? c - 'a' + 10 : c - '0'; };
  for (size_t i = 0; i + 1 < h.size(); i += 2) r += (char) (v(h[i]) * 16 + v(h[i + 1]));
  return r;
}

static const char *curFile = NULL;

static void logCurrent(const std::string &id) {
  if (!curFile) return;
  int fd = ::open(curFile, O_WRONLY | O_CREAT | O_TRUNC, 0644);
  if (fd < 0) return;
  std::string s = id + "\n";
  ssize_t w = ::write(fd, s.data(), s.size());
  (void) w;
  ::close(fd);
}

static std::string doPreprocess(const std::string &id, const std::string &src) {
  std::string out, exc;
  int errors = 0, warnings = 0, tokErrors = 0, tokWarnings = 0;
  try {
    // fresh state for every case
    tokenizer_t tokenizer;
    preprocessor_t preprocessor;
    stream<token_t*> tokenStream = tokenizer.map(preprocessor);
    tokenizer.set(src.c_str());

    std::stringstream ss;
    io::output pout(ss);
    try {
      while (!tokenStream.isEmpty()) {
        token_t *token = NULL;
        tokenStream >> token;
        if (!token) {
          break;
        }
        if (token->type() & tokenType::newline) {
          ss << '\n';
        } else {
          token->print(pout);
          ss << ' ';
        }
        delete token;
      }
    } catch (occa::exception &e) {
      exc = std::string("occa::exception: ") + e.what();
    } catch (std::exception &e) {
      exc = std::string("std::exception: ") + e.what();
    }
    out = ss.str();
    errors = preprocessor.errors;
    warnings = preprocessor.warnings;
    tokErrors = tokenizer.errors;
    tokWarnings = tokenizer.warnings;
  } catch (occa::exception &e) {
    exc = std::string("occa::exception(outer): ") + e.what();
  } catch (std::exception &e) {
    exc = std::string("std::exception(outer): ") + e.what();
  }
  std::ostringstream r;
  r << "{\"id\":\"" << id << "\",\"op\":\"preprocess\",\"out_hex\":\"" << hexEncode(out)
    << "\",\"errors\":" << errors << ",\"warnings\":" << warnings
    << ",\"tok_errors\":" << tokErrors << ",\"tok_warnings\":" << tokWarnings
    << ",\"exc_hex\":\"" << hexEncode(exc) << "\"}";
  return r.str();
}

static const char* typeName(int t) {
  switch (t) {
    case primitiveType::bool_:   return "bool";
    case primitiveType::int8_:   return "int8";
    case primitiveType::uint8_:  return "uint8";
    case primitiveType::int16_:  return "int16";
    case primitiveType::uint16_: return "uint16";
    case primitiveType::int32_:  return "int32";
    case primitiveType::uint32_: return "uint32";
    case primitiveType::int64_:  return "int64";
    case primitiveType::uint64_: return "uint64";
    case primitiveType::float_:  return "float";
    case primitiveType::double_: return "double";
    case primitiveType::ptr:     return "ptr";
    default:                     return "none";
  }
}

static std::string doEval(const std::string &id, const std::string &text) {
  std::string status = "value", exc, tname = "none", valueText;
  int isSigned = 0, isFloat = 0;
  unsigned width = 0;
  uint64_t bits = 0;
  try {
    tokenVector tokens = tokenizer_t::tokenize(text);
    exprNode *expr = expressionParser::parse(tokens);   // takes ownership of the tokens
    if (!expr) {
      status = "parse_error";
    } else if (expr->type() & exprNodeType::empty) {
      status = "empty";
      delete expr;
    } else if (!expr->canEvaluate()) {
      status = "cannot_evaluate";
      delete expr;
    } else {
      primitive v;
      try {
        v = expr->evaluate();
      } catch (...) {
        delete expr;
        throw;
      }
      delete expr;
      tname = typeName(v.type);
      switch (v.type) {
        case primitiveType::bool_:   bits = v.value.bool_ ? 1 : 0; width = sizeof(bool); break;
        case primitiveType::int8_:   bits = (uint8_t)  v.value.int8_;   width = 1; isSigned = 1; break;
        case primitiveType::uint8_:  bits = v.value.uint8_;             width = 1; break;
        case primitiveType::int16_:  bits = (uint16_t) v.value.int16_;  width = 2; isSigned = 1; break;
        case primitiveType::uint16_: bits = v.value.uint16_;            width = 2; break;
        case primitiveType::int32_:  bits = (uint32_t) v.value.int32_;  width = 4; isSigned = 1; break;
        case primitiveType::uint32_: bits = v.value.uint32_;            width = 4; break;
        case primitiveType::int64_:  bits = (uint64_t) v.value.int64_;  width = 8; isSigned = 1; break;
        case primitiveType::uint64_: bits = v.value.uint64_;            width = 8; break;
        case primitiveType::float_: {
          uint32_t b; ::memcpy(&b, &v.value.float_, 4); bits = b; width = 4; isSigned = 1; isFloat = 1; break;
        }
        case primitiveType::double_: {
          ::memcpy(&bits, &v.value.double_, 8); width = 8; isSigned = 1; isFloat = 1; break;
        }
        default: status = "nan"; break;
      }
    }
  } catch (occa::exception &e) {
    status = "exception";
    exc = e.what();
  } catch (std::exception &e) {
    status = "exception";
    exc = std::string("std::exception: ") + e.what();
  }
  char hb[32];
  snprintf(hb, sizeof(hb), "%016llx", (unsigned long long) bits);
  std::ostringstream r;
  r << "{\"id\":\"" << id << "\",\"op\":\"eval\",\"status\":\"" << status << "\",\"type\":\"" << tname
    << "\",\"signed\":" << isSigned << ",\"float\":" << isFloat << ",\"width\":" << width
    << ",\"bits\":\"" << hb << "\",\"exc_hex\":\"" << hexEncode(exc) << "\"}";
  return r.str();
}

int main(int argc, char **argv) {
  curFile = ::getenv("W_LANG_CUR");
  // OCCA prints some diagnostics (expressionState::debugPrint) to stdout: keep the protocol channel private
  int outfd = ::dup(1);
  ::dup2(2, 1);
  FILE *out = ::fdopen(outfd, "w");
  if (!out) return 3;
  std::string line;
  while (std::getline(std::cin, line)) {
    if (line.empty()) continue;
    std::istringstream ls(line);
    std::string op, id, hex;
    ls >> op >> id >> hex;
    // ids are restricted to [A-Za-z0-9_.:-] by the driver; enforce it so the JSON stays well formed
    for (char &c : id) {
      if (!(isalnum((unsigned char) c) || c == '_' || c == '.' || c == ':' || c == '-')) c = '_';
    }
    if (op == "quit") break;
    std::string resp;
    if (op == "ping") {
      resp = "{\"id\":\"" + id + "\",\"op\":\"ping\"}";
    } else if (op == "preprocess") {
      logCurrent(id);
      resp = doPreprocess(id, hexDecode(hex));
    } else if (op == "eval") {
      logCurrent(id);
      resp = doEval(id, hexDecode(hex));
    } else {
      resp = "{\"id\":\"" + id + "\",\"op\":\"unknown\"}";
    }
    ::fputs(resp.c_str(), out);
    ::fputc('\n', out);
    ::fflush(out);
  }
  logCurrent("-");
  return 0;
}
