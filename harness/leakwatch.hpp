// Per-case leak attribution for rapidcheck harnesses (used by C11 and C29).
//
// LeakSanitizer's recoverable check is exact but costs a stop-the-world scan, far too slow to run
// after every case.  The ASan allocator's live-byte counter is nearly free, so a case is first
// screened with it: the case runs with a private Ctx whose contents are parked in a static buffer
// (no heap) while the counter is read; only if the live heap grew during the case is the real
// LeakSanitizer check run.  Lazily initialised library statics make the heap grow a few times per
// process; those calls just return "no leak".
#pragma once
#include "common.hpp"
#include <sanitizer/allocator_interface.h>
#include <sanitizer/lsan_interface.h>

namespace vf {
  inline RunFn leakWatched(bool (*runCase)(const Case&, Ctx&), const char *what) {
    return [runCase, what](const Case &c, Ctx &ctx) -> bool {
      static char park[1 << 16];
      size_t used = 0;
      bool ok = false, nontrivial = false, truncated = false;
      const size_t before = __sanitizer_get_current_allocated_bytes();
      {
        Ctx inner;
        ok = runCase(c, inner);
        nontrivial = inner.nontrivial;
        auto put = [&](const std::string &s) {
          if (used + s.size() + 1 > sizeof(park)) { truncated = true; return; }
          memcpy(park + used, s.c_str(), s.size() + 1);
          used += s.size() + 1;
        };
        put(inner.why);
        for (auto &k : inner.classes) put(k);
      }
      const size_t after = __sanitizer_get_current_allocated_bytes();
      // un-park
      size_t pos = 0;
      bool first = true;
      while (pos < used) {
        std::string s(park + pos);
        pos += s.size() + 1;
        if (first) { ctx.why = s; first = false; } else ctx.classes.insert(s);
      }
      ctx.nontrivial = nontrivial;
      (void) truncated;
      if (ok && after > before && __lsan_do_recoverable_leak_check())
        return ctx.fail(std::string("LeakSanitizer: ") + what + " (stack in the log)");
      return ok;
    };
  }
}
