// C23 — functional arrays, ranges and forLoop match sequential semantics (JIT on Serial and OpenMP).
//
// A case is one object (an occa::array<T>, an occa::range or an occa::forLoop) plus a list of operations
// from a fixed menu of OCCA_FUNCTIONs (they are compile-time strings).  The generator varies mode, element type,
// length, contents, tile size, tile iteration count, range start/end/step and the loop nest; the oracle is the
// sequential std:: computation on a host copy.  All data are small integers (floats are multiples of 1/4), so every
// result — sums included — is exact and independent of the evaluation order: comparisons are exact.
#include "common.hpp"
#include <occa.hpp>
#include <occa/functional.hpp>
#include <algorithm>
#include <numeric>
#include <cmath>

using namespace vf;
using int2 = occa::int2;
using int3 = occa::int3;

enum {
  A_SETUP = 0, A_DATA, A_MAP, A_MAPTO, A_FOREACH, A_EVERY, A_SOME, A_FIND, A_REDUCE, A_MINMAX, A_SLICE, A_CONCAT,
  A_FILL, A_DOT, A_HELPER, A_SETTILE,
  R_SETUP = 20, R_LEN, R_MAP, R_MAPTO, R_EVERY, R_SOME, R_FIND, R_FOREACH, R_REDUCE,
  F_SETUP = 30, F_ITER
};

static occa::device& device(int mode) {
  static occa::device dev[2];
  mode = (mode & 1);
  if (mode == 1 && !occa::modeIsEnabled("OpenMP")) mode = 0;
  if (!dev[mode].isInitialized()) {
    occa::json p;
    p["mode"] = mode ? "OpenMP" : "Serial";
    p["kernel/compiler_flags"] = "-O0";
    dev[mode] = occa::device(p);
  }
  return dev[mode];
}

static ll arg(const Op &o, size_t i, ll d = 0) { return i < o.a.size() ? o.a[i] : d; }
static ll clampll(ll v, ll lo, ll hi) { return v < lo ? lo : v > hi ? hi : v; }
static ll modp(ll v, ll m) { return ((v % m) + m) % m; }

template <class T> static T val(ll v) { return (T) v; }
template <> float val<float>(ll v) { return (float) v * 0.25f; }
template <> double val<double>(ll v) { return (double) v * 0.25; }

template <class T> static const char* tname();
template <> const char* tname<int>() { return "int"; }
template <> const char* tname<float>() { return "float"; }
template <> const char* tname<double>() { return "double"; }

template <class V>
static std::string show(const std::vector<V> &v) {
  std::ostringstream ss;
  ss << "[";
  for (size_t i = 0; i < v.size(); ++i) ss << (i ? " " : "") << v[i];
  ss << "]";
  return ss.str();
}

template <class V>
static std::vector<V> download(const occa::array<V> &a) {
  std::vector<V> r(a.length());
  if (r.size()) a.copyTo(r.data());
  return r;
}

template <class V>
static occa::array<V> upload(occa::device dev, const std::vector<V> &h, int how = 0) {
  if (how & 1) {
    occa::memory m = dev.malloc<V>((occa::dim_t) h.size(), h.data());
    return occa::array<V>(m);
  }
  occa::array<V> a(dev, (occa::dim_t) h.size());
  if (h.size()) a.copyFrom(h.data());
  return a;
}

struct Tile { int ts = 0, k = 0; };   // 0 = not given
template <class A> static void applyTile(A &a, const Tile &t) {
  if (t.ts <= 0) return;
  if (t.k <= 0) a.setTileSize(t.ts); else a.setTileSize(t.ts, t.k);
}

static void tileClasses(Ctx &ctx, const Tile &t, size_t n) {
  const int ts = t.ts > 0 ? t.ts : 1, k = t.k > 0 ? t.k : 1;
  if (t.ts > 0) ctx.cls(t.k > 0 ? "setTileSize(s,k)" : "setTileSize(s)");
  if (k > 1) { ctx.cls("tile-iterations>1"); ctx.nontrivial = true; }
  if (t.ts > 0 && n % (size_t) (ts * k) != 0) { ctx.cls("length%tile!=0"); ctx.nontrivial = true; }
  if (n <= 1) { ctx.cls(n ? "length=1" : "length=0"); ctx.nontrivial = true; }
}

#define FAILF(msg) do { std::ostringstream _w; _w << msg; return ctx.fail(_w.str()); } while (0)

template <class V>
static bool sameVec(const std::vector<V> &got, const std::vector<V> &exp) { return got == exp; }

// ------------------------------------------------------------------------------------------------
// arrays
// ------------------------------------------------------------------------------------------------
template <class T>
static bool arrayOp(const Op &o, occa::device dev, occa::array<T> &a, std::vector<T> &h, Tile &tile, Ctx &ctx,
                    const std::string &where) {
  const int n = (int) h.size();
  const char *tn = tname<T>();
  switch (o.k) {
  case A_SETTILE: {
    tile.ts = (int) clampll(arg(o, 0), 0, 64); tile.k = (int) clampll(arg(o, 1), 0, 4);
    applyTile(a, tile);
    tileClasses(ctx, tile, h.size());
    return true;
  }
  case A_MAP: {
    const int fn = (int) modp(arg(o, 0), 5);
    ctx.cls("map");
    if (fn == 0) {
      occa::array<T> r = a.template map<T>(OCCA_FUNCTION([=](const T &v) -> T { return v * 2 + 1; }));
      std::vector<T> e(n); for (int i = 0; i < n; ++i) e[i] = h[i] * 2 + 1;
      if (!sameVec(download(r), e)) FAILF(where << "map(v*2+1) on " << tn << show(h) << " = " << show(download(r)) << ", expected " << show(e));
    } else if (fn == 1) {
      occa::array<T> r = a.template map<T>(OCCA_FUNCTION([=](const T &v, const int index) -> T { return v + index; }));
      std::vector<T> e(n); for (int i = 0; i < n; ++i) e[i] = h[i] + i;
      if (!sameVec(download(r), e)) FAILF(where << "map(v+index) on " << tn << show(h) << " = " << show(download(r)) << ", expected " << show(e));
    } else if (fn == 2) {
      occa::array<T> r = a.template map<T>(OCCA_FUNCTION([=](const T &v, const int index, const T *values) -> T { return values[0] + v - index; }));
      std::vector<T> e(n); for (int i = 0; i < n; ++i) e[i] = h[0] + h[i] - i;
      if (!sameVec(download(r), e)) FAILF(where << "map(values[0]+v-index) on " << tn << show(h) << " = " << show(download(r)) << ", expected " << show(e));
    } else if (fn == 3) {
      occa::array<double> r = a.template map<double>(OCCA_FUNCTION([=](const T &v) -> double { return v * 0.5; }));
      std::vector<double> e(n); for (int i = 0; i < n; ++i) e[i] = h[i] * 0.5;
      if (!sameVec(download(r), e)) FAILF(where << "map<double>(v*0.5) on " << tn << show(h) << " = " << show(download(r)) << ", expected " << show(e));
    } else {
      const T thr = val<T>(arg(o, 1));
      occa::scope sc({{"thr", thr}});
      occa::array<int> r = a.template map<int>(OCCA_FUNCTION(sc, [=](const T &v) -> int { return v > thr ? 1 : 0; }));
      std::vector<int> e(n); for (int i = 0; i < n; ++i) e[i] = h[i] > thr ? 1 : 0;
      if (!sameVec(download(r), e)) FAILF(where << "map<int>(v>" << thr << ") on " << tn << show(h) << " = " << show(download(r)) << ", expected " << show(e));
    }
    return true;
  }
  case A_MAPTO: {
    const int fn = (int) modp(arg(o, 0), 3);
    int outLen = (int) clampll(arg(o, 1), 1, 80);
    if (fn == 2) outLen = n;   // this overload does not resize the output
    ctx.cls(outLen == n ? "mapTo(same length)" : outLen < n ? "mapTo(shorter output)" : "mapTo(longer output)");
    std::vector<T> pre(outLen, val<T>(-77));
    occa::array<T> out = upload(dev, pre);
    std::vector<T> e(n);
    occa::array<T> r;
    const char *fnName;
    if (fn == 0) {
      fnName = "v*3-1";
      r = a.template mapTo<T>(out, OCCA_FUNCTION([=](const T &v) -> T { return v * 3 - 1; }));
      for (int i = 0; i < n; ++i) e[i] = h[i] * 3 - 1;
    } else if (fn == 1) {
      fnName = "v-index";
      r = a.template mapTo<T>(out, OCCA_FUNCTION([=](const T &v, const int index) -> T { return v - index; }));
      for (int i = 0; i < n; ++i) e[i] = h[i] - i;
    } else {
      fnName = "values[index]+index";
      r = a.template mapTo<T>(out, OCCA_FUNCTION([=](const T &v, const int index, const T *values) -> T { return values[index] + index; }));
      for (int i = 0; i < n; ++i) e[i] = h[i] + i;
    }
    if (!sameVec(download(out), e) || !sameVec(download(r), e))
      FAILF(where << "mapTo(" << fnName << ") on " << tn << show(h) << " into an array of length " << outLen << ": output = "
            << show(download(out)) << ", returned " << show(download(r)) << ", expected " << show(e));
    return true;
  }
  case A_FOREACH: {
    const int fn = (int) modp(arg(o, 0), 3);
    ctx.cls("forEach");
    if (fn == 0) {
      const T thr = val<T>(arg(o, 1));
      std::vector<int> z(1, 0);
      occa::array<int> flagA = upload(dev, z);
      int *flag = NULL; (void) flag;
      occa::scope sc({{"flag", flagA.memory()}, {"thr", thr}});
      a.forEach(OCCA_FUNCTION(sc, [=](const T &v) -> void { if (v == thr) { flag[0] = 1; } }));
      const int e = std::count(h.begin(), h.end(), thr) ? 1 : 0;
      if (download(flagA)[0] != e) FAILF(where << "forEach(flag if v==" << thr << ") on " << tn << show(h) << " set flag " << download(flagA)[0] << ", expected " << e);
    } else {
      std::vector<T> pre(n, val<T>(-77));
      occa::array<T> outA = upload(dev, pre);
      T *out = NULL; (void) out;
      occa::scope sc({{"out", outA.memory()}});
      std::vector<T> e(n);
      if (fn == 1) {
        a.forEach(OCCA_FUNCTION(sc, [=](const T &v, const int index) -> void { out[index] = v * 3; }));
        for (int i = 0; i < n; ++i) e[i] = h[i] * 3;
      } else {
        a.forEach(OCCA_FUNCTION(sc, [=](const T &v, const int index, const T *values) -> void { out[index] = values[index] + index; }));
        for (int i = 0; i < n; ++i) e[i] = h[i] + i;
      }
      if (!sameVec(download(outA), e)) FAILF(where << "forEach(out[index]=..., variant " << fn << ") on " << tn << show(h) << " wrote " << show(download(outA)) << ", expected " << show(e));
    }
    return true;
  }
  case A_EVERY: case A_SOME: case A_FIND: {
    const int fn = (int) modp(arg(o, 0), 3);
    std::vector<int> match(n, 0);
    bool got = false; int gotIdx = -2;
    std::ostringstream pred;
    if (fn == 0) {
      const T thr = val<T>(arg(o, 1));
      pred << "v>" << thr;
      for (int i = 0; i < n; ++i) match[i] = h[i] > thr;
      occa::scope sc({{"thr", thr}});
      auto f = OCCA_FUNCTION(sc, [=](const T &v) -> bool { return v > thr; });
      if (o.k == A_EVERY) got = a.every(f); else if (o.k == A_SOME) got = a.some(f); else gotIdx = a.findIndex(f);
    } else if (fn == 1) {
      const int thr = (int) arg(o, 1);
      pred << "index<" << thr;
      for (int i = 0; i < n; ++i) match[i] = i < thr;
      occa::scope sc({{"thr", thr}});
      auto f = OCCA_FUNCTION(sc, [=](const T &v, const int index) -> bool { return index < thr; });
      if (o.k == A_EVERY) got = a.every(f); else if (o.k == A_SOME) got = a.some(f); else gotIdx = a.findIndex(f);
    } else {
      const T thr = val<T>(arg(o, 1));
      pred << "values[index]==" << thr;
      for (int i = 0; i < n; ++i) match[i] = h[i] == thr;
      occa::scope sc({{"thr", thr}});
      auto f = OCCA_FUNCTION(sc, [=](const T &v, const int index, const T *values) -> bool { return values[index] == thr; });
      if (o.k == A_EVERY) got = a.every(f); else if (o.k == A_SOME) got = a.some(f); else gotIdx = a.findIndex(f);
    }
    const int matches = (int) std::count(match.begin(), match.end(), 1);
    const int first = (int) (std::find(match.begin(), match.end(), 1) - match.begin());
    if (o.k == A_EVERY) {
      ctx.cls("every");
      if (got != (matches == n)) FAILF(where << "every(" << pred.str() << ") on " << tn << show(h) << " = " << got << ", std::all_of = " << (matches == n));
    } else if (o.k == A_SOME) {
      ctx.cls("some");
      if (got != (matches > 0)) FAILF(where << "some(" << pred.str() << ") on " << tn << show(h) << " = " << got << ", std::any_of = " << (matches > 0));
    } else {
      ctx.cls(matches >= 2 ? "findIndex(several matches)" : "findIndex(<=1 match)");
      const int e = matches ? first : -1;
      if (matches >= 2 && known()("findindex-not-first")) {
        // known finding: the kernel stores every matching index, so the last writer wins; behind it, still require a match
        if (gotIdx < 0 || gotIdx >= n || !match[gotIdx]) FAILF(where << "findIndex(" << pred.str() << ") on " << tn << show(h) << " = " << gotIdx << " which does not satisfy the predicate");
      } else if (gotIdx != e) {
        FAILF(where << "findIndex(" << pred.str() << ") on " << tn << show(h) << " = " << gotIdx << ", std::find_if gives " << e);
      }
    }
    return true;
  }
  case A_MINMAX: {
    if (!n) return true;
    ctx.cls("min/max");
    const T mn = a.min(), mx = a.max();
    const T emn = *std::min_element(h.begin(), h.end()), emx = *std::max_element(h.begin(), h.end());
    if (mn != emn || mx != emx) FAILF(where << "min()/max() on " << tn << show(h) << " = " << mn << "/" << mx << ", expected " << emn << "/" << emx);
    return true;
  }
  case A_FILL: {
    const T v = val<T>(arg(o, 0));
    ctx.cls("fill");
    occa::array<T> r = a.fill(v);
    std::fill(h.begin(), h.end(), v);
    if (!sameVec(download(a), h) || !sameVec(download(r), h)) FAILF(where << "fill(" << v << ") left " << show(download(a)) << " (returned " << show(download(r)) << ")");
    return true;
  }
  case A_DOT: {
    const int k = (int) modp(arg(o, 0), 7) + 1;
    ctx.cls("dotProduct");
    std::vector<T> oh(n);
    for (int i = 0; i < n; ++i) oh[i] = val<T>(((i * k) % 5) - 2);
    if (!n) return true;
    occa::array<T> other = upload(dev, oh);
    const T got = a.dotProduct(other);
    T e = 0; for (int i = 0; i < n; ++i) e += h[i] * oh[i];
    if (got != e) FAILF(where << "dotProduct of " << tn << show(h) << " and " << show(oh) << " = " << got << ", std::inner_product = " << e);
    return true;
  }
  case A_SLICE: {
    if (n < 1) return true;
    const int off = (int) modp(arg(o, 0), n);
    const ll cw = arg(o, 1);
    const int count = cw < 0 ? -1 : (int) (1 + modp(cw, n - off));
    ctx.cls(count < 0 ? "slice(offset)" : "slice(offset,count)");
    occa::array<T> s = count < 0 ? a.slice(off) : a.slice(off, count);
    std::vector<T> e(h.begin() + off, count < 0 ? h.end() : h.begin() + off + count);
    if (!sameVec(download(s), e)) FAILF(where << "slice(" << off << "," << count << ") of " << tn << show(h) << " = " << show(download(s)) << ", expected " << show(e));
    a = s; h = e;            // later operations work on the slice (an offset view of the same buffer)
    applyTile(a, tile);
    return true;
  }
  case A_CONCAT: {
    std::vector<T> oh;
    for (size_t i = 0; i < o.a.size() && i < 40; ++i) oh.push_back(val<T>(clampll(o.a[i], -9, 9)));
    if (oh.empty()) oh.push_back(val<T>(5));
    ctx.cls("concat");
    occa::array<T> other = upload(dev, oh);
    occa::array<T> c = a.concat(other);
    std::vector<T> e = h; e.insert(e.end(), oh.begin(), oh.end());
    if (!sameVec(download(c), e)) FAILF(where << "concat of " << tn << show(h) << " and " << show(oh) << " = " << show(download(c)));
    if (!sameVec(download(a), h)) FAILF(where << "concat changed its left operand: " << show(download(a)) << ", was " << show(h));
    a = c; h = e;
    applyTile(a, tile);
    return true;
  }
  case A_HELPER: {
    const int which = (int) modp(arg(o, 0), 12);
    const ll p1 = arg(o, 1), p2 = arg(o, 2);
    switch (which) {
    case 0: {
      const T t = val<T>(p1); ctx.cls("includes");
      const bool got = a.includes(t), e = std::find(h.begin(), h.end(), t) != h.end();
      if (got != e) FAILF(where << "includes(" << t << ") on " << tn << show(h) << " = " << got << ", expected " << e);
      break;
    }
    case 1: {
      const T t = val<T>(p1); ctx.cls("indexOf");
      const ll got = a.indexOf(t);
      auto it = std::find(h.begin(), h.end(), t);
      const ll e = it == h.end() ? -1 : (ll) (it - h.begin());
      if (got != e) FAILF(where << "indexOf(" << t << ") on " << tn << show(h) << " = " << got << ", std::find gives " << e);
      break;
    }
    case 2: {
      const T t = val<T>(p1); ctx.cls("lastIndexOf");
      const ll got = a.lastIndexOf(t);
      ll e = -1; for (int i = 0; i < n; ++i) if (h[i] == t) e = i;
      if (got != e) FAILF(where << "lastIndexOf(" << t << ") on " << tn << show(h) << " = " << got << ", expected " << e);
      break;
    }
    case 3: {
      ctx.cls("reverse");
      std::vector<T> e(h.rbegin(), h.rend());
      std::vector<T> got = download(a.reverse());
      if (got != e) FAILF(where << "reverse() of " << tn << show(h) << " = " << show(got));
      break;
    }
    case 4: case 5: {
      const int off = (int) modp(p1, n + 2); const T ev = val<T>(p2);
      ctx.cls(which == 4 ? "shiftLeft" : "shiftRight");
      std::vector<T> e(n, ev);
      for (int i = 0; i < n; ++i) {
        if (which == 4) { if (i < n - off) e[i] = h[i + off]; }
        else { if (i >= off) e[i] = h[i - off]; }
      }
      std::vector<T> got = download(which == 4 ? a.shiftLeft(off, ev) : a.shiftRight(off, ev));
      if (got != e) FAILF(where << (which == 4 ? "shiftLeft(" : "shiftRight(") << off << "," << ev << ") of " << tn << show(h) << " = " << show(got) << ", expected " << show(e));
      break;
    }
    case 6: case 7: case 8: {
      T lo = val<T>(std::min(p1, p2)), hi = val<T>(std::max(p1, p2));
      ctx.cls("clamp");
      std::vector<T> e(n), got;
      for (int i = 0; i < n; ++i) {
        if (which == 6) e[i] = std::min(std::max(h[i], lo), hi);
        else if (which == 7) e[i] = std::max(h[i], lo);
        else e[i] = std::min(h[i], hi);
      }
      got = download(which == 6 ? a.clamp(lo, hi) : which == 7 ? a.clampMin(lo) : a.clampMax(hi));
      if (got != e) FAILF(where << "clamp variant " << which << " (" << lo << "," << hi << ") of " << tn << show(h) << " = " << show(got) << ", expected " << show(e));
      break;
    }
    case 9: {
      ctx.cls("cast");
      std::vector<double> e(n); for (int i = 0; i < n; ++i) e[i] = (double) h[i];
      std::vector<double> got = download(a.template cast<double>());
      if (got != e) FAILF(where << "cast<double>() of " << tn << show(h) << " = " << show(got));
      std::vector<int> ei(n); for (int i = 0; i < n; ++i) ei[i] = (int) h[i];
      std::vector<int> goti = download(a.template cast<int>());
      if (goti != ei) FAILF(where << "cast<int>() of " << tn << show(h) << " = " << show(goti) << ", expected " << show(ei));
      break;
    }
    case 10: {
      ctx.cls("clone");
      occa::array<T> c = a.clone();
      if (download(c) != h) FAILF(where << "clone() of " << tn << show(h) << " = " << show(download(c)));
      break;
    }
    default: {
      if (!n) break;
      ctx.cls("operator[]");
      const int i = (int) modp(p1, n);
      const T got = a[i];
      if (got != h[i]) FAILF(where << "a[" << i << "] of " << tn << show(h) << " = " << got);
      break;
    }}
    return true;
  }
  default:
    return true;
  }
}

// reductions: a fixed menu of (reduction type, result type, function, initial value) recipes
template <class T>
static bool arrayReduce(const Op &o, occa::array<T> &a, const std::vector<T> &h, Ctx &ctx, const std::string &where) {
  const int n = (int) h.size();
  const bool isInt = std::is_same<T, int>::value;
  int r = (int) modp(arg(o, 0), 19);
  if (!isInt && (r == 2 || r == 3 || r == 4 || r == 5 || r == 6 || r == 18)) r = (r % 2) ? 7 : 0;   // no bit/bool reductions on floats
  const ll p = arg(o, 1);
  std::ostringstream what, gotS, expS;
  using occa::reductionType;
#define REPORT(name, got, exp) do { if ((got) != (exp)) FAILF(where << "reduce " << name << " on " << tname<T>() << show(h) << " = " << (got) << ", sequential std:: computation = " << (exp)); } while (0)
  switch (r) {
  case 0: {
    ctx.cls("reduce:sum");
    const T got = a.template reduce<T>(reductionType::sum, OCCA_FUNCTION([=](const T &acc, const T &v) -> T { return acc + v; }));
    REPORT("sum(acc+v)", got, std::accumulate(h.begin(), h.end(), (T) 0));
    break;
  }
  case 1: {
    // exact only while no partial product can overflow (int) or lose mantissa bits (floats are multiples of 1/4)
    long double mag = 1;
    bool zero = false;
    for (int i = 0; i < n; ++i) {
      const long double m = std::fabs((long double) h[i]) * (isInt ? 1 : 4);
      if (m == 0) zero = true; else mag *= m;
      if (mag > 4e6L) break;
    }
    if (mag > (isInt ? 1e6L : 4e6L) || (isInt && zero && mag > 3e4L)) { ctx.cls("reduce:multiply(skipped, not exact)"); return true; }
    T e = 1;
    for (int i = 0; i < n; ++i) e *= h[i];
    ctx.cls("reduce:multiply");
    const T got = a.template reduce<T>(reductionType::multiply, OCCA_FUNCTION([=](const T &acc, const T &v) -> T { return acc * v; }));
    REPORT("multiply(acc*v)", got, e);
    break;
  }
  case 7: case 8: {
    if (!n) return true;
    ctx.cls(r == 7 ? "reduce:min" : "reduce:max");
    if (r == 7) {
      const T got = a.template reduce<T>(reductionType::min, OCCA_FUNCTION([=](const T &acc, const T &v) -> T { return acc < v ? acc : v; }));
      REPORT("min", got, *std::min_element(h.begin(), h.end()));
    } else {
      const T got = a.template reduce<T>(reductionType::max, OCCA_FUNCTION([=](const T &acc, const T &v) -> T { return acc > v ? acc : v; }));
      REPORT("max", got, *std::max_element(h.begin(), h.end()));
    }
    break;
  }
  case 9: {
    const T thr = val<T>(p);
    ctx.cls("reduce:sum<int>(count)");
    occa::scope sc({{"thr", thr}});
    const int got = a.template reduce<int>(reductionType::sum, OCCA_FUNCTION(sc, [=](const int &acc, const T &v) -> int { return acc + (v > thr ? 1 : 0); }));
    int e = 0; for (int i = 0; i < n; ++i) e += h[i] > thr;
    REPORT("sum<int>(acc+(v>" << thr << "))", got, e);
    break;
  }
  case 10: {
    ctx.cls("reduce:sum<double>");
    const double got = a.template reduce<double>(reductionType::sum, OCCA_FUNCTION([=](const double &acc, const T &v) -> double { return acc + v * 0.5; }));
    double e = 0; for (int i = 0; i < n; ++i) e += h[i] * 0.5;
    REPORT("sum<double>(acc+v*0.5)", got, e);
    break;
  }
  case 11: {
    ctx.cls("reduce:sum(index)");
    const T got = a.template reduce<T>(reductionType::sum, OCCA_FUNCTION([=](const T &acc, const T &v, const int index) -> T { return acc + v * index; }));
    T e = 0; for (int i = 0; i < n; ++i) e += h[i] * i;
    REPORT("sum(acc+v*index)", got, e);
    break;
  }
  case 12: {
    ctx.cls("reduce:sum(values)");
    const T got = a.template reduce<T>(reductionType::sum, OCCA_FUNCTION([=](const T &acc, const T &v, const int index, const T *values) -> T { return acc + values[index]; }));
    REPORT("sum(acc+values[index])", got, std::accumulate(h.begin(), h.end(), (T) 0));
    break;
  }
  case 13: {
    const T thr = val<T>(p);
    ctx.cls("reduce:min<int>(init=length)");
    occa::scope sc({{"thr", thr}});
    const int got = a.template reduce<int>(reductionType::min, n, OCCA_FUNCTION(sc, [=](const int &acc, const T &v, const int index) -> int {
      if ((v != thr) || (acc <= index)) { return acc; }
      return index;
    }));
    const int e = (int) (std::find(h.begin(), h.end(), thr) - h.begin());
    REPORT("min<int>(init " << n << ", first index of " << thr << ")", got, e);
    break;
  }
  case 14: {
    const T init = val<T>(p);
    ctx.cls("reduce:max(init)");
    const T got = a.template reduce<T>(reductionType::max, init, OCCA_FUNCTION([=](const T &acc, const T &v) -> T { return acc > v ? acc : v; }));
    T e = init; for (int i = 0; i < n; ++i) e = std::max(e, h[i]);
    REPORT("max(init " << init << ")", got, e);
    break;
  }
  case 15: case 16: {
    const T thr = val<T>(p);
    occa::scope sc({{"thr", thr}});
    if (r == 15) {
      ctx.cls("reduce:boolOr<bool>(init)");
      const bool got = a.template reduce<bool>(reductionType::boolOr, false, OCCA_FUNCTION(sc, [=](const bool &acc, const T &v) -> bool { return acc || (v > thr); }));
      bool e = false; for (int i = 0; i < n; ++i) e = e || (h[i] > thr);
      REPORT("boolOr<bool>(init false, acc||(v>" << thr << "))", got, e);
    } else {
      ctx.cls("reduce:boolAnd<bool>(init)");
      const bool got = a.template reduce<bool>(reductionType::boolAnd, true, OCCA_FUNCTION(sc, [=](const bool &acc, const T &v) -> bool { return acc && (v > thr); }));
      bool e = true; for (int i = 0; i < n; ++i) e = e && (h[i] > thr);
      REPORT("boolAnd<bool>(init true, acc&&(v>" << thr << "))", got, e);
    }
    break;
  }
  case 17: {
    ctx.cls("reduce:sum(init 0)");
    const T got = a.template reduce<T>(reductionType::sum, (T) 0, OCCA_FUNCTION([=](const T &acc, const T &v) -> T { return acc + v; }));
    REPORT("sum(init 0)", got, std::accumulate(h.begin(), h.end(), (T) 0));
    break;
  }
  default:
    break;
  }
#undef REPORT
  return true;
}

// the bit / bool reductions exist for integer arrays only
static bool intReduce(const Op &o, occa::array<int> &a, const std::vector<int> &h, Ctx &ctx, const std::string &where) {
  const int n = (int) h.size();
  const int r = (int) modp(arg(o, 0), 19);
  const ll p = arg(o, 1);
  using occa::reductionType;
#define REPORT(name, got, exp) do { if ((got) != (exp)) FAILF(where << "reduce " << name << " on int" << show(h) << " = " << (got) << ", sequential std:: computation = " << (exp)); } while (0)
  switch (r) {
  case 2: {
    ctx.cls("reduce:bitOr");
    const int got = a.reduce<int>(reductionType::bitOr, OCCA_FUNCTION([=](const int &acc, const int &v) -> int { return acc | v; }));
    int e = 0; for (int v : h) e |= v;
    REPORT("bitOr", got, e);
    break;
  }
  case 3: {
    if (!n) return true;
    ctx.cls("reduce:bitAnd");
    const int got = a.reduce<int>(reductionType::bitAnd, OCCA_FUNCTION([=](const int &acc, const int &v) -> int { return acc & v; }));
    int e = ~0; for (int v : h) e &= v;
    REPORT("bitAnd", got, e);
    break;
  }
  case 4: {
    ctx.cls("reduce:bitXor");
    const int got = a.reduce<int>(reductionType::bitXor, OCCA_FUNCTION([=](const int &acc, const int &v) -> int { return acc ^ v; }));
    int e = 0; for (int v : h) e ^= v;
    REPORT("bitXor", got, e);
    break;
  }
  case 5: {
    ctx.cls("reduce:boolOr<bool>");
    const bool got = a.reduce<bool>(reductionType::boolOr, OCCA_FUNCTION([=](const bool &acc, const int &v) -> bool { return acc || v; }));
    bool e = false; for (int v : h) e = e || v;
    REPORT("boolOr<bool>(acc||v)", got, e);
    break;
  }
  case 6: {
    if (!n) return true;
    ctx.cls("reduce:boolAnd<bool>");
    const bool got = a.reduce<bool>(reductionType::boolAnd, OCCA_FUNCTION([=](const bool &acc, const int &v) -> bool { return acc && v; }));
    bool e = true; for (int v : h) e = e && v;
    REPORT("boolAnd<bool>(acc&&v)", got, e);
    break;
  }
  case 18: {
    const int init = (int) clampll(p, 0, 64);
    ctx.cls("reduce:bitOr(init)");
    const int got = a.reduce<int>(reductionType::bitOr, init, OCCA_FUNCTION([=](const int &acc, const int &v) -> int { return acc | v; }));
    int e = init; for (int v : h) e |= v;
    REPORT("bitOr(init " << init << ")", got, e);
    break;
  }
  default:
    return arrayReduce<int>(o, a, h, ctx, where);
  }
#undef REPORT
  return true;
}

template <class T> static bool reduceDispatch(const Op &o, occa::array<T> &a, const std::vector<T> &h, Ctx &ctx, const std::string &w) { return arrayReduce<T>(o, a, h, ctx, w); }
template <> bool reduceDispatch<int>(const Op &o, occa::array<int> &a, const std::vector<int> &h, Ctx &ctx, const std::string &w) { return intReduce(o, a, h, ctx, w); }

template <class T>
static bool runArrayData(const Case &c, const Op &setup, const Op &data, int dataNo, Ctx &ctx) {
  const int mode = (int) (arg(setup, 0) & 1);
  occa::device dev = device(mode);
  Tile tile;
  tile.ts = (int) clampll(arg(setup, 2), 0, 64);
  tile.k = (int) clampll(arg(setup, 3), 0, 4);
  const int ctor = (int) (arg(setup, 4) & 1);
  std::vector<T> h;
  for (ll v : data.a) if (h.size() < 70) h.push_back(val<T>(clampll(v, -9, 9)));
  ctx.cls(std::string("array<") + tname<T>() + ">");
  ctx.cls(dev.mode());
  tileClasses(ctx, tile, h.size());
  if (h.empty()) {
    // known finding: an occa::array of length 0 cannot be set up (no device, no memory) — every operation throws
    if (known()("empty-array")) return true;
  }
  occa::array<T> a = upload(dev, h, h.empty() ? 0 : ctor);
  applyTile(a, tile);
  if ((size_t) a.length() != h.size()) FAILF("array length() = " << a.length() << " after construction from " << h.size() << " values");
  int step = 0;
  for (const Op &o : c) {
    if (o.k <= A_DATA || o.k > A_SETTILE) continue;
    std::ostringstream where;
    where << "[" << dev.mode() << ", tile " << tile.ts << "x" << tile.k << ", data set " << dataNo << ", step " << ++step << "] ";
    bool ok;
    if (o.k == A_REDUCE) ok = reduceDispatch<T>(o, a, h, ctx, where.str());
    else ok = arrayOp<T>(o, dev, a, h, tile, ctx, where.str());
    if (!ok) return false;
    // the operation must not have changed the source array (fill is the only in-place operation)
    if (download(a) != h) FAILF(where.str() << "operation kind " << o.k << " changed the source array to " << show(download(a)) << ", was " << show(h));
  }
  return true;
}

// the same operation list (= the same JIT kernels) is applied to every data set of the case
template <class T>
static bool runArray(const Case &c, const Op &setup, Ctx &ctx) {
  int n = 0;
  for (const Op &o : c) {
    if (o.k != A_DATA) continue;
    if (++n > 3) break;
    if (!runArrayData<T>(c, setup, o, n, ctx)) return false;
  }
  if (!n) { Op d; d.k = A_DATA; return runArrayData<T>(c, setup, d, 1, ctx); }
  return true;
}

// ------------------------------------------------------------------------------------------------
// ranges
// ------------------------------------------------------------------------------------------------
struct RangeSpec { ll start = 0, end = 0, step = 1; int ctor = 3; };

static RangeSpec rangeSpec(int ctor, ll s, ll e, ll st) {
  RangeSpec r; r.ctor = ctor;
  if (ctor == 1) { r.start = 0; r.end = e; r.step = e >= 0 ? 1 : -1; }
  else if (ctor == 2) { r.start = s; r.end = e; r.step = e >= s ? 1 : -1; }
  else { r.start = s; r.end = e; r.step = st != 0 ? st : 1; }
  return r;
}
static occa::range makeRange(occa::device dev, const RangeSpec &r) {
  if (r.ctor == 1) return occa::range(dev, r.end);
  if (r.ctor == 2) return occa::range(dev, r.start, r.end);
  return occa::range(dev, r.start, r.end, r.step);
}
// the sequential meaning:  for (i = start; step > 0 ? i < end : i > end; i += step)
static std::vector<int> rangeValues(const RangeSpec &r) {
  std::vector<int> v;
  for (ll i = r.start; r.step > 0 ? i < r.end : i > r.end; i += r.step) v.push_back((int) i);
  return v;
}
static std::string showRange(const RangeSpec &r) {
  std::ostringstream ss;
  if (r.ctor == 1) ss << "range(" << r.end << ")";
  else if (r.ctor == 2) ss << "range(" << r.start << "," << r.end << ")";
  else ss << "range(" << r.start << "," << r.end << "," << r.step << ")";
  return ss.str();
}

static bool runRangeOne(const Case &c, const Op &first, const Op &setup, Ctx &ctx);
static bool runRange(const Case &c, const Op &first, Ctx &ctx) {
  int n = 0;
  for (const Op &o : c) {
    if (o.k != R_SETUP) continue;
    if (++n > 3) break;
    if (!runRangeOne(c, first, o, ctx)) return false;
  }
  return true;
}

static bool runRangeOne(const Case &c, const Op &first, const Op &setup, Ctx &ctx) {
  const int mode = (int) (arg(first, 0) & 1);
  occa::device dev = device(mode);
  const int ctor = (int) modp(arg(setup, 1), 3) + 1;
  const RangeSpec spec = rangeSpec(ctor, clampll(arg(setup, 2), -40, 40), clampll(arg(setup, 3), -40, 40), clampll(arg(setup, 4), -9, 9));
  Tile tile; tile.ts = (int) clampll(arg(first, 5), 0, 64); tile.k = (int) clampll(arg(first, 6), 0, 4);
  const std::vector<int> h = rangeValues(spec);
  const int n = (int) h.size();
  occa::range r = makeRange(dev, spec);
  applyTile(r, tile);
  ctx.cls("range"); ctx.cls(dev.mode());
  tileClasses(ctx, tile, h.size());
  if (spec.step < 0) { ctx.cls("range:negative-step"); ctx.nontrivial = true; }
  if (ctor == 3 && spec.step != 1 && spec.step != -1) ctx.cls("range:|step|>1");
  if (spec.start != 0) ctx.cls("range:start!=0");
  const std::string rs = showRange(spec);
  if ((int) r.length() != n) FAILF(rs << ".length() = " << r.length() << ", the loop for(i=start; i<end (or >end); i+=step) runs " << n << " times");
  int step = 0;
  for (const Op &o : c) {
    if (o.k < R_LEN || o.k > R_REDUCE) continue;
    std::ostringstream w;
    w << "[" << dev.mode() << ", tile " << tile.ts << "x" << tile.k << ", step " << ++step << "] " << rs << ".";
    const std::string where = w.str();
    const bool needsArray = (o.k == R_LEN || o.k == R_MAP || o.k == R_MAPTO);
    if (!n && needsArray && known()("empty-array")) continue;   // the result would be an occa::array of length 0
    switch (o.k) {
    case R_LEN: {
      ctx.cls("range.toArray");
      std::vector<int> got = download(r.toArray());
      if (got != h) FAILF(where << "toArray() = " << show(got) << ", expected " << show(h));
      break;
    }
    case R_MAP: {
      ctx.cls("range.map");
      if (arg(o, 0) & 1) {
        std::vector<double> e(n); for (int i = 0; i < n; ++i) e[i] = h[i] * 0.5;
        std::vector<double> got = download(r.map<double>(OCCA_FUNCTION([=](const int i) -> double { return i * 0.5; })));
        if (got != e) FAILF(where << "map<double>(i*0.5) = " << show(got) << ", expected " << show(e));
      } else {
        std::vector<int> e(n); for (int i = 0; i < n; ++i) e[i] = h[i] * 2 + 1;
        std::vector<int> got = download(r.map<int>(OCCA_FUNCTION([=](const int i) -> int { return i * 2 + 1; })));
        if (got != e) FAILF(where << "map<int>(i*2+1) = " << show(got) << ", expected " << show(e));
      }
      break;
    }
    case R_MAPTO: {
      const int outLen = (int) clampll(arg(o, 0), 1, 80);
      ctx.cls("range.mapTo");
      std::vector<int> pre(outLen, -77), e(n);
      for (int i = 0; i < n; ++i) e[i] = h[i] - 3;
      occa::array<int> out = upload(dev, pre);
      occa::array<int> ret = r.mapTo<int>(out, OCCA_FUNCTION([=](const int i) -> int { return i - 3; }));
      if (download(out) != e || download(ret) != e)
        FAILF(where << "mapTo(i-3) into an array of length " << outLen << ": output = " << show(download(out)) << ", expected " << show(e));
      break;
    }
    case R_EVERY: case R_SOME: case R_FIND: {
      const int thr = (int) arg(o, 0);
      occa::scope sc({{"thr", thr}});
      auto f = OCCA_FUNCTION(sc, [=](const int i) -> bool { return i > thr; });
      std::vector<int> match(n); for (int i = 0; i < n; ++i) match[i] = h[i] > thr;
      const int matches = (int) std::count(match.begin(), match.end(), 1);
      if (o.k == R_EVERY) {
        ctx.cls("range.every");
        const bool got = r.every(f);
        if (got != (matches == n)) FAILF(where << "every(i>" << thr << ") = " << got << ", std::all_of = " << (matches == n));
      } else if (o.k == R_SOME) {
        ctx.cls("range.some");
        const bool got = r.some(f);
        if (got != (matches > 0)) FAILF(where << "some(i>" << thr << ") = " << got << ", std::any_of = " << (matches > 0));
      } else {
        ctx.cls(matches >= 2 ? "range.findIndex(several matches)" : "range.findIndex(<=1 match)");
        const int got = r.findIndex(f);
        const int e = matches ? (int) (std::find(match.begin(), match.end(), 1) - match.begin()) : -1;
        if (matches >= 2 && known()("findindex-not-first")) {
          if (got < 0 || got >= n || !match[got]) FAILF(where << "findIndex(i>" << thr << ") = " << got << " which does not satisfy the predicate");
        } else if (got != e) {
          FAILF(where << "findIndex(i>" << thr << ") = " << got << ", std::find_if gives " << e);
        }
      }
      break;
    }
    case R_FOREACH: {
      ctx.cls("range.forEach");
      // every value of the range is visited exactly once: count visits per value in a window around the range
      const int lo = std::min<ll>(spec.start, spec.end) - 12, width = (int) (std::llabs(spec.end - spec.start) + 25);
      std::vector<int> z(width + 1, 0);
      occa::array<int> cntA = upload(dev, z);
      int *cnt = NULL; (void) cnt;
      occa::scope sc({{"cnt", cntA.memory()}, {"lo", lo}, {"width", width}});
      r.forEach(OCCA_FUNCTION(sc, [=](const int i) -> void {
        const int q = i - lo;
        if (q >= 0 && q < width) { cnt[q] += 1; } else { cnt[width] += 1; }
      }));
      std::vector<int> e(width + 1, 0);
      for (int v : h) e[v - lo] += 1;
      if (download(cntA) != e) FAILF(where << "forEach visit counts for values " << lo << ".. = " << show(download(cntA)) << " (last = outside window), expected " << show(e));
      break;
    }
    case R_REDUCE: {
      const int rr = (int) modp(arg(o, 0), 6);
      const int p = (int) arg(o, 1);
      using occa::reductionType;
      if (rr == 0) {
        ctx.cls("range.reduce:sum");
        const int got = r.reduce<int>(reductionType::sum, OCCA_FUNCTION([=](const int &acc, const int i) -> int { return acc + i; }));
        const int e = std::accumulate(h.begin(), h.end(), 0);
        if (got != e) FAILF(where << "reduce sum(acc+i) = " << got << ", std::accumulate = " << e);
      } else if (rr == 1 || rr == 2) {
        if (!n) break;
        ctx.cls(rr == 1 ? "range.reduce:min" : "range.reduce:max");
        if (rr == 1) {
          const int got = r.reduce<int>(reductionType::min, OCCA_FUNCTION([=](const int &acc, const int i) -> int { return acc < i ? acc : i; }));
          const int e = *std::min_element(h.begin(), h.end());
          if (got != e) FAILF(where << "reduce min = " << got << ", std::min_element = " << e);
        } else {
          const int got = r.reduce<int>(reductionType::max, OCCA_FUNCTION([=](const int &acc, const int i) -> int { return acc > i ? acc : i; }));
          const int e = *std::max_element(h.begin(), h.end());
          if (got != e) FAILF(where << "reduce max = " << got << ", std::max_element = " << e);
        }
      } else if (rr == 3) {
        ctx.cls("range.reduce:sum<double>");
        const double got = r.reduce<double>(reductionType::sum, OCCA_FUNCTION([=](const double &acc, const int i) -> double { return acc + i * 0.5; }));
        double e = 0; for (int v : h) e += v * 0.5;
        if (got != e) FAILF(where << "reduce sum<double>(acc+i*0.5) = " << got << ", expected " << e);
      } else if (rr == 4) {
        ctx.cls("range.reduce:count");
        const int thr = p;
        occa::scope sc({{"thr", thr}});
        const int got = r.reduce<int>(reductionType::sum, OCCA_FUNCTION(sc, [=](const int &acc, const int i) -> int { return acc + (i > thr ? 1 : 0); }));
        int e = 0; for (int v : h) e += v > thr;
        if (got != e) FAILF(where << "reduce sum(acc+(i>" << p << ")) = " << got << ", std::count_if = " << e);
      } else {
        ctx.cls("range.reduce:max(init)");
        const int got = r.reduce<int>(reductionType::max, p, OCCA_FUNCTION([=](const int &acc, const int i) -> int { return acc > i ? acc : i; }));
        int e = p; for (int v : h) e = std::max(e, v);
        if (got != e) FAILF(where << "reduce max(init " << p << ") = " << got << ", expected " << e);
      }
      break;
    }
    default: break;
    }
  }
  return true;
}

// ------------------------------------------------------------------------------------------------
// forLoop: the body increments one counter per index tuple; every tuple of the iteration space must end at 1
// ------------------------------------------------------------------------------------------------
struct IterSpec {
  int kind = 0;               // 0 = int N, 1 = range, 2 = index array
  RangeSpec range;
  std::vector<int> values;    // the values this dimension takes, in order
  int tileSize = 0;
};

static std::string showIter(const IterSpec &s) {
  std::ostringstream ss;
  if (s.tileSize) ss << "{";
  if (s.kind == 0) ss << s.range.end;
  else if (s.kind == 1) ss << showRange(s.range);
  else ss << "array" << show(s.values);
  if (s.tileSize) ss << ", tile " << s.tileSize << "}";
  return ss.str();
}

static occa::iteration makeIter(occa::device dev, const IterSpec &s) {
  occa::iteration it;
  if (s.kind == 0) it = occa::iteration((int) s.range.end);
  else if (s.kind == 1) it = occa::iteration(makeRange(dev, s.range));
  else it = occa::iteration(upload(dev, s.values));
  if (s.tileSize) return occa::tileIteration(it, s.tileSize);
  return it;
}

// `box` holds (lowest value, extent) per dimension; a visit outside the box is counted in bad[0]
#define CELL(V, D) { const int q = (V) - box[2 * (D)]; if (q < 0 || q >= box[2 * (D) + 1]) { ok = 0; } cell = cell * box[2 * (D) + 1] + q; }
#define VISIT_BEGIN int cell = 0; int ok = 1;
#define VISIT_END if (ok) { cnt[cell] += 1; } else { bad[0] += 1; }
#define O1 CELL(o, 0)
#define O2 CELL(o.x, 0) CELL(o.y, 1)
#define O3 CELL(o.x, 0) CELL(o.y, 1) CELL(o.z, 2)
#define I1(B) CELL(i, B)
#define I2(B) CELL(i.x, B) CELL(i.y, B + 1)
#define I3(B) CELL(i.x, B) CELL(i.y, B + 1) CELL(i.z, B + 2)
#define INNER_DUMMY(BODY) OKL("@inner"); for (int dummy = 0; dummy < 1; ++dummy) { BODY }

struct LoopPlan {
  int mode = 0;
  bool tiled = false;
  std::vector<IterSpec> outer, inner;
};

static bool runLoopKernel(occa::device dev, const LoopPlan &p, occa::scope sc) {
  int *cnt = NULL, *bad = NULL, *box = NULL; (void) cnt; (void) bad; (void) box;
  std::vector<occa::iteration> ov, in;
  for (auto &s : p.outer) ov.push_back(makeIter(dev, s));
  for (auto &s : p.inner) in.push_back(makeIter(dev, s));
  const int no = (int) ov.size(), ni = (int) in.size();
  occa::forLoop loop(dev);
#define TI(N) occa::tileIteration(ov[N], p.outer[N].tileSize)
#define OUTER1 (p.tiled ? loop.tile(TI(0)) : loop.outer(ov[0]))
#define OUTER2 (p.tiled ? loop.tile(TI(0), TI(1)) : loop.outer(ov[0], ov[1]))
#define OUTER3 (p.tiled ? loop.tile(TI(0), TI(1), TI(2)) : loop.outer(ov[0], ov[1], ov[2]))
  if (no == 1) {
    if (ni == 0) {
      if (p.tiled) OUTER1.run(sc, OCCA_FUNCTION([=](const int o) -> void { VISIT_BEGIN O1 VISIT_END }));
      else OUTER1.run(sc, OCCA_FUNCTION([=](const int o) -> void { INNER_DUMMY(VISIT_BEGIN O1 VISIT_END) }));
    }
    else if (ni == 1) OUTER1.inner(in[0]).run(sc, OCCA_FUNCTION([=](const int o, const int i) -> void { VISIT_BEGIN O1 I1(1) VISIT_END }));
    else if (ni == 2) OUTER1.inner(in[0], in[1]).run(sc, OCCA_FUNCTION([=](const int o, const int2 i) -> void { VISIT_BEGIN O1 I2(1) VISIT_END }));
    else OUTER1.inner(in[0], in[1], in[2]).run(sc, OCCA_FUNCTION([=](const int o, const int3 i) -> void { VISIT_BEGIN O1 I3(1) VISIT_END }));
  } else if (no == 2) {
    if (ni == 0) {
      if (p.tiled) OUTER2.run(sc, OCCA_FUNCTION([=](const int2 o) -> void { VISIT_BEGIN O2 VISIT_END }));
      else OUTER2.run(sc, OCCA_FUNCTION([=](const int2 o) -> void { INNER_DUMMY(VISIT_BEGIN O2 VISIT_END) }));
    }
    else if (ni == 1) OUTER2.inner(in[0]).run(sc, OCCA_FUNCTION([=](const int2 o, const int i) -> void { VISIT_BEGIN O2 I1(2) VISIT_END }));
    else if (ni == 2) OUTER2.inner(in[0], in[1]).run(sc, OCCA_FUNCTION([=](const int2 o, const int2 i) -> void { VISIT_BEGIN O2 I2(2) VISIT_END }));
    else OUTER2.inner(in[0], in[1], in[2]).run(sc, OCCA_FUNCTION([=](const int2 o, const int3 i) -> void { VISIT_BEGIN O2 I3(2) VISIT_END }));
  } else {
    if (ni == 0) {
      if (p.tiled) OUTER3.run(sc, OCCA_FUNCTION([=](const int3 o) -> void { VISIT_BEGIN O3 VISIT_END }));
      else OUTER3.run(sc, OCCA_FUNCTION([=](const int3 o) -> void { INNER_DUMMY(VISIT_BEGIN O3 VISIT_END) }));
    }
    else if (ni == 1) OUTER3.inner(in[0]).run(sc, OCCA_FUNCTION([=](const int3 o, const int i) -> void { VISIT_BEGIN O3 I1(3) VISIT_END }));
    else if (ni == 2) OUTER3.inner(in[0], in[1]).run(sc, OCCA_FUNCTION([=](const int3 o, const int2 i) -> void { VISIT_BEGIN O3 I2(3) VISIT_END }));
    else OUTER3.inner(in[0], in[1], in[2]).run(sc, OCCA_FUNCTION([=](const int3 o, const int3 i) -> void { VISIT_BEGIN O3 I3(3) VISIT_END }));
  }
  return true;
}

static int loopVariants(const Case &c) {
  int v = 3; bool any = false;
  for (const Op &o : c) if (o.k == F_ITER) { any = true; v = std::min<int>(v, std::max<int>(1, ((int) o.a.size() - 3) / 3)); }
  return any ? v : 1;
}

static LoopPlan loopPlan(const Case &c, const Op &setup, int variant = 0) {
  LoopPlan p;
  p.mode = (int) (arg(setup, 0) & 1);
  p.tiled = (arg(setup, 1) & 1) != 0;
  std::vector<Op> its;
  int no = 0, ni = 0;
  for (const Op &o : c) {
    if (o.k != F_ITER) continue;
    const bool inner = (arg(o, 0) & 1) != 0;
    if (inner ? ni >= 3 : no >= 3) continue;
    (inner ? ni : no)++;
    its.push_back(o);
  }
  if (!no) { Op o; o.k = F_ITER; o.a = {0, 0, 2, 2, 0, 0}; its.insert(its.begin(), o); no = 1; }
  if (p.tiled && no + ni > 3) {   // @tile(@outer,@inner) already supplies one @inner level per outer loop; at most 3 levels exist
    std::vector<Op> kept; int keepInner = 3 - no;
    for (const Op &o : its) { if (arg(o, 0) & 1) { if (keepInner-- > 0) kept.push_back(o); } else kept.push_back(o); }
    its = kept; ni = std::min(ni, std::max(0, 3 - no));
  }
  const int dims = no + ni;
  static const int W[7] = {40, 40, 40, 16, 9, 6, 5};
  const ll half = W[dims] / 2;
  for (const Op &o : its) {
    IterSpec s;
    s.kind = (int) modp(arg(o, 1), 3);
    const size_t base = 3 + 3 * (size_t) variant < o.a.size() ? 3 + 3 * (size_t) variant : 3;
    const ll p1 = arg(o, base), p2 = arg(o, base + 1), p3 = arg(o, base + 2);
    if (s.kind == 0) {
      s.range = rangeSpec(1, 0, clampll(p1, 0, 2 * half), 1);
      s.values = rangeValues(s.range);
    } else if (s.kind == 1) {
      s.range = rangeSpec(3, clampll(p1, -half, half), clampll(p2, -half, half), clampll(p3, -5, 5));
      s.values = rangeValues(s.range);
    } else {
      const int len = (int) clampll(p1, 1, 2 * half);
      const ll base = clampll(p2, -half, half - len + 1 > -half ? half - len + 1 : -half);
      for (int j = 0; j < len; ++j) s.values.push_back((int) (base + ((j + modp(p3, len)) % len)));
      if (p3 & 1) std::reverse(s.values.begin(), s.values.end());
    }
    const bool inner = (arg(o, 0) & 1) != 0;
    if (p.tiled && !inner) s.tileSize = (int) clampll(arg(o, 2), 1, 9);
    (inner ? p.inner : p.outer).push_back(s);
  }
  return p;
}

static bool runLoopVariant(const Case &c, const Op &setup, int variant, Ctx &ctx);
static bool runLoop(const Case &c, const Op &setup, Ctx &ctx) {
  const int nv = loopVariants(c);
  for (int v = 0; v < nv; ++v) if (!runLoopVariant(c, setup, v, ctx)) return false;
  return true;
}

static bool runLoopVariant(const Case &c, const Op &setup, int variant, Ctx &ctx) {
  const LoopPlan p = loopPlan(c, setup, variant);
  occa::device dev = device(p.mode);
  std::vector<const IterSpec*> dimsV;
  for (auto &s : p.outer) dimsV.push_back(&s);
  for (auto &s : p.inner) dimsV.push_back(&s);
  const int D = (int) dimsV.size();
  const int margin = D <= 3 ? 2 : D == 4 ? 1 : 0;
  std::vector<int> box(2 * D);
  size_t cells = 1;
  std::ostringstream desc;
  desc << "forLoop[" << dev.mode() << "]" << (p.tiled ? ".tile(" : ".outer(");
  for (size_t i = 0; i < p.outer.size(); ++i) desc << (i ? ", " : "") << showIter(p.outer[i]);
  desc << ")";
  if (p.inner.size()) { desc << ".inner("; for (size_t i = 0; i < p.inner.size(); ++i) desc << (i ? ", " : "") << showIter(p.inner[i]); desc << ")"; }
  ctx.cls("forLoop"); ctx.cls(dev.mode());
  { std::ostringstream k; k << "forLoop:" << p.outer.size() << "outer+" << p.inner.size() << "inner" << (p.tiled ? "(tiled)" : ""); ctx.cls(k.str()); }
  for (int d = 0; d < D; ++d) {
    const IterSpec &s = *dimsV[d];
    int lo = 0, hi = 0;
    if (s.values.size()) { lo = *std::min_element(s.values.begin(), s.values.end()); hi = *std::max_element(s.values.begin(), s.values.end()); }
    else if (s.kind == 1) { lo = hi = (int) s.range.start; }
    box[2 * d] = lo - margin;
    box[2 * d + 1] = hi - lo + 1 + 2 * margin;
    cells *= (size_t) box[2 * d + 1];
    if (s.kind == 1 && s.range.step < 0) { ctx.cls("forLoop:negative-step range"); ctx.nontrivial = true; }
    if (s.kind == 1 && s.range.step != 1 && s.range.step != -1) ctx.cls("forLoop:|step|>1 range");
    if (s.kind == 2) ctx.cls("forLoop:index array");
    if (s.values.size() <= 1) { ctx.cls("forLoop:dimension of length 0/1"); ctx.nontrivial = true; }
    if (s.tileSize && (s.values.size() % (size_t) s.tileSize)) { ctx.cls("forLoop:length%tile!=0"); ctx.nontrivial = true; }
    if (s.tileSize && s.kind == 1 && s.range.step != 1) { ctx.cls("forLoop:tiled range with step!=1"); ctx.nontrivial = true; }
  }
  if (cells > 400000) return true;   // not produced by the generator
  std::vector<int> zero(cells, 0), one(1, 0);
  occa::array<int> cntA = upload(dev, zero), badA = upload(dev, one), boxA = upload(dev, box);
  occa::scope sc({{"cnt", cntA.memory()}, {"bad", badA.memory()}, {"box", boxA.memory()}});
  runLoopKernel(dev, p, sc);
  // model: the cartesian product of the value lists
  std::vector<int> expect(cells, 0);
  std::vector<size_t> idx(D, 0);
  bool empty = false;
  for (int d = 0; d < D; ++d) if (dimsV[d]->values.empty()) empty = true;
  size_t tuples = 0;
  while (!empty) {
    size_t cell = 0;
    for (int d = 0; d < D; ++d) cell = cell * box[2 * d + 1] + (size_t) (dimsV[d]->values[idx[d]] - box[2 * d]);
    expect[cell] += 1; ++tuples;
    int d = D - 1;
    while (d >= 0 && ++idx[d] == dimsV[d]->values.size()) { idx[d] = 0; --d; }
    if (d < 0) break;
  }
  const std::vector<int> got = download(cntA);
  const int bad = download(badA)[0];
  if (bad != 0) FAILF(desc.str() << ": the body ran " << bad << " time(s) for index tuples outside the iteration space (" << tuples << " tuples expected)");
  if (got != expect) {
    size_t missing = 0, extra = 0, firstBad = cells;
    for (size_t i = 0; i < cells; ++i) {
      if (got[i] < expect[i]) missing += expect[i] - got[i];
      if (got[i] > expect[i]) extra += got[i] - expect[i];
      if (got[i] != expect[i] && firstBad == cells) firstBad = i;
    }
    std::ostringstream tup;
    size_t rem = firstBad;
    std::vector<int> coord(D);
    for (int d = D - 1; d >= 0; --d) { coord[d] = (int) (rem % box[2 * d + 1]) + box[2 * d]; rem /= box[2 * d + 1]; }
    tup << "(";
    for (int d = 0; d < D; ++d) tup << (d ? "," : "") << coord[d];
    tup << ")";
    FAILF(desc.str() << ": body executions per index tuple differ from exactly-once: " << missing << " missing, " << extra
          << " surplus of " << tuples << " tuples; first at tuple " << tup.str() << " run " << got[firstBad] << " time(s), expected " << expect[firstBad]);
  }
  return true;
}

// ------------------------------------------------------------------------------------------------
static bool runCase(const Case &c, Ctx &ctx) {
  for (const Op &o : c) {
    if (o.k == A_SETUP) {
      const int dt = (int) modp(arg(o, 1), 4);
      if (dt <= 1) return runArray<int>(c, o, ctx);
      if (dt == 2) return runArray<float>(c, o, ctx);
      return runArray<double>(c, o, ctx);
    }
    if (o.k == R_SETUP) return runRange(c, o, ctx);
    if (o.k == F_SETUP) return runLoop(c, o, ctx);
  }
  return true;
}

static std::string describe(const Case &c) {
  std::ostringstream ss;
  static const char *an[] = {"setup", "data", "map", "mapTo", "forEach", "every", "some", "findIndex", "reduce", "min/max", "slice",
                             "concat", "fill", "dotProduct", "helper", "setTileSize"};
  static const char *rn[] = {"setup", "toArray", "map", "mapTo", "every", "some", "findIndex", "forEach", "reduce"};
  for (const Op &o : c) {
    if (o.k == A_SETUP) {
      static const char *dn[] = {"int", "int", "float", "double"};
      ss << "array<" << dn[modp(arg(o, 1), 4)] << "> mode=" << ((arg(o, 0) & 1) ? "OpenMP" : "Serial") << " setTileSize(" << arg(o, 2) << "," << arg(o, 3) << ")";
    } else if (o.k == A_DATA) {
      ss << " data(n=" << o.a.size() << ")" << show(o.a);
    } else if (o.k > A_DATA && o.k <= A_SETTILE) {
      ss << " " << an[o.k] << show(o.a);
    } else if (o.k == R_SETUP) {
      if (&o != &c[0]) ss << " |";
      const RangeSpec r = rangeSpec((int) modp(arg(o, 1), 3) + 1, clampll(arg(o, 2), -40, 40), clampll(arg(o, 3), -40, 40), clampll(arg(o, 4), -9, 9));
      ss << showRange(r) << " mode=" << ((arg(o, 0) & 1) ? "OpenMP" : "Serial") << " setTileSize(" << arg(o, 5) << "," << arg(o, 6) << ")";
    } else if (o.k > R_SETUP && o.k <= R_REDUCE) {
      ss << " ." << rn[o.k - R_SETUP] << show(o.a);
    } else if (o.k == F_SETUP) {
      for (int v = 0; v < loopVariants(c); ++v) {
        const LoopPlan p = loopPlan(c, o, v);
        ss << (v ? " | " : "") << "forLoop mode=" << (p.mode ? "OpenMP" : "Serial") << (p.tiled ? " tile(" : " outer(");
        for (size_t i = 0; i < p.outer.size(); ++i) ss << (i ? ", " : "") << showIter(p.outer[i]);
        ss << ")";
        if (p.inner.size()) { ss << " inner("; for (size_t i = 0; i < p.inner.size(); ++i) ss << (i ? ", " : "") << showIter(p.inner[i]); ss << ")"; }
      }
      break;
    }
  }
  return ss.str();
}

// ------------------------------------------------------------------------------------------------
// generators
// ------------------------------------------------------------------------------------------------
static ll pickTile() { static const ll t[] = {0, 0, 1, 2, 2, 3, 4, 4, 7, 16}; return t[*rng(0, 9)]; }
static ll pickIters() { static const ll t[] = {0, 0, 1, 2, 2, 3, 4}; return t[*rng(0, 6)]; }
static ll pickLength(ll ts, ll k) {
  const ll tile = std::max<ll>(1, ts) * std::max<ll>(1, k);
  const ll w = *rng(0, 13);
  ll n;
  switch (w) {
  case 0: n = 0; break;
  case 1: n = 1; break;
  case 2: n = 2; break;
  case 3: n = tile - 1; break;
  case 4: n = tile; break;
  case 5: n = tile + 1; break;
  case 6: n = 2 * tile + 1; break;
  case 7: n = 3 * tile - 1; break;
  case 8: n = 2 * tile; break;
  default: n = *rng(0, 70); break;
  }
  return clampll(n, 0, 70);
}

static Case genArray() {
  Case c;
  Op s; s.k = A_SETUP;
  const ll ts = pickTile(), k = ts ? pickIters() : 0;
  s.a = {*rng(0, 1), *rng(0, 3), ts, k, *rng(0, 1)};
  c.push_back(s);
  ll n = 0;
  std::vector<ll> pool;          // values that occur in the data: thresholds / search targets are drawn from it half of the time
  const ll nsets = *rng(1, 3);
  for (ll j = 0; j < nsets; ++j) {
    Op d; d.k = A_DATA;
    n = pickLength(ts, k);
    const ll style = *rng(0, 5);
    if (style >= 4 && n > 0) {
      // one extreme value at a single position (first, second, last, ... or anywhere), everything else constant or noise
      const ll base = *rng(-2, 2), spike = base + (*rng(0, 1) ? *rng(3, 6) : -*rng(3, 6));
      const ll w = *rng(0, 7);
      const ll pos = w == 0 ? 0 : w == 1 ? 1 : w == 2 ? 2 : w == 3 ? n - 1 : w == 4 ? n - 2 : *rng(0, n - 1);
      const ll at = pos < 0 ? 0 : pos >= n ? n - 1 : pos;
      for (ll i = 0; i < n; ++i) d.a.push_back(i == at ? spike : style == 4 ? base : base + *rng(-1, 1));
      pool.push_back(spike); pool.push_back(base);
    } else {
      for (ll i = 0; i < n; ++i) d.a.push_back(style == 0 ? *rng(-9, 9) : style == 1 ? *rng(0, 3) : style == 2 ? *rng(-2, 2) : (i % 7) - 3);
      if (n > 0) { pool.push_back(d.a[*rng(0, n - 1)]); pool.push_back(d.a[n > 1 ? 1 : 0]); }
    }
    c.push_back(d);
  }
  auto target = [&](ll lo, ll hi) -> ll {
    if (!pool.empty() && *rng(0, 1)) return pool[*rng(0, (ll) pool.size() - 1)] - *rng(0, 3) / 3;   // the value itself, sometimes one below
    return *rng(lo, hi);
  };
  const ll nops = *rng(1, 5);
  for (ll i = 0; i < nops; ++i) {
    Op o;
    const ll w = *rng(0, 39);
    if (w < 6) { o.k = A_MAP; o.a = {*rng(0, 4), *rng(-9, 9)}; }
    else if (w < 10) { o.k = A_MAPTO; o.a = {*rng(0, 2), *rng(0, 2) == 0 ? n : *rng(1, 75)}; }
    else if (w < 13) { o.k = A_FOREACH; o.a = {*rng(0, 2), target(-3, 3)}; }
    else if (w < 15) { o.k = A_EVERY; o.a = {*rng(0, 2), target(-10, 10)}; }
    else if (w < 17) { o.k = A_SOME; o.a = {*rng(0, 2), target(-10, 10)}; }
    else if (w < 20) { o.k = A_FIND; o.a = {*rng(0, 2), target(-4, 9)}; }
    else if (w < 28) { o.k = A_REDUCE; o.a = {*rng(0, 18), target(-4, 9)}; }
    else if (w < 30) { o.k = A_MINMAX; }
    else if (w < 32) { o.k = A_SLICE; o.a = {*rng(0, 70), *rng(-1, 1) < 0 ? -1 : *rng(0, 70)}; }
    else if (w < 33) { o.k = A_CONCAT; const ll m = *rng(1, 9); for (ll j = 0; j < m; ++j) o.a.push_back(*rng(-9, 9)); }
    else if (w < 34) { o.k = A_FILL; o.a = {*rng(-9, 9)}; }
    else if (w < 35) { o.k = A_DOT; o.a = {*rng(0, 6)}; }
    else if (w < 39) { o.k = A_HELPER; o.a = {*rng(0, 11), target(-4, 9), *rng(-9, 9)}; }
    else { o.k = A_SETTILE; o.a = {pickTile(), pickIters()}; }
    c.push_back(o);
  }
  return c;
}

static Case genRange() {
  Case c;
  const ll ts = pickTile(), k = ts ? pickIters() : 0;
  const ll mode = *rng(0, 1);
  const ll ctor = *rng(0, 9) < 6 ? 2 : *rng(0, 1);     // 3-argument form most of the time
  // the ranges of one case share what is compiled into the kernel (start == 0, step == +-1), so they share the JIT builds
  const bool zeroStart = *rng(0, 2) == 0;
  const bool unitStep = *rng(0, 9) < 4;
  const bool negative = *rng(0, 1) == 1;
  const ll nranges = *rng(1, 3);
  for (ll j = 0; j < nranges; ++j) {
    Op s; s.k = R_SETUP;
    ll start = zeroStart ? 0 : *rng(-20, 20);
    ll step = unitStep ? 1 : *rng(2, 5);
    if (negative) step = -step;
    if (!unitStep && *rng(0, 19) == 0) step = 0;         // the constructor turns a zero step into 1
    ll len = pickLength(ts, k);
    if (len > 40) len = len % 40;
    const ll dir = *rng(0, 9);
    ll end;
    const ll st = step == 0 ? 1 : step;
    if (dir == 0) end = start - st * len;                 // wrong direction: empty
    else end = start + st * len - (*rng(0, 3) == 0 ? 0 : (st > 0 ? *rng(0, st - 1) : -*rng(0, -st - 1)));   // mostly not a multiple of the step
    s.a = {mode, ctor, start, end, step, ts, k};
    c.push_back(s);
  }
  const ll nops = *rng(1, 5);
  for (ll i = 0; i < nops; ++i) {
    Op o;
    const ll w = *rng(0, 15);
    if (w < 2) { o.k = R_LEN; }
    else if (w < 5) { o.k = R_MAP; o.a = {*rng(0, 1)}; }
    else if (w < 7) { o.k = R_MAPTO; o.a = {*rng(1, 60)}; }
    else if (w < 8) { o.k = R_EVERY; o.a = {*rng(-25, 25)}; }
    else if (w < 9) { o.k = R_SOME; o.a = {*rng(-25, 25)}; }
    else if (w < 10) { o.k = R_FIND; o.a = {*rng(-25, 25)}; }
    else if (w < 12) { o.k = R_FOREACH; }
    else { o.k = R_REDUCE; o.a = {*rng(0, 5), *rng(-25, 25)}; }
    c.push_back(o);
  }
  return c;
}

static Case genLoop() {
  Case c;
  Op s; s.k = F_SETUP;
  s.a = {*rng(0, 1), *rng(0, 2) == 0 ? 1 : 0};
  c.push_back(s);
  const ll no = *rng(0, 9) < 5 ? 1 : *rng(1, 3);
  const ll ni = *rng(0, 3);
  const ll nvar = *rng(1, 3);
  for (ll i = 0; i < no + ni; ++i) {
    Op o; o.k = F_ITER;
    const ll kind = *rng(0, 5);
    const ll k = kind < 2 ? 0 : kind < 5 ? 1 : 2;
    o.a = {i < no ? 0 : 1, k, *rng(1, 5)};
    // what is compiled into the kernel stays the same for all variants: start == 0, |step| == 1, the direction
    const bool zeroStart = *rng(0, 2) == 0, unitStep = *rng(0, 9) < 4, negative = *rng(0, 1) == 1;
    for (ll v = 0; v < nvar; ++v) {
      ll p1, p2, p3;
      if (k == 0) { p1 = *rng(0, 9) == 0 ? *rng(0, 1) : *rng(1, 9); p2 = p3 = 0; }
      else if (k == 1) {
        p1 = zeroStart ? 0 : *rng(-8, 8);
        p3 = unitStep ? 1 : *rng(2, 4);
        if (negative) p3 = -p3;
        const ll st = p3;
        const ll len = *rng(0, 9) == 0 ? *rng(0, 1) : *rng(1, 7);
        p2 = p1 + st * len - (*rng(0, 1) ? 0 : (st > 0 ? *rng(0, st - 1) : -*rng(0, -st - 1)));
        if (*rng(0, 14) == 0) p2 = p1 - st * len;
      }
      else { p1 = *rng(1, 7); p2 = *rng(-6, 6); p3 = *rng(0, 9); }
      o.a.push_back(p1); o.a.push_back(p2); o.a.push_back(p3);
    }
    c.push_back(o);
  }
  return c;
}

int main(int argc, char **argv) {
  rc::Gen<Case> gen = rc::gen::exec([]() {
    // forLoop kernels include <occa.hpp> and are ~10x more expensive to JIT than array kernels
    const ll f = *rng(0, 19);
    if (f < 12) return genArray();
    if (f < 17) return genRange();
    return genLoop();
  });
  return harnessMain(argc, argv, "C23 functional arrays, ranges, forLoop", gen, runCase, describe);
}
