// C12 (G1/O1 + in-target semantic oracle) — libFuzzer target for occa::lang::tokenizer_t.
//
// Input: arbitrary bytes without interior NUL (the API is `const char*`; an input is cut at its first NUL), copied to an exact-size heap buffer
// (size + the terminating NUL) so that a one-byte over-read is an ASan heap-buffer-overflow.
// Per input, each with fresh tokenizer state (tokenizer_t::set() -> clear(), see C12_common.hpp):
//   1. tokenize the buffer as a string source                     (crash / sanitizer report = failure)
//   2. tokenizer_t::getHeader() on the buffer, called the way the preprocessor calls it after `#include`
//   3. tokenize the same bytes as the content of a file_t          (enables emptyLinesBefore/After)
//   4. if 1. finished without exception and without reported errors and every token is a lexically well-formed
//      C/OKL token: print every token with its own print() separated by one space, tokenize that text again:
//      no errors, same token kinds and values (newline tokens are white space and not compared).
// occa::exception = clean rejection.  Diagnostics are silenced through io::stderr.setOverride.
#include "C12_common.hpp"


using namespace c12;

// ---- statistics written at exit (same JSON shape as vf::Stats; merged by lib/v_fuzz.py) ---------------------------
// Fixed-size storage only: an allocation that outlives LLVMFuzzerTestOneInput makes libFuzzer run a (slow) leak check.
enum { C_NUL = 0, C_THREW, C_ERRORS, C_ILLFORMED, C_ORACLE, C_ORACLE_NT, C_KNOWN_RAW, C_COUNT };
static const char *C_NAMES[C_COUNT] = {
  "input-cut-at-first-NUL", "occa-exception(clean rejection)", "tokenizer-reported-errors",
  "tokens-not-all-well-formed(oracle not applicable)", "roundtrip-oracle-evaluated",
  "roundtrip-oracle-evaluated-nontrivial", "raw_string_print"};
static long g_evals = 0;
static long g_count[C_COUNT];
static const size_t NT_SLOTS = 1u << 20;          // open addressing, 0 = empty
static uint64_t *g_nt = NULL;
static size_t g_ntUsed = 0;

static uint64_t fnv(const uint8_t *d, size_t n) {
  uint64_t h = 1469598103934665603ULL;
  for (size_t i = 0; i < n; ++i) { h ^= d[i]; h *= 1099511628211ULL; }
  return h ? h : 1;
}

static void ntInsert(uint64_t h) {
  if (!g_nt || g_ntUsed * 2 > NT_SLOTS) return;
  size_t i = (size_t) (h & (NT_SLOTS - 1));
  while (g_nt[i] && g_nt[i] != h) i = (i + 1) & (NT_SLOTS - 1);
  if (!g_nt[i]) { g_nt[i] = h; ++g_ntUsed; }
}

static void dumpStats() {
  const char *p = getenv("VERIF_STATS");
  if (!p || !*p) return;
  FILE *f = fopen(p, "w");
  if (!f) return;
  fprintf(f, "{\"evaluations\":%ld,\"nontrivial\":[", g_evals);
  bool first = true;
  for (size_t i = 0; g_nt && i < NT_SLOTS; ++i)
    if (g_nt[i]) { fprintf(f, "%s\"%llx\"", first ? "" : ",", (unsigned long long) g_nt[i]); first = false; }
  fprintf(f, "],\"classes\":{");
  first = true;
  for (int i = 0; i < C_KNOWN_RAW; ++i)
    if (g_count[i]) { fprintf(f, "%s\"fuzz:%s\":%ld", first ? "" : ",", C_NAMES[i], g_count[i]); first = false; }
  fprintf(f, "},\"excluded\":{");
  if (g_count[C_KNOWN_RAW]) fprintf(f, "\"%s\":%ld", C_NAMES[C_KNOWN_RAW], g_count[C_KNOWN_RAW]);
  fprintf(f, "},\"samples\":[]}\n");
  fclose(f);
}

static void oracleFail(const char *cls, const std::string &detail, const std::string &in, const std::string &printed) {
  // first line = signature used by lib/v_fuzz.py to de-duplicate and to match known findings
  fprintf(stderr, "VERIF-SIGNATURE: C12-oracle %s\n", cls);
  fprintf(stderr, "C12-ORACLE-FAIL %s: %s\n  input   : %s\n  reprint : %s\n", cls, detail.c_str(),
          esc(in).c_str(), esc(printed).c_str());
  fflush(stderr);
  abort();
}

static void headerProbe(const char *buf) {
  tokenizer_t &tz = sharedTokenizer(1);
  try {
    tz.set(buf);
    (void) tz.loadingQuotedHeader();
    std::string h = tz.getHeader();
    (void) h;
  } catch (occa::exception &) {
  }
  try { tz.clear(); } catch (occa::exception &) {}
}

static void fileMode(const uint8_t *data, size_t size) {
  static file_t *f = new file_t(true, "(fuzz)");   // no reference counting, no file system access
  tokenizer_t &tz = sharedTokenizer(2);
  try {
    f->content = std::string((const char*) data, size);
    tz.set(f);
    token_t *t = NULL;
    while (!tz.isEmpty()) {
      tz.setNext(t);
      if (!t) break;
      std::string s = t->str();
      (void) s;
      delete t;
    }
  } catch (occa::exception &) {
  }
  try { tz.clear(); } catch (occa::exception &) {}
}

extern "C" int LLVMFuzzerInitialize(int *, char ***) {
  silence();
  g_nt = (uint64_t*) calloc(NT_SLOTS, sizeof(uint64_t));
  atexit(dumpStats);
  return 0;
}

extern "C" int LLVMFuzzerTestOneInput(const uint8_t *data, size_t size) {
  ++g_evals;
  // the API is `const char*`: bytes behind the first NUL are invisible to the tokenizer, the input is the prefix
  if (size) {
    const void *nul = memchr(data, 0, size);
    if (nul) { ++g_count[C_NUL]; size = (size_t) ((const uint8_t*) nul - data); }
  }
  ExactBuf buf(data, size);

  Result r1 = tokenize(buf.p);
  headerProbe(buf.p);
  fileMode(data, size);

  if (r1.threw) { ++g_count[C_THREW]; return 0; }
  if (r1.errors) { ++g_count[C_ERRORS]; return 0; }
  bool rawString = false, nontrivial = false;
  const Tok *prev = NULL;
  for (const Tok &t : r1.toks) {
    if (!wellFormed(t)) { ++g_count[C_ILLFORMED]; return 0; }
    if (t.kind == tokenType::string && (t.enc & encodingType::R)) rawString = true;
    if ((t.kind == tokenType::string || t.kind == tokenType::char_) && (t.enc || t.spelling.find('\\') != std::string::npos)) nontrivial = true;
    if (prev && prev->kind == tokenType::op && t.kind == tokenType::op && prev->value.size() >= 2 && t.value.size() >= 2) nontrivial = true;
    prev = &t;
  }
  if (rawString && knownId("raw_string_print")) { ++g_count[C_KNOWN_RAW]; return 0; }
  ++g_count[C_ORACLE];
  if (nontrivial) {
    ++g_count[C_ORACLE_NT];
    ntInsert(fnv(data, size));
  }

  const std::string in((const char*) data, size);
  const std::string printed = reprint(r1.toks);
  Result r2 = tokenizeExact(printed);
  if (r2.threw) oracleFail("reprint-throws", r2.what, in, printed);
  if (r2.errors) oracleFail("reprint-errors", std::to_string(r2.errors) + " error(s) tokenizing the printed tokens", in, printed);
  std::string why;
  if (!sameTokens(r1.toks, r2.toks, why)) oracleFail("roundtrip", why, in, printed);
  return 0;
}
