// C28 — trie longest-prefix semantics, frozen or not.  Stateful history vs std::map model.
#include "common.hpp"
#include <occa/internal/utils/trie.hpp>
#include <climits>

using namespace vf;

enum { ADD = 0, REMOVE, FREEZE, DEFROST, AUTOFREEZE, CLEAR, QUERY, REMOVE_IDX };

static const char ALPHA[4] = {'a', 'b', 'c', (char) 0xE9};

static std::string keyFrom(const std::vector<ll> &a, size_t from) {
  std::string s;
  for (size_t i = from; i < a.size(); ++i) s += ALPHA[a[i] & 3];
  return s;
}

static std::vector<std::string> &allQueries() {
  static std::vector<std::string> q;
  if (q.empty()) {
    // exhaustive: 4-letter alphabet up to length 4, {a,b} for lengths 5..6
    std::vector<std::string> cur(1, "");
    for (int len = 1; len <= 6; ++len) {
      std::vector<std::string> nxt;
      const int width = (len <= 4) ? 4 : 2;
      for (auto &p : cur) {
        if (len > 4) {
          bool ab = true;
          for (char c : p) ab = ab && (c == 'a' || c == 'b');
          if (!ab) continue;
        }
        for (int i = 0; i < width; ++i) nxt.push_back(p + ALPHA[i]);
      }
      for (auto &s : nxt) q.push_back(s);
      cur = nxt;
    }
  }
  return q;
}

struct Model {
  std::map<std::string, int> m;
  // longest stored key that is a prefix of q[0..len)
  bool longest(const std::string &q, int len, std::string &key, int &val) const {
    bool found = false;
    for (int l = 1; l <= len; ++l) {
      auto it = m.find(q.substr(0, l));
      if (it != m.end()) { key = it->first; val = it->second; found = true; }
    }
    return found;
  }
  bool isPathPrefix(const std::string &p) const {
    for (auto &kv : m) if (kv.first.size() >= p.size() && kv.first.compare(0, p.size(), p) == 0) return true;
    return false;
  }
};

static bool checkQuery(occa::trie<int> &t, const Model &mod, const std::string &q, int len,
                       Ctx &ctx, const char *state) {
  std::string mk; int mv = 0;
  const bool mfound = mod.longest(q, len, mk, mv);
  occa::trie<int>::result_t r = t.getLongest(q.c_str(), len);
  std::ostringstream why;
  if (r.success() != mfound) {
    why << "getLongest(\"" << hexEncode(q) << "\"," << len << ") [" << state << "] success=" << r.success()
        << " model=" << mfound;
    return ctx.fail(why.str());
  }
  if (mfound) {
    if (r.length != (int) mk.size() || r.value() != mv) {
      why << "getLongest(x" << hexEncode(q) << "," << len << ") [" << state << "] length=" << r.length
          << " value=" << r.value() << " model length=" << mk.size() << " value=" << mv;
      return ctx.fail(why.str());
    }
    if ((int) q.size() >= (int) mk.size() + 2 && len >= (int) mk.size() + 2
        && mod.isPathPrefix(q.substr(0, mk.size() + 1)))
      ctx.nontrivial = true;
  }
  // get / has: exactly the stored keys
  const std::string qq = q.substr(0, len);
  const bool stored = mod.m.count(qq) != 0;
  occa::trie<int>::result_t g = t.get(qq.c_str(), len);
  if (g.success() != stored || (stored && g.value() != mod.m.at(qq))) {
    why << "get(x" << hexEncode(qq) << ") [" << state << "] success=" << g.success() << " model stored=" << stored;
    return ctx.fail(why.str());
  }
  if (t.has(qq) != stored || t.has(qq.c_str()) != stored) {
    why << "has(x" << hexEncode(qq) << ") [" << state << "] != model " << stored;
    return ctx.fail(why.str());
  }
  return true;
}

static bool checkAll(occa::trie<int> &t, const Model &mod, Ctx &ctx, const char *state, bool full) {
  if (t.size() != (int) mod.m.size()) {
    std::ostringstream why;
    why << "size() [" << state << "] = " << t.size() << " model " << mod.m.size();
    return ctx.fail(why.str());
  }
  auto &qs = allQueries();
  const size_t n = full ? qs.size() : 84;  // lengths <= 3 when not full
  for (size_t i = 0; i < n; ++i)
    if (!checkQuery(t, mod, qs[i], (int) qs[i].size(), ctx, state)) return false;
  return true;
}

static bool runCase(const Case &c, Ctx &ctx) {
  occa::trie<int> t;
  Model mod;
  bool full = std::string(envOr("VERIF_TIER", "quick")) == "thorough" || c.size() <= 12;
  for (const Op &o : c) {
    switch (o.k) {
    case ADD: {
      std::string k = keyFrom(o.a, 1);
      if (k.empty()) continue;
      if (mod.m.count(k)) ctx.cls("re-add");
      t.add(k, (int) o.a[0]);
      mod.m[k] = (int) o.a[0];
      break;
    }
    case REMOVE: {
      std::string k = keyFrom(o.a, 0);
      if (k.empty()) continue;
      ctx.cls(mod.m.count(k) ? "remove-present" : "remove-absent");
      t.remove(k);
      mod.m.erase(k);
      break;
    }
    case REMOVE_IDX: {
      if (mod.m.empty()) continue;
      auto it = mod.m.begin();
      std::advance(it, o.a[0] % (ll) mod.m.size());
      std::string k = it->first;
      ctx.cls("remove-present");
      t.remove(k);
      mod.m.erase(k);
      break;
    }
    case FREEZE: t.freeze(); break;
    case DEFROST: t.defrost(); break;
    case AUTOFREEZE: t.autoFreeze = (o.a[0] & 1); break;
    case CLEAR: t.clear(); mod.m.clear(); ctx.cls("clear"); break;
    case QUERY: {
      // arbitrary query with explicit length <= strlen
      std::string q = keyFrom(o.a, 1);
      int len = (int) std::min<ll>(o.a[0], (ll) q.size());
      if (len < 1) continue;
      if (!checkQuery(t, mod, q, len, ctx, t.isFrozen ? "frozen" : "unfrozen")) return false;
      continue;
    }
    default: continue;
    }
    // after every mutating step: all queries in the current state, then in the other state
    const bool wasFrozen = t.isFrozen;
    ctx.cls(wasFrozen ? "state-frozen" : "state-unfrozen");
    if (!checkAll(t, mod, ctx, wasFrozen ? "frozen" : "unfrozen", full)) return false;
    if (wasFrozen) t.defrost(); else t.freeze();
    if (!checkAll(t, mod, ctx, wasFrozen ? "unfrozen(toggled)" : "frozen(toggled)", full)) return false;
    if (wasFrozen) t.freeze(); else t.defrost();
  }
  return true;
}

int main(int argc, char **argv) {
  auto sym = rng(0, 3);
  auto key = [&](int minLen) {
    return rc::gen::exec([=]() {
      std::vector<ll> v;
      int n = (int) *rng(minLen, 5);
      // bias toward 'a'/'b' so that keys share prefixes
      for (int i = 0; i < n; ++i) { ll s = *rng(0, 9); v.push_back(s < 4 ? 0 : s < 7 ? 1 : s < 9 ? 2 : 3); }
      return v;
    });
  };
  auto addG = rc::gen::exec([=]() { Op o; o.k = ADD; o.a.push_back(*rng(0, 99)); for (ll x : *key(1)) o.a.push_back(x); return o; });
  auto remG = rc::gen::exec([=]() { Op o; o.k = REMOVE; for (ll x : *key(1)) o.a.push_back(x); return o; });
  auto qG = rc::gen::exec([=]() { Op o; o.k = QUERY; o.a.push_back(*rng(1, 7));
                                   int n = (int) *rng(1, 7); for (int i = 0; i < n; ++i) o.a.push_back(*rng(0, 3)); return o; });
  (void) sym;
  rc::Gen<Case> gen = rc::gen::container<Case>(rc::gen::weightedOneOf<Op>({
    {10, addG}, {2, remG}, {4, mkOp(REMOVE_IDX, {rng(0, 63)})}, {2, mkOp(FREEZE, {})}, {2, mkOp(DEFROST, {})},
    {2, mkOp(AUTOFREEZE, {rng(0, 1)})}, {1, mkOp(CLEAR, {})}, {3, qG}}));
  return harnessMain(argc, argv, "C28 trie", gen, runCase, [](const Case &c) {
    std::ostringstream ss;
    static const char *names[] = {"add", "remove", "freeze", "defrost", "autoFreeze", "clear", "query", "removeStored#"};
    for (const Op &o : c) {
      ss << names[o.k] << "(";
      if (o.k == ADD) ss << hexEncode(keyFrom(o.a, 1)) << "=" << o.a[0];
      else if (o.k == REMOVE) ss << hexEncode(keyFrom(o.a, 0));
      else if (o.k == QUERY) ss << hexEncode(keyFrom(o.a, 1)) << "," << o.a[0];
      else if (o.k == AUTOFREEZE || o.k == REMOVE_IDX) ss << o.a[0];
      ss << ") ";
    }
    return ss.str();
  });
}
