// C11 — dtype / kernel-metadata JSON serialisation round trips.
//
// A case is a forest of dtype trees encoded as a pre-order op list, followed by top-level ops
// (cast pairs, kernel metadata, mode).  Every tree is built through the public construction API
// (dtype_t(name,bytes), addField, addEnumerator, dtype_t::tuple, registerType, named copies; unions
// can only be created from JSON, so their first field goes through a hand-written JSON object),
// serialised with toJson, read back with fromJson (JSON value or dumped text) and compared
//   * node by node against the model tree (kind, leaf names, field names in order, enumerators,
//     tuple sizes, element types) — independent of dtype_t::matches,
//   * bytes() of every node of the reconstruction against the same node of the original,
//   * rt.matches(orig) against twin.matches(orig), twin = an independent second construction from
//     the same model (a round trip must be as equivalent as an independent reconstruction is),
//   * canBeCastedTo on pairs: original pair vs round-tripped pair vs the two mixed pairs.
#include <algorithm>
#include <deque>
#include <memory>
#include <map>
#include <set>
#include <sstream>
#include <string>
#include <vector>
#include <iostream>

// dtype_t has no accessor for the tuple element type / size (isTuple()/tupleSize() are declared
// but not defined in the library), so the harness looks at the private members directly.
#define private public
#include <occa/dtype/dtype.hpp>
#undef private

#include "common.hpp"
#include "leakwatch.hpp"
#include <occa/dtype.hpp>
#include <occa/types/json.hpp>
#include <occa/internal/lang/kernelMetadata.hpp>

using namespace vf;
using occa::dtype_t;

// node kinds (pre-order), then top-level kinds
enum { N_BUILTIN = 0, N_CUSTOM, N_TUPLE, N_STRUCT, N_UNION, N_ENUM, N_NAMED, N_REF,
       T_CAST = 10, T_KERNEL = 11, T_MODE = 12 };

static const char *BUILTINS[] = {
  "void", "byte", "bool", "char", "short", "int", "long", "float", "double",
  "int8", "uint8", "int16", "uint16", "int32", "uint32", "int64", "uint64",
  "uchar2", "uchar3", "uchar4", "char2", "char3", "char4", "ushort2", "ushort3", "ushort4",
  "short2", "short3", "short4", "uint2", "uint3", "uint4", "int2", "int3", "int4",
  "ulong2", "ulong3", "ulong4", "long2", "long3", "long4",
  "float2", "float3", "float4", "double2", "double3", "double4"};
static const int NBUILTINS = (int) (sizeof(BUILTINS) / sizeof(BUILTINS[0]));

enum Kind { K_B, K_C, K_T, K_S, K_U, K_E };
static const char *KN[] = {"builtin", "custom", "tuple", "struct", "union", "enum"};

struct Node {
  Kind kind = K_B;
  std::string name;            // own name (leaf name for B/C; type name for composites)
  int bytes = 0;               // C: bytes; E: base bytes
  bool reg = false;
  int size = 0;                // T
  bool viaCopy = false;        // B: pass a copy (a reference dtype) instead of the global object
  bool viaAddField = false;    // T: created by addField(name, dtype, tupleSize > 1)
  bool namedCopy = false;      // built as dtype_t(name, base, registered) from a base named baseName
  std::string baseName;
  int id = 0;                  // identity of a registered object: REF copies share it
  std::vector<std::string> names;   // S/U field names, E enumerators
  std::vector<Node> kids;
  bool nonBuiltinLeaf() const {
    if (kind == K_C || kind == K_E) return true;
    for (auto &k : kids) if (k.nonBuiltinLeaf()) return true;
    return false;
  }
  bool nonBuiltinNode() const { return kind != K_B; }
  int depth() const { int d = 0; for (auto &k : kids) d = std::max(d, k.depth()); return d + 1; }
  std::string str() const {
    std::ostringstream ss;
    switch (kind) {
    case K_B: ss << name << (viaCopy ? "'" : ""); break;
    case K_C: ss << "custom(" << name << "," << bytes << ")"; break;
    case K_T: ss << "tuple(" << kids[0].str() << "," << size << ")"; break;
    case K_S: case K_U:
      ss << (kind == K_S ? "struct " : "union ") << name << "{";
      for (size_t i = 0; i < kids.size(); ++i) ss << (i ? "," : "") << names[i] << ":" << kids[i].str();
      ss << "}"; break;
    case K_E:
      ss << "enum " << name << "[" << bytes << "]{";
      for (size_t i = 0; i < names.size(); ++i) ss << (i ? "," : "") << names[i];
      ss << "}"; break;
    }
    if (reg && kind != K_B) ss << "!";
    return ss.str();
  }
};

static std::vector<std::string> splitNames(const std::string &s, size_t want, const char *dflt) {
  std::vector<std::string> out;
  std::stringstream ss(s);
  std::string t;
  while (std::getline(ss, t, ',')) out.push_back(t);
  out.resize(want);
  std::set<std::string> seen;
  for (size_t i = 0; i < out.size(); ++i) {
    std::string &n = out[i];
    std::string clean;
    for (char c : n) if (isalnum((unsigned char) c) || c == '_') clean += c;
    if (clean.empty() || isdigit((unsigned char) clean[0])) clean = std::string(dflt) + clean;
    while (seen.count(clean)) clean += "_" + std::to_string(i);   // field / enumerator names are unique (duplicates raise)
    seen.insert(clean);
    n = clean;
  }
  return out;
}

static std::string cleanTypeName(const std::string &s) {
  std::string r;
  for (char c : s) if (isalnum((unsigned char) c) || c == '_' || c == ':' || c == ' ') r += c;
  return r;
}

// ---- op list -> model forest -------------------------------------------------------------------
struct Reader {
  const Case &c;
  size_t pos = 0;
  std::vector<Node> trees;
  int budget = 200;       // total node bound for hand-edited / minimised replay files
  Reader(const Case &c_) : c(c_) {}
  static ll arg(const Op &o, size_t i, ll d = 0) { return i < o.a.size() ? o.a[i] : d; }

  Node leafInt() { Node n; n.kind = K_B; n.name = "int"; return n; }

  Node node(int depth) {
    if (pos >= c.size() || c[pos].k > N_REF || depth > 6 || --budget < 0) return leafInt();
    const Op &o = c[pos++];
    Node n;
    n.id = (int) pos;
    switch (o.k) {
    case N_BUILTIN: {
      n.kind = K_B;
      int idx = (int) (((arg(o, 0) % NBUILTINS) + NBUILTINS) % NBUILTINS);
      n.name = BUILTINS[idx];
      n.viaCopy = arg(o, 1) & 1;
      break;
    }
    case N_CUSTOM: {
      n.kind = K_C;
      n.name = cleanTypeName(o.s);
      if (n.name.empty()) n.name = "T";
      n.bytes = (int) std::max<ll>(0, std::min<ll>(arg(o, 0), 1 << 20));
      n.reg = arg(o, 1) & 1;
      break;
    }
    case N_TUPLE: {
      n.kind = K_T;
      n.size = (int) std::max<ll>(1, std::min<ll>(arg(o, 0, 1), 8));
      n.reg = arg(o, 1) & 1;
      n.kids.push_back(node(depth + 1));
      break;
    }
    case N_STRUCT: case N_UNION: {
      n.kind = (o.k == N_STRUCT) ? K_S : K_U;
      n.reg = arg(o, 0) & 1;
      size_t cnt = (size_t) std::max<ll>(1, std::min<ll>(arg(o, 1, 1), 6));
      std::string tn = o.s, fields;
      size_t bar = o.s.find('|');
      if (bar != std::string::npos) { tn = o.s.substr(0, bar); fields = o.s.substr(bar + 1); } else { fields = ""; }
      n.name = cleanTypeName(tn);
      n.names = splitNames(fields, cnt, "f");
      for (size_t i = 0; i < cnt; ++i) {
        Node kid = node(depth + 1);
        int ts = (int) std::max<ll>(1, std::min<ll>(arg(o, 2 + i, 1), 5));
        if (ts > 1) {          // addField(name, dtype, tupleSize) stores tuple(dtype, tupleSize)
          Node t; t.kind = K_T; t.size = ts; t.viaAddField = true; t.id = -(int) (pos * 8 + i); t.kids.push_back(kid);
          kid = t;
        }
        n.kids.push_back(kid);
      }
      break;
    }
    case N_ENUM: {
      n.kind = K_E;
      n.reg = arg(o, 0) & 1;
      n.bytes = (int) std::max<ll>(0, std::min<ll>(arg(o, 1), 64));
      size_t cnt = (size_t) std::max<ll>(1, std::min<ll>(arg(o, 2, 1), 6));
      std::string tn = o.s, en;
      size_t bar = o.s.find('|');
      if (bar != std::string::npos) { tn = o.s.substr(0, bar); en = o.s.substr(bar + 1); }
      n.name = cleanTypeName(tn);
      n.names = splitNames(en, cnt, "E");
      break;
    }
    case N_NAMED: {
      // dtype_t(name, other, registered): a registered `other` makes the result a plain reference
      const int myId = (int) pos;
      Node kid = node(depth + 1);
      if (kid.kind == K_B || kid.reg) return kid;
      if (!kid.namedCopy) kid.baseName = kid.name;
      kid.namedCopy = true;
      kid.viaAddField = false;
      kid.name = cleanTypeName(o.s);
      kid.reg = arg(o, 0) & 1;
      kid.id = myId;
      return kid;
    }
    case N_REF: {
      if (trees.empty()) return leafInt();
      return trees[(size_t) (((arg(o, 0) % (ll) trees.size()) + (ll) trees.size()) % (ll) trees.size())];
    }
    }
    return n;
  }
};

// ---- model -> dtype_t through the construction API ---------------------------------------------
struct Pool {
  std::deque<std::unique_ptr<dtype_t>> objs;     // stable addresses; registered objects live here
  std::map<int, const dtype_t*> registeredById;  // one object per registered model node (shared by REF copies)
  ~Pool() { while (!objs.empty()) objs.pop_back(); }
  dtype_t& keep(dtype_t *p) { objs.emplace_back(p); return *p; }
};

static const dtype_t& build(const Node &n, Pool &pool);

static const dtype_t& buildFresh(const Node &n, Pool &pool) {
  if (n.namedCopy) {
    Node base = n;
    base.namedCopy = false; base.name = n.baseName; base.reg = false;
    const dtype_t &b = buildFresh(base, pool);
    return pool.keep(new dtype_t(n.name, b, n.reg));        // the "named copy" constructor (how float2 & co are made)
  }
  switch (n.kind) {
  case K_B: {
    const dtype_t &g = dtype_t::getBuiltin(n.name);
    if (!n.viaCopy) return g;
    return pool.keep(new dtype_t(g));                      // reference dtype (what dtype::get<T>() returns)
  }
  case K_C: {
    dtype_t &d = pool.keep(new dtype_t(n.name, n.bytes));
    if (n.reg) d.registerType();
    return d;
  }
  case K_T: {
    const dtype_t &e = build(n.kids[0], pool);
    dtype_t &d = pool.keep(new dtype_t(dtype_t::tuple(e, n.size)));
    if (n.reg) d.registerType();
    return d;
  }
  case K_S: {
    dtype_t &d = pool.keep(new dtype_t(n.name));
    for (size_t i = 0; i < n.kids.size(); ++i) {
      const Node &k = n.kids[i];
      if (k.kind == K_T && k.viaAddField) d.addField(n.names[i], build(k.kids[0], pool), k.size);
      else d.addField(n.names[i], build(k, pool));
    }
    if (n.reg) d.registerType();
    return d;
  }
  case K_U: {
    // no public constructor creates a union: the first field comes from JSON
    occa::json j, f;
    j["type"] = "union";
    if (!n.name.empty()) j["name"] = n.name;
    f["dtype"] = occa::dtype::toJson(build(n.kids[0], pool));
    f["name"] = n.names[0];
    j["fields"].asArray() += f;
    dtype_t &d = pool.keep(new dtype_t(dtype_t::fromJson(j)));
    for (size_t i = 1; i < n.kids.size(); ++i) {
      const Node &k = n.kids[i];
      if (k.kind == K_T && k.viaAddField) d.addField(n.names[i], build(k.kids[0], pool), k.size);
      else d.addField(n.names[i], build(k, pool));
    }
    if (n.reg) d.registerType();
    return d;
  }
  case K_E: {
    dtype_t &d = pool.keep(new dtype_t(n.name, n.bytes));
    for (auto &e : n.names) d.addEnumerator(e);
    if (n.reg) d.registerType();
    return d;
  }
  }
  return occa::dtype::none;
}

static const dtype_t& build(const Node &n, Pool &pool) {
  if (n.kind == K_B || !n.reg) return buildFresh(n, pool);
  auto it = pool.registeredById.find(n.id);
  if (it != pool.registeredById.end()) return *it->second;
  const dtype_t &d = buildFresh(n, pool);
  pool.registeredById[n.id] = &d;
  return d;
}
static const dtype_t& buildTop(const Node &n, Pool &pool) { return build(n, pool); }

static bool isBuiltinObject(const dtype_t &x) {
  const dtype_t &s = x.self();
  return s.registered && (&dtype_t::getBuiltin(s.name_) == &s) && (&s != &occa::dtype::none);
}
static Kind kindOf(const dtype_t &x) {
  const dtype_t &s = x.self();
  if (isBuiltinObject(s)) return K_B;
  if (s.enum_) return K_E;
  if (s.struct_) return K_S;
  if (s.tuple_) return K_T;
  if (s.union_) return K_U;
  return K_C;
}

struct Cmp {
  Ctx &ctx;
  const char *what;
  bool fail(const std::string &path, const std::string &msg) {
    return ctx.fail(std::string(what) + ": at " + (path.empty() ? "<root>" : path) + ": " + msg);
  }
  // m = model, o = original, r = reconstruction
  bool run(const Node &m, const dtype_t &o, const dtype_t &r, const std::string &path) {
    const dtype_t &os = o.self(), &rs = r.self();
    std::ostringstream ss;
    if (kindOf(os) != m.kind)
      return fail(path, std::string("HARNESS-MODEL mismatch: constructed dtype is ") + KN[kindOf(os)] + ", model " + KN[m.kind]);
    if (kindOf(rs) != m.kind) {
      ss << "kind changed: " << KN[m.kind] << " -> " << KN[kindOf(rs)] << " (name '" << rs.name_ << "')";
      return fail(path, ss.str());
    }
    if (r.bytes() != o.bytes()) {
      ss << "bytes() changed: " << o.bytes() << " -> " << r.bytes() << " for " << m.str();
      return fail(path, ss.str());
    }
    switch (m.kind) {
    case K_B:
      if (&rs != &os) return fail(path, "builtin identity changed: " + os.name_ + " -> " + rs.name_);
      if (r.name() != o.name()) return fail(path, "builtin name changed");
      break;
    case K_C:
      if (r.name() != m.name) return fail(path, "custom name changed: '" + m.name + "' -> '" + r.name() + "'");
      if (r.bytes() != m.bytes) { ss << "custom bytes changed: " << m.bytes << " -> " << r.bytes(); return fail(path, ss.str()); }
      break;
    case K_T:
      if (os.tuple_->size != m.size) return fail(path, "HARNESS-MODEL mismatch: tuple size");
      if (rs.tuple_->size != m.size) { ss << "tuple size changed: " << m.size << " -> " << rs.tuple_->size; return fail(path, ss.str()); }
      return run(m.kids[0], os.tuple_->dtype, rs.tuple_->dtype, path + "[]");
    case K_S: case K_U: {
      const occa::strVector &on = (m.kind == K_S) ? o.structFieldNames() : o.unionFieldNames();
      const occa::strVector &rn = (m.kind == K_S) ? r.structFieldNames() : r.unionFieldNames();
      if (on != m.names) return fail(path, "HARNESS-MODEL mismatch: field names");
      if (rn != m.names) {
        ss << "field names/order changed: [";
        for (auto &x : m.names) ss << x << " ";
        ss << "] -> [";
        for (auto &x : rn) ss << x << " ";
        ss << "]";
        return fail(path, ss.str());
      }
      const int cnt = (m.kind == K_S) ? r.structFieldCount() : r.unionFieldCount();
      if (cnt != (int) m.names.size()) return fail(path, "field count changed");
      for (size_t i = 0; i < m.kids.size(); ++i) {
        if (!run(m.kids[i], o[(int) i], r[(int) i], path + "." + m.names[i])) return false;
        // access by name must give the same field
        if (&(r[m.names[i]]) != &(r[(int) i])) return fail(path, "field by name != field by index: " + m.names[i]);
      }
      break;
    }
    case K_E:
      if (o.enumEnumeratorNames() != m.names) return fail(path, "HARNESS-MODEL mismatch: enumerators");
      if (r.enumEnumeratorNames() != m.names) return fail(path, "enumerators changed");
      if (r.enumEnumeratorCount() != (int) m.names.size()) return fail(path, "enumerator count changed");
      break;
    }
    return true;
  }
};

struct Mode { bool text = false; int indent = 2; bool explicitName = false; };

static dtype_t roundTrip(const dtype_t &d, const Mode &md) {
  occa::json j = md.explicitName ? occa::dtype::toJson(d, d.name()) : occa::dtype::toJson(d);
  if (!md.text) return occa::dtype::fromJson(j);
  const std::string txt = md.indent < 0 ? j.toString() : j.dump(md.indent);
  return occa::dtype::fromJson(txt);
}

static bool runCase(const Case &c, Ctx &ctx) {
  Reader rd(c);
  std::vector<const Op*> tops;
  while (rd.pos < c.size()) {
    const Op &o = c[rd.pos];
    if (o.k <= N_REF) {
      Node n = rd.node(0);
      if (rd.trees.size() < 6) rd.trees.push_back(n);
    } else {
      tops.push_back(&o);
      ++rd.pos;
    }
  }
  std::vector<Node> &trees = rd.trees;
  if (trees.empty()) return true;

  Mode md;
  for (const Op *o : tops) if (o->k == T_MODE) {
    md.text = Reader::arg(*o, 0) & 1;
    md.indent = (int) std::max<ll>(-1, std::min<ll>(Reader::arg(*o, 1, 2), 6));
    md.explicitName = Reader::arg(*o, 2) & 1;
  }
  ctx.cls(md.text ? "mode-text" : "mode-json-value");

  // Declaration order = reverse destruction order: pools (which own the registered objects) are
  // declared first so that every reference dtype below dies before its target.
  Pool pool, twinPool;
  std::vector<const dtype_t*> orig, twin;
  for (auto &t : trees) {
    orig.push_back(&buildTop(t, pool));
    twin.push_back(&buildTop(t, twinPool));
    if (t.nonBuiltinNode()) ctx.nontrivial = true;
    ctx.cls(std::string("root-") + KN[t.kind]);
    if (t.nonBuiltinLeaf()) ctx.cls("has-custom-or-enum-leaf");
    std::ostringstream ds; ds << "depth-" << t.depth();
    ctx.cls(ds.str());
  }

  std::vector<std::unique_ptr<dtype_t>> rtA, rtB;
  for (size_t i = 0; i < trees.size(); ++i) {
    rtA.emplace_back(new dtype_t(roundTrip(*orig[i], md)));
    rtB.emplace_back(new dtype_t(roundTrip(*orig[i], md)));
    Cmp cmp{ctx, "round trip"};
    if (!cmp.run(trees[i], *orig[i], *rtA[i], "")) { ctx.why += "   [tree " + trees[i].str() + "]"; return false; }
    if (md.explicitName && trees[i].kind != K_B && rtA[i]->name() != orig[i]->name())
      return ctx.fail("toJson(d, d.name()) -> fromJson lost the name '" + orig[i]->name() + "' -> '" + rtA[i]->name() + "' for " + trees[i].str());
    // second round trip is stable
    dtype_t again = roundTrip(*rtA[i], md);
    Cmp cmp2{ctx, "second round trip"};
    if (!cmp2.run(trees[i], *orig[i], again, "")) { ctx.why += "   [tree " + trees[i].str() + "]"; return false; }
    // library equivalence, relative to an independent reconstruction
    const bool tm = twin[i]->matches(*orig[i]), rm = rtA[i]->matches(*orig[i]);
    const bool tm2 = orig[i]->matches(*twin[i]), rm2 = orig[i]->matches(*rtA[i]);
    if (tm != rm || tm2 != rm2) {
      std::ostringstream ss;
      ss << "matches(): independent twin " << tm << "/" << tm2 << " but round-tripped value " << rm << "/" << rm2 << " for " << trees[i].str();
      return ctx.fail(ss.str());
    }
    if (tm) ctx.cls("matches-true");
  }

  for (const Op *o : tops) {
    if (o->k == T_CAST) {
      const size_t n = trees.size();
      const size_t i = (size_t) (((Reader::arg(*o, 0) % (ll) n) + (ll) n) % (ll) n), j = (size_t) (((Reader::arg(*o, 1) % (ll) n) + (ll) n) % (ll) n);
      const bool pre = orig[i]->canBeCastedTo(*orig[j]);
      ctx.cls(pre ? "cast-true" : "cast-false");
      if (pre && trees[i].nonBuiltinLeaf() && trees[j].nonBuiltinLeaf()) {
        // leaves that are not builtins (custom, enum) are compared by address; a reconstruction
        // can never share the address
        if (known()("custom-leaf-identity")) continue;
      }
      if (pre) { ctx.cls(i == j ? "cast-true-compared-self" : "cast-true-compared-distinct-trees"); }
      const bool post = rtA[i]->canBeCastedTo(*rtB[j]);
      const bool mix1 = orig[i]->canBeCastedTo(*rtB[j]);
      const bool mix2 = rtA[i]->canBeCastedTo(*orig[j]);
      if (post != pre || mix1 != pre || mix2 != pre) {
        std::ostringstream ss;
        ss << "canBeCastedTo changed: a->b " << pre << ", rt(a)->rt(b) " << post << ", a->rt(b) " << mix1 << ", rt(a)->b " << mix2
           << "  a=" << trees[i].str() << "  b=" << trees[j].str();
        return ctx.fail(ss.str());
      }
    } else if (o->k == T_KERNEL) {
      occa::lang::kernelMetadata_t km;
      std::string kn = o->s, an;
      size_t bar = o->s.find('|');
      if (bar != std::string::npos) { kn = o->s.substr(0, bar); an = o->s.substr(bar + 1); }
      km.name = cleanTypeName(kn);
      const size_t cnt = (size_t) std::max<ll>(0, std::min<ll>(Reader::arg(*o, 0), 8));
      std::vector<std::string> anames = splitNames(an, cnt, "arg");
      std::vector<size_t> which;
      for (size_t a = 0; a < cnt; ++a) {
        const size_t t = (size_t) (((Reader::arg(*o, 3 + 3 * a) % (ll) trees.size()) + (ll) trees.size()) % (ll) trees.size());
        which.push_back(t);
        km += occa::lang::argMetadata_t(Reader::arg(*o, 1 + 3 * a) & 1, Reader::arg(*o, 2 + 3 * a) & 1, *orig[t], anames[a]);
      }
      occa::json j = km.toJson();
      occa::lang::kernelMetadata_t back;
      if (md.text) {
        const std::string txt = j.dump(md.indent < 0 ? 0 : md.indent);
        back = occa::lang::kernelMetadata_t::fromJson(occa::json::parse(txt));
      } else {
        back = occa::lang::kernelMetadata_t::fromJson(j);
      }
      ctx.cls("kernel-metadata");
      if (back.name != km.name) return ctx.fail("kernel name changed: '" + km.name + "' -> '" + back.name + "'");
      if (back.arguments.size() != cnt) return ctx.fail("kernel argument count changed");
      for (size_t a = 0; a < cnt; ++a) {
        const occa::lang::argMetadata_t &x = km.arguments[a], &y = back.arguments[a];
        std::ostringstream ss;
        ss << "kernel '" << km.name << "' argument " << a << " ";
        if (x.isConst != y.isConst) return ctx.fail(ss.str() + "const flag changed");
        if (x.isPtr != y.isPtr) return ctx.fail(ss.str() + "ptr flag changed");
        if (x.name != y.name) return ctx.fail(ss.str() + "name changed: '" + x.name + "' -> '" + y.name + "'");
        Cmp cmp{ctx, "kernel metadata"};
        if (!cmp.run(trees[which[a]], x.dtype, y.dtype, ss.str())) { ctx.why += "   [tree " + trees[which[a]].str() + "]"; return false; }
        // the check a launch performs: memory dtype (original) against the argument dtype
        const bool pre = orig[which[a]]->canBeCastedTo(x.dtype), post = orig[which[a]]->canBeCastedTo(y.dtype);
        if (pre != post) {
          if (pre && trees[which[a]].nonBuiltinLeaf() && known()("custom-leaf-identity")) continue;
          return ctx.fail(ss.str() + "memory dtype castable to the argument dtype before the round trip but not after (or vice versa): " + trees[which[a]].str());
        }
      }
    }
  }
  return true;
}

// ---- generator ---------------------------------------------------------------------------------
static std::string genIdent() {
  static const char *first = "abcxyzABZ_fkn", *rest = "abcxyz019_AZ";
  std::string s;
  int n = (int) *rng(1, 5);
  s += first[*rng(0, 12)];
  for (int i = 1; i < n; ++i) s += rest[*rng(0, 11)];
  return s;
}
static std::string genNames(int n) {
  std::string s;
  // small pool so that names collide across structs and insertion order differs from sorted order
  for (int i = 0; i < n; ++i) { if (i) s += ","; s += genIdent(); }
  return s;
}

// palette >= 0: every leaf is the scalar builtin BUILTINS[palette] or one of its vector types, so
// that generated pairs are often cast compatible (float <-> float2 <-> struct{float,float} ...)
static void genNode(Case &c, int depth, int maxDepth, int nTreesSoFar, int palette = -1) {
  Op o;
  ll pick = *rng(0, 99);
  const bool leaf = depth >= maxDepth;
  if (leaf) pick = pick % 45;
  if (palette >= 0 && pick < 45) {
    o.k = N_BUILTIN;
    ll idx = palette;
    if (*rng(0, 3) == 0) {                       // vector builtin of the same element type
      const std::string base = BUILTINS[palette];
      std::vector<ll> cand;
      for (int i = 0; i < NBUILTINS; ++i) {
        const std::string n = BUILTINS[i];
        if (n.size() == base.size() + 1 && n.compare(0, base.size(), base) == 0 && n.back() >= '2' && n.back() <= '4') cand.push_back(i);
      }
      if (!cand.empty()) idx = cand[(size_t) *rng(0, (ll) cand.size() - 1)];
    }
    o.a = {idx, *rng(0, 3) == 0 ? 1 : 0};
    c.push_back(o);
    return;
  }
  if (pick < 25) {
    o.k = N_BUILTIN; o.a = {*rng(0, NBUILTINS - 1), *rng(0, 3) == 0 ? 1 : 0};
    // bias toward the scalar builtins that real kernels use
    if (*rng(0, 2) != 0) o.a[0] = *rng(2, 8);
    c.push_back(o);
  } else if (pick < 38) {
    o.k = N_CUSTOM;
    ll nm = *rng(0, 9);
    o.s = (nm == 0) ? std::string(BUILTINS[*rng(0, NBUILTINS - 1)])       // custom type that reuses a builtin's name
        : (nm <= 4) ? std::string(nm <= 2 ? "foo" : "bar")                  // shared names
        : genIdent();
    ll b = *rng(0, 7);
    o.a = {b == 0 ? 0 : b == 1 ? *rng(1, 4096) : (ll) (1 << *rng(0, 5)), *rng(0, 2) == 0 ? 1 : 0};
    c.push_back(o);
  } else if (pick < 45) {
    o.k = N_ENUM;
    int n = (int) *rng(1, 5);
    o.a = {*rng(0, 3) == 0 ? 1 : 0, *rng(0, 1) ? 0 : (ll) (1 << *rng(0, 3)), n};
    o.s = genIdent() + "|" + genNames(n);
    c.push_back(o);
  } else if (pick < 60) {
    o.k = N_TUPLE; o.a = {*rng(1, 5), *rng(0, 4) == 0 ? 1 : 0};
    c.push_back(o);
    genNode(c, depth + 1, maxDepth, nTreesSoFar, palette);
  } else if (pick < 82) {
    o.k = N_STRUCT;
    int n = (int) *rng(1, 5);
    o.a = {*rng(0, 4) == 0 ? 1 : 0, n};
    for (int i = 0; i < n; ++i) o.a.push_back(*rng(0, 3) == 0 ? *rng(2, 4) : 1);
    o.s = (*rng(0, 3) == 0 ? std::string("") : genIdent()) + "|" + genNames(n);
    c.push_back(o);
    for (int i = 0; i < n; ++i) genNode(c, depth + 1, maxDepth, nTreesSoFar, palette);
  } else if (pick < 90) {
    o.k = N_UNION;
    int n = (int) *rng(1, 4);
    o.a = {*rng(0, 4) == 0 ? 1 : 0, n};
    for (int i = 0; i < n; ++i) o.a.push_back(1);
    o.s = (*rng(0, 1) ? std::string("") : genIdent()) + "|" + genNames(n);
    c.push_back(o);
    for (int i = 0; i < n; ++i) genNode(c, depth + 1, maxDepth, nTreesSoFar, palette);
  } else if (pick < 95) {
    o.k = N_NAMED; o.a = {*rng(0, 1)}; o.s = genIdent();
    c.push_back(o);
    genNode(c, depth + 1, maxDepth, nTreesSoFar, palette);
  } else {
    if (nTreesSoFar == 0) { genNode(c, depth, maxDepth, nTreesSoFar, palette); return; }
    o.k = N_REF; o.a = {*rng(0, nTreesSoFar - 1)};
    c.push_back(o);
  }
}

static rc::Gen<Case> genCase() {
  return rc::gen::exec([]() {
    Case c;
    const int nt = (int) *rng(1, 4);
    static const int scalars[] = {3, 4, 5, 6, 7, 8};     // char short int long float double
    const int palette = (*rng(0, 2) == 0) ? scalars[*rng(0, 5)] : -1;
    for (int t = 0; t < nt; ++t) genNode(c, 0, (int) *rng(palette >= 0 ? 1 : 0, 3), t, palette);
    const int np = (int) *rng(0, 5);
    for (int p = 0; p < np; ++p) { Op o; o.k = T_CAST; o.a = {*rng(0, nt - 1), *rng(0, nt - 1)}; c.push_back(o); }
    if (*rng(0, 2) == 0) {
      Op o; o.k = T_KERNEL;
      const int na = (int) *rng(0, 5);
      o.a = {na};
      for (int a = 0; a < na; ++a) { o.a.push_back(*rng(0, 1)); o.a.push_back(*rng(0, 1)); o.a.push_back(*rng(0, nt - 1)); }
      o.s = genIdent() + "|" + genNames(na);
      c.push_back(o);
    }
    if (*rng(0, 1)) { Op o; o.k = T_MODE; o.a = {*rng(0, 1), *rng(-1, 4), *rng(0, 1)}; c.push_back(o); }
    return c;
  });
}

static std::string describe(const Case &c) {
  Reader rd(c);
  std::ostringstream ss;
  while (rd.pos < c.size()) {
    const Op &o = c[rd.pos];
    if (o.k <= N_REF) { Node n = rd.node(0); if (rd.trees.size() < 6) rd.trees.push_back(n); ss << "T" << rd.trees.size() - 1 << "=" << n.str() << " "; }
    else {
      if (o.k == T_CAST) ss << "cast(" << Reader::arg(o, 0) << "," << Reader::arg(o, 1) << ") ";
      else if (o.k == T_KERNEL) ss << "kernel(" << o.s << ";" << Reader::arg(o, 0) << " args) ";
      else if (o.k == T_MODE) ss << "mode(text=" << Reader::arg(o, 0) << ",indent=" << Reader::arg(o, 1) << ",name=" << Reader::arg(o, 2) << ") ";
      ++rd.pos;
    }
  }
  return ss.str();
}

int main(int argc, char **argv) {
  RunFn run = leakWatched(runCase, "memory allocated by dtype/metadata (de)serialisation during this case is unreachable at its end");
  return harnessMain(argc, argv, "C11 dtype json round trip", genCase(), run, describe);
}
