// C16 — libFuzzer target for the OKL front end: parser + every backend translator, in-process.
//
// Input  : byte 0 = selector, bytes 1.. = source text (cut at its first NUL: every OCCA entry point takes a C string).
//          selector s = (uint8_t) (byte0 - '0'):  translator = s % 7  (serial openmp cuda hip opencl metal dpcpp)
//                                                 source kind = (s / 7) % 2  (0 = string source, 1 = file source)
// Per input (everything fresh, nothing kept across inputs except counters in static storage):
//   * a new parser object of the selected mode (okl::serialParser ... okl::dpcppParser, default settings + "mode");
//   * string source: parser_t::parseSource(std::string) on an exact-size heap copy of the text; texts shorter than 16
//     bytes would live in std::string's in-object buffer, so for those the 8 lines of parser_t::setSource()/parseSource()
//     are replayed on an exact-size malloc buffer (size + NUL): a one-byte over-read is an ASan report either way;
//     file source: the text is written to <cwd>/c16_<pid>.okl and given to parser_t::parseFile() (what
//     occa::device::buildKernel does);
//   * when the parser reports success the remaining pipeline of device::buildKernel runs: toString() of the device source,
//     toString() of the launcher source (launcher modes), setSourceMetadata() of both;
//   * the parser is destroyed (also after an exception).
// Clean outcomes: success, or !succeeded() with diagnostics (silenced and counted through io::stderr/stdout.setOverride),
// or occa::exception.  Everything else (signal, sanitizer report, std::terminate, foreign exception, abort) kills the
// process and libFuzzer writes the crash artifact.
//
// Harness-side restrictions (stated as assumptions in lib/p_C16.py):
//   * `#include` may only reach files of the sandbox directory the process runs in: an input in which the text "include"
//     is followed, in a later `"..."` / `<...` span of the same line, by '/' or '~' is skipped (counted).  /dev/zero,
//     /dev/stdin, /proc/... would make the run depend on the machine, not on OCCA.
//   * bracket nesting deeper than C16_NEST_CAP, runs of more than C16_UNARY_CAP unary operator characters and macro
//     definitions whose expansion is not bounded by a small number (see macroExpansionUnbounded) are skipped (counted):
//     recursion depth = nesting depth in a recursive-descent parser, and a macro bomb is not an OCCA defect.
//   * in-target exclusion of known findings by class (ids in VERIF_KNOWN):
//       nested-attribute-exponential : attributes nested more than C16_ATTR_NEST_CAP deep in attribute arguments
//       macro-mutual-recursion-hang  : a function-like macro on a cycle of the macro reference graph
//       typedef-struct-alias-uaf     : the text contains "typedef" and ("struct" or "enum")
//       ifdef-without-name           : "...def" followed only by blanks up to the end of its line (#ifdef / #ifndef)
//       statement-attribute-on-bare-type : contains @barrier or @atomic and ends with an identifier character
#include <occa.hpp>
#include <occa/internal/io/output.hpp>
#include <occa/internal/utils/env.hpp>
#include <occa/internal/lang/modes/serial.hpp>
#include <occa/internal/lang/modes/openmp.hpp>
#include <occa/internal/lang/modes/cuda.hpp>
#include <occa/internal/lang/modes/hip.hpp>
#include <occa/internal/lang/modes/opencl.hpp>
#include <occa/internal/lang/modes/metal.hpp>
#include <occa/internal/lang/modes/dpcpp.hpp>

#include <occa/internal/lang/operator.hpp>

#include <dlfcn.h>
#include <cstdint>
#include <cstdio>
#include <cstdlib>
#include <cstring>
#include <string>
#include <unistd.h>

using namespace occa::lang;

enum { M_SERIAL = 0, M_OPENMP, M_CUDA, M_HIP, M_OPENCL, M_METAL, M_DPCPP, M_COUNT };
static const char *M_NAMES[M_COUNT] = {"serial", "openmp", "cuda", "hip", "opencl", "metal", "dpcpp"};

// ---- throughput only -------------------------------------------------------------------------------------------------
// Every tokenizer_t constructor calls setup(), which adds ~75 operators to a trie that re-freezes itself after every add
// (quadratic) and derives the operator start characters; preprocessor_t::init() builds ~20 tokenizers (one per builtin
// macro) and runs in the parser constructor and again in clear(), twice for the launcher modes: ~100 ms per input under
// ASan, all of it before the first input byte is read.  The executable interposes tokenizer_t::setup(): the first call
// runs libocca's own function (dlsym RTLD_NEXT) and keeps the two members it computes (operators, operatorCharcodes) as a
// prototype; later calls copy the prototype (trie::operator= yields the same frozen trie).  setup() is only called from
// the constructors, on an empty trie, and reads no other state, so the result is identical.  -DC16_NO_FASTSETUP = off.
#ifndef C16_NO_FASTSETUP
namespace occa {
  namespace lang {
    void tokenizer_t::setup() {
      typedef void (*fn_t)(tokenizer_t*);
      static fn_t real = NULL;
      static operatorTrie *protoOps = NULL;
      static std::string *protoCodes = NULL;
      if (!real) {
        real = (fn_t) dlsym(RTLD_NEXT, "_ZN4occa4lang11tokenizer_t5setupEv");
        if (!real) { fprintf(stderr, "C16: occa::lang::tokenizer_t::setup() not found in libocca\n"); _exit(3); }
      }
      if (!protoOps || !operators.isEmpty()) {
        real(this);
        if (!protoOps) {
          protoOps = new operatorTrie();
          *protoOps = operators;
          protoCodes = new std::string(operatorCharcodes);
        }
        return;
      }
      operators = *protoOps;
      operatorCharcodes = *protoCodes;
    }
  }
}
#endif

#ifndef C16_NEST_CAP
#define C16_NEST_CAP 200
#endif

// ---- statistics (fixed-size storage only: an allocation that outlives one input makes libFuzzer run leak checks) ----
enum { O_ACCEPT = 0, O_REJECT, O_THROW, O_COUNT };
static const char *O_NAMES[O_COUNT] = {"accepted", "rejected(errors reported)", "rejected(occa::exception)"};
enum { K_ATTRNEST = 0, K_MACROCYCLE, K_TYPEDEF, K_IFDEF, K_ATTRTYPE, K_COUNT };
static const char *K_IDS[K_COUNT] = {"nested-attribute-exponential", "macro-mutual-recursion-hang", "typedef-struct-alias-uaf",
                                     "ifdef-without-name", "statement-attribute-on-bare-type"};
#ifndef C16_ATTR_NEST_CAP
#define C16_ATTR_NEST_CAP 4
#endif
#ifndef C16_UNARY_CAP
#define C16_UNARY_CAP 256
#endif

static long g_evals = 0;
static long g_mode[M_COUNT][O_COUNT];
static long g_stmt[2][O_COUNT];        // [statements parsed > 0][outcome]
static long g_kind[2];                 // string source / file source
static long g_tokens = 0;              // inputs whose tokens were loaded (tokenizer + preprocessor without error)
static long g_nul = 0, g_empty = 0, g_incl = 0, g_diag = 0, g_launcher = 0, g_nest = 0, g_unary = 0, g_macro = 0;
static long g_known[K_COUNT];
static bool g_knownOn[K_COUNT];
static long g_diagChunks = 0;          // per input
static const size_t NT_SLOTS = 1u << 20;
static uint64_t *g_nt = NULL;
static size_t g_ntUsed = 0;
static char g_file[64];

static uint64_t fnv(const uint8_t *d, size_t n) {
  uint64_t h = 1469598103934665603ULL;
  for (size_t i = 0; i < n; ++i) { h ^= d[i]; h *= 1099511628211ULL; }
  return h ? h : 1;
}

static void ntInsert(uint64_t h) {
  if (!g_nt || g_ntUsed * 2 > NT_SLOTS) return;
  size_t i = (size_t) (h & (NT_SLOTS - 1));
  while (g_nt[i] && g_nt[i] != h) i = (i + 1) & (NT_SLOTS - 1);
  if (!g_nt[i]) { g_nt[i] = h; ++g_ntUsed; }
}

static void dumpStats() {
  unlink(g_file);
  const char *p = getenv("VERIF_STATS");
  if (!p || !*p) return;
  FILE *f = fopen(p, "w");
  if (!f) return;
  fprintf(f, "{\"evaluations\":%ld,\"nontrivial\":[", g_evals);
  bool first = true;
  for (size_t i = 0; g_nt && i < NT_SLOTS; ++i)
    if (g_nt[i]) { fprintf(f, "%s\"%llx\"", first ? "" : ",", (unsigned long long) g_nt[i]); first = false; }
  fprintf(f, "],\"classes\":{\"fuzz:executions\":%ld", g_evals);
  for (int m = 0; m < M_COUNT; ++m)
    for (int o = 0; o < O_COUNT; ++o)
      if (g_mode[m][o]) fprintf(f, ",\"fuzz:%s:%s\":%ld", M_NAMES[m], O_NAMES[o], g_mode[m][o]);
  for (int s = 0; s < 2; ++s)
    for (int o = 0; o < O_COUNT; ++o)
      if (g_stmt[s][o]) fprintf(f, ",\"fuzz:%s:%s\":%ld", s ? "statements-parsed>0" : "statements-parsed=0", O_NAMES[o], g_stmt[s][o]);
  if (g_tokens) fprintf(f, ",\"fuzz:tokens-loaded(tokenizer+preprocessor ok, >0 tokens)\":%ld", g_tokens);
  if (g_kind[0]) fprintf(f, ",\"fuzz:string-source(parseSource)\":%ld", g_kind[0]);
  if (g_kind[1]) fprintf(f, ",\"fuzz:file-source(parseFile)\":%ld", g_kind[1]);
  if (g_launcher) fprintf(f, ",\"fuzz:accepted-with-launcher-source-printed\":%ld", g_launcher);
  if (g_diag) fprintf(f, ",\"fuzz:diagnostics-printed\":%ld", g_diag);
  if (g_nul) fprintf(f, ",\"fuzz:input-cut-at-first-NUL\":%ld", g_nul);
  if (g_empty) fprintf(f, ",\"fuzz:empty-input(no selector)\":%ld", g_empty);
  if (g_incl) fprintf(f, ",\"fuzz:skipped(#include with a path separator)\":%ld", g_incl);
  if (g_nest) fprintf(f, ",\"fuzz:skipped(bracket nesting deeper than %d)\":%ld", C16_NEST_CAP, g_nest);
  if (g_unary) fprintf(f, ",\"fuzz:skipped(run of more than %d unary operator characters)\":%ld", C16_UNARY_CAP, g_unary);
  if (g_macro) fprintf(f, ",\"fuzz:skipped(macro expansion bound)\":%ld", g_macro);
  fprintf(f, "},\"excluded\":{");
  first = true;
  for (int k = 0; k < K_COUNT; ++k)
    if (g_known[k]) { fprintf(f, "%s\"%s\":%ld", first ? "" : ",", K_IDS[k], g_known[k]); first = false; }
  fprintf(f, "},\"samples\":[]}\n");
  fclose(f);
}

static bool g_echo = false;      // VERIF_C16_ECHO=1: show the diagnostics (triage aid)
static void sink(const char *s) { ++g_diagChunks; if (g_echo) fputs(s, stderr); }

// true when an #include of the text could name a file outside the current directory
static bool includeLeavesSandbox(const char *s, size_t n) {
  const char *inc = (const char*) memmem(s, n, "include", 7);
  if (!inc) return false;
  // a line splice (backslash newline) keeps the span open
  bool open = false;
  for (size_t i = (size_t) (inc - s); i < n; ++i) {
    const char c = s[i];
    if (c == '\n' || c == '\r') {
      size_t j = i;
      while (j > 0 && (s[j - 1] == '\r' || s[j - 1] == '\n')) --j;
      if (!(j > 0 && s[j - 1] == '\\')) open = false;
      continue;
    }
    if (c == '"' || c == '<') { open = true; continue; }
    if (open && (c == '/' || c == '~')) return true;
  }
  return false;
}

static int nestingDepth(const char *s, size_t n) {
  int d = 0, mx = 0;
  for (size_t i = 0; i < n; ++i) {
    const char c = s[i];
    if (c == '(' || c == '[' || c == '{') { if (++d > mx) mx = d; }
    else if ((c == ')' || c == ']' || c == '}') && d > 0) --d;
  }
  return mx;
}


// longest run of unary-operator characters (white space ignored): the expression tree of `----...1` is cloned once per
// level (quadratic), 4000 of them take minutes under ASan
static int unaryRun(const char *s, size_t n) {
  int run = 0, mx = 0;
  for (size_t i = 0; i < n; ++i) {
    const char c = s[i];
    if (c == '-' || c == '+' || c == '!' || c == '~' || c == '*' || c == '&') { if (++run > mx) mx = run; }
    else if (c != ' ' && c != '\t' && c != '\n' && c != '\r') run = 0;
  }
  return mx;
}

static bool identStart(char c) { return (c >= 'a' && c <= 'z') || (c >= 'A' && c <= 'Z') || c == '_'; }
static bool identChar(char c) { return identStart(c) || (c >= '0' && c <= '9'); }

// depth of attributes nested in attribute arguments: @a(@b(@c(...)))
static int attributeNesting(const char *s, size_t n) {
  enum { MAXD = 512 };
  static bool isAttr[MAXD];
  int d = 0, ad = 0, mx = 0;
  for (size_t i = 0; i < n; ++i) {
    const char c = s[i];
    if (c == '(') {
      bool attr = false;
      size_t j = i;
      while (j > 0 && (s[j - 1] == ' ' || s[j - 1] == '\t' || s[j - 1] == '\n' || s[j - 1] == '\r')) --j;
      size_t e = j;
      while (j > 0 && identChar(s[j - 1])) --j;
      if (j < e) {
        while (j > 0 && (s[j - 1] == ' ' || s[j - 1] == '\t' || s[j - 1] == '\n' || s[j - 1] == '\r')) --j;
        attr = (j > 0 && s[j - 1] == '@');
      }
      if (d < MAXD) isAttr[d] = attr;
      ++d;
      if (attr && ++ad > mx) mx = ad;
    } else if (c == ')' && d > 0) {
      --d;
      if (d < MAXD && isAttr[d]) --ad;
    }
  }
  return mx;
}

// ---- macro definitions of the text (every occurrence of the word "define", so that @directive("#define ...") counts) ----
struct MacroDef { const char *name; int nameLen; bool functionLike; const char *body; int bodyLen; };
enum { MAXMACROS = 64 };
static MacroDef g_macros[MAXMACROS];
static int g_macroCount = 0;
static bool g_macroOverflow = false;

static void collectMacros(const char *s, size_t n) {
  g_macroCount = 0;
  g_macroOverflow = false;
  size_t i = 0;
  while (i + 6 <= n) {
    const char *q = (const char*) memmem(s + i, n - i, "define", 6);
    if (!q) break;
    size_t j = (size_t) (q - s) + 6;
    i = j;
    while (j < n && (s[j] == ' ' || s[j] == '\t')) ++j;
    if (j >= n || !identStart(s[j])) continue;
    MacroDef m;
    m.name = s + j;
    size_t k = j;
    while (k < n && identChar(s[k])) ++k;
    m.nameLen = (int) (k - j);
    m.functionLike = (k < n && s[k] == '(');
    if (m.functionLike) { while (k < n && s[k] != ')' && s[k] != '\n') ++k; if (k < n && s[k] == ')') ++k; }
    m.body = s + k;
    size_t e = k;
    while (e < n) {
      if (s[e] == '\n') {
        size_t b = e;
        while (b > k && s[b - 1] == '\r') --b;
        if (!(b > k && s[b - 1] == '\\')) break;
      }
      ++e;
    }
    m.bodyLen = (int) (e - k);
    if (g_macroCount < MAXMACROS) g_macros[g_macroCount++] = m; else g_macroOverflow = true;
    i = k;
  }
}

static int countIdent(const MacroDef &m, const char *name, int nameLen) {
  int cnt = 0;
  for (int i = 0; i < m.bodyLen; ) {
    if (identStart(m.body[i]) && (i == 0 || !identChar(m.body[i - 1]))) {
      int e = i;
      while (e < m.bodyLen && identChar(m.body[e])) ++e;
      if (e - i == nameLen && !memcmp(m.body + i, name, nameLen)) ++cnt;
      i = e;
    } else ++i;
  }
  return cnt;
}

// product over the definitions of the highest multiplicity of one identifier in the body, to the power of the
// parenthesis depth of the text + 1: a (generous) bound on what the expansion can multiply
static bool macroExpansionUnbounded(const char *s, size_t n) {
  if (g_macroOverflow) return true;
  double P = 1;
  for (int a = 0; a < g_macroCount; ++a) {
    const MacroDef &m = g_macros[a];
    int R = 1;
    for (int i = 0; i < m.bodyLen; ) {
      if (identStart(m.body[i]) && (i == 0 || !identChar(m.body[i - 1]))) {
        int e = i;
        while (e < m.bodyLen && identChar(m.body[e])) ++e;
        const int c = countIdent(m, m.body + i, e - i);
        if (c > R) R = c;
        i = e;
      } else ++i;
    }
    P *= R;
  }
  if (P <= 1) return false;
  int d = 0, D = 0;
  for (size_t i = 0; i < n; ++i) { if (s[i] == '(') { if (++d > D) D = d; } else if (s[i] == ')' && d > 0) --d; }
  double total = 1;
  for (int i = 0; i <= D && total <= 1e6; ++i) total *= P;
  return total > 1e6;
}

// a function-like macro on a cycle (of length >= 2) of the "body mentions" graph
static bool macroCycleThroughFunctionLike() {
  static bool edge[MAXMACROS][MAXMACROS];
  const int N = g_macroCount;
  for (int a = 0; a < N; ++a)
    for (int b = 0; b < N; ++b)
      edge[a][b] = countIdent(g_macros[a], g_macros[b].name, g_macros[b].nameLen) > 0;
  // redefinitions: the same name twice = the same node
  for (int a = 0; a < N; ++a)
    for (int b = 0; b < N; ++b)
      if (a != b && g_macros[a].nameLen == g_macros[b].nameLen && !memcmp(g_macros[a].name, g_macros[b].name, g_macros[a].nameLen))
        for (int c = 0; c < N; ++c) { if (edge[b][c]) edge[a][c] = true; }
  for (int f = 0; f < N; ++f) {
    if (!g_macros[f].functionLike) continue;
    bool seen[MAXMACROS] = {false};
    int stack[MAXMACROS], sp = 0;
    for (int x = 0; x < N; ++x) {
      const bool sameName = (g_macros[x].nameLen == g_macros[f].nameLen && !memcmp(g_macros[x].name, g_macros[f].name, g_macros[f].nameLen));
      if (edge[f][x] && !sameName && !seen[x]) { seen[x] = true; stack[sp++] = x; }
    }
    while (sp) {
      const int x = stack[--sp];
      for (int y = 0; y < N; ++y) {
        if (!edge[x][y]) continue;
        if (g_macros[y].nameLen == g_macros[f].nameLen && !memcmp(g_macros[y].name, g_macros[f].name, g_macros[f].nameLen)) return true;
        if (!seen[y]) { seen[y] = true; stack[sp++] = y; }
      }
    }
  }
  return false;
}

// ---- crash signatures: UBSan messages carry values ("2147483647 + 1 cannot be represented ..."); print a value-free
// line first (lib/v_fuzz.py takes VERIF-SIGNATURE when present) -----------------------------------------------------
extern "C" void __ubsan_get_current_report_data(const char **OutIssueKind, const char **OutMessage, const char **OutFilename,
                                                unsigned *OutLine, unsigned *OutCol, char **OutMemoryAddr);
extern "C" void __ubsan_on_report(void) {
  const char *kind = "", *msg = "", *file = "";
  unsigned line = 0, col = 0;
  char *addr = NULL;
  __ubsan_get_current_report_data(&kind, &msg, &file, &line, &col, &addr);
  const char *base = file ? strrchr(file, '/') : NULL;
  base = base ? base + 1 : (file ? file : "?");
  if (!strncmp(base, "primitive.", 10) && kind &&
      (strstr(kind, "integer-overflow") || strstr(kind, "shift") || strstr(kind, "negat")))
    fprintf(stderr, "VERIF-SIGNATURE: C16-ubsan integer overflow / invalid shift in constant folding (occa::primitive)\n");
  else
    fprintf(stderr, "VERIF-SIGNATURE: C16-ubsan %s @ %s:%u\n", kind ? kind : "?", base, line);
  fflush(stderr);
}

static parser_t* makeParser(int mode) {
  occa::json props;
  props["mode"] = M_NAMES[mode];
  switch (mode) {
  case M_SERIAL: return new okl::serialParser(props);
  case M_OPENMP: return new okl::openmpParser(props);
  case M_CUDA:   return new okl::cudaParser(props);
  case M_HIP:    return new okl::hipParser(props);
  case M_OPENCL: return new okl::openclParser(props);
  case M_METAL:  return new okl::metalParser(props);
  default:       return new okl::dpcppParser(props);
  }
}

// parser_t::parseSource() = setSource(source, false) + parseTokens(); replayed on a caller-owned exact-size buffer
static void parseExact(parser_t &p, const char *buf) {
  p.clear();
  p.stream.clearCache();
  p.tokenizer.set(buf);
  p.setupLoadTokens();
  p.loadTokens();
  delete p.root.source;
  p.root.source = (p.tokenContext.size() ? p.tokenContext[0]->clone() : p.defaultRootToken.clone());
  if (p.success) p.parseTokens();
}

extern "C" int LLVMFuzzerInitialize(int *, char ***) {
  occa::io::stderr.setOverride(sink);
  occa::io::stdout.setOverride(sink);
  g_echo = getenv("VERIF_C16_ECHO") != NULL;
  const char *dir = getenv("VERIF_C16_DIR");
  if (dir && *dir) {
    // OCCA resolves relative file names against env::CWD, captured when the library was loaded
    if (chdir(dir) != 0) { fprintf(stderr, "C16: cannot chdir to %s\n", dir); _exit(3); }
    occa::env::CWD = std::string(dir) + (dir[strlen(dir) - 1] == '/' ? "" : "/");
  }
  snprintf(g_file, sizeof(g_file), "c16_%ld.okl", (long) getpid());
  const char *known = getenv("VERIF_KNOWN");
  for (int k = 0; k < K_COUNT; ++k) {
    g_knownOn[k] = false;
    if (!known) continue;
    const size_t L = strlen(K_IDS[k]);
    for (const char *q = known; (q = strstr(q, K_IDS[k])); q += L)
      if ((q == known || q[-1] == ',') && (q[L] == 0 || q[L] == ',')) g_knownOn[k] = true;
  }
  g_nt = (uint64_t*) calloc(NT_SLOTS, sizeof(uint64_t));
  { tokenizer_t warm; (void) warm; }   // fills the operator cache outside the first input
  atexit(dumpStats);
  return 0;
}

extern "C" int LLVMFuzzerTestOneInput(const uint8_t *data, size_t size) {
  ++g_evals;
  if (size == 0) { ++g_empty; return 0; }
  const unsigned sel = (uint8_t) (data[0] - '0');
  const int mode = (int) (sel % M_COUNT);
  const int kind = (int) ((sel / M_COUNT) % 2);
  const uint8_t *text = data + 1;
  size_t n = size - 1;
  if (n) {
    const void *nul = memchr(text, 0, n);
    if (nul) { ++g_nul; n = (size_t) ((const uint8_t*) nul - text); }
  }
  if (includeLeavesSandbox((const char*) text, n)) { ++g_incl; return 0; }
  if (nestingDepth((const char*) text, n) > C16_NEST_CAP) { ++g_nest; return 0; }
  if (unaryRun((const char*) text, n) > C16_UNARY_CAP) { ++g_unary; return 0; }
  collectMacros((const char*) text, n);
  if (g_macroCount && macroExpansionUnbounded((const char*) text, n)) { ++g_macro; return 0; }
  if (g_knownOn[K_MACROCYCLE] && g_macroCount > 1 && macroCycleThroughFunctionLike()) { ++g_known[K_MACROCYCLE]; return 0; }
  if (g_knownOn[K_TYPEDEF] && memmem(text, n, "typedef", 7) && (memmem(text, n, "struct", 6) || memmem(text, n, "enum", 4))) {
    ++g_known[K_TYPEDEF];
    return 0;
  }
  if (g_knownOn[K_IFDEF]) {
    // #ifdef / #ifndef with nothing but blanks up to the end of the line
    bool hit = false;
    for (const char *q = (const char*) text; !hit && (q = (const char*) memmem(q, n - (size_t) (q - (const char*) text), "def", 3)); q += 3) {
      const char *e = q + 3, *end = (const char*) text + n;
      while (e < end && (*e == ' ' || *e == '\t' || *e == '\r')) ++e;
      if (e < end && *e == '\n') hit = true;
    }
    if (hit) { ++g_known[K_IFDEF]; return 0; }
  }
  if (g_knownOn[K_ATTRTYPE] && n && (memmem(text, n, "@barrier", 8) || memmem(text, n, "@atomic", 7))) {
    size_t e = n;
    while (e > 0 && (text[e - 1] == ' ' || text[e - 1] == '\t' || text[e - 1] == '\n' || text[e - 1] == '\r')) --e;
    if (e > 0 && identChar((char) text[e - 1])) { ++g_known[K_ATTRTYPE]; return 0; }
  }
  if (g_knownOn[K_ATTRNEST] && attributeNesting((const char*) text, n) > C16_ATTR_NEST_CAP) { ++g_known[K_ATTRNEST]; return 0; }

  // exact-size heap copy; it outlives the parser (tokens and diagnostics point into it)
  char *buf = (char*) malloc(n + 1);
  memcpy(buf, text, n);
  buf[n] = 0;
  std::string *src = NULL;

  g_diagChunks = 0;
  int outcome = O_REJECT;
  int statements = 0;
  bool launcherPrinted = false, tokensLoaded = false;
  parser_t *parser = NULL;
  try {
    parser = makeParser(mode);
    if (kind == 1) {
      FILE *f = fopen(g_file, "wb");
      if (!f) { fprintf(stderr, "C16: cannot write %s\n", g_file); _exit(3); }
      if (n) fwrite(buf, 1, n, f);
      fclose(f);
      parser->parseFile(g_file);
    } else if (n >= 16) {
      src = new std::string(buf, n);      // heap buffer of exactly n + 1 bytes
      parser->parseSource(*src);
    } else {
      parseExact(*parser, buf);
    }
    statements = parser->root.size();
    tokensLoaded = !parser->tokenContext.tokens.empty();
    if (parser->succeeded()) {
      outcome = O_ACCEPT;
      std::string device = parser->toString();
      occa::lang::sourceMetadata_t meta;
      parser->setSourceMetadata(meta);
      if (mode >= M_CUDA) {
        okl::withLauncher *wl = (okl::withLauncher*) parser;
        std::string launcher = wl->launcherParser.toString();
        occa::lang::sourceMetadata_t lmeta;
        wl->launcherParser.setSourceMetadata(lmeta);
        launcherPrinted = !launcher.empty();
      }
    }
  } catch (occa::exception &) {
    outcome = O_THROW;
    if (parser) statements = parser->root.size();
  }
  try {
    delete parser;
  } catch (occa::exception &) {
    outcome = O_THROW;
  }
  delete src;
  free(buf);

  ++g_mode[mode][outcome];
  ++g_stmt[statements > 0 ? 1 : 0][outcome];
  ++g_kind[kind];
  if (launcherPrinted) ++g_launcher;
  if (tokensLoaded) ++g_tokens;
  if (g_diagChunks) ++g_diag;
  if (statements > 0) ntInsert(fnv(data, size));
  return 0;
}
