// C03 / C04 / C05 — memory-pool layout, pool accounting, device accounting.
// One history generator, three oracles; VERIF_ORACLE selects which one decides (C03|C04|C05).
#include "common.hpp"
#include <occa.hpp>
#include <occa/internal/core/memory.hpp>
#include <occa/internal/core/memoryPool.hpp>
#include <occa/internal/core/buffer.hpp>
#include <occa/internal/utils/sys.hpp>
#include <algorithm>

using namespace vf;

enum { RESERVE = 0, RELEASE, SLICE, RESIZE, SHRINK, SETALIGN, WRITE, FRAG, MALLOC, CLONE, WRAP, FREEALLOC,
       POOLNEW, POOLFREE, FREE_EXPLICIT, RESIZE_BAD, SETALIGN_ZERO };
static const char *OPN[] = {"reserve", "release", "slice", "resize", "shrinkToFit", "setAlignment", "write", "fragment",
                            "malloc", "clone", "wrapMemory", "freeAlloc", "poolNew", "poolFree", "free()", "resizeBelowReserved",
                            "setAlignment(0)"};

static std::string ORACLE;
static bool isO(const char *o) { return ORACLE == o; }

struct Root { std::vector<unsigned char> bytes; };
struct Entry {
  occa::memory mem;
  int pool, root;
  ll rootOff, len;      // view into the root's shadow bytes
  bool isSlice;
};
struct Alloc {
  occa::memory mem;
  ll counted;           // bytes this allocation contributes to memoryAllocated()
  std::vector<unsigned char> shadow;
  void *hostOwned;      // host buffer the harness must free (wrap / use_host_pointer without own)
};

struct World {
  occa::device dev;
  occa::memoryPool pool[2];
  bool poolLive[2] = {false, false};
  std::vector<Entry> ent;
  std::vector<Root> roots;
  std::vector<Alloc> allocs;
  ll runMax = 0;        // running max of observed memoryAllocated()
  ll upper = 0;         // sound upper bound for maxMemoryAllocated()
  unsigned pat = 1;
  bool devHost = false;  // device created with memory: {use_host_pointer: true}
};

static const occa::dtype_t& dtypeOf(ll sel, int &sz) {
  switch (sel % 3) {
  case 0: sz = 1; return occa::dtype::byte;
  case 1: sz = 4; return occa::dtype::int_;
  default: sz = 8; return occa::dtype::double_;
  }
}

static void fill(std::vector<unsigned char> &v, size_t off, size_t n, unsigned &pat) {
  for (size_t i = 0; i < n; ++i) { pat = pat * 1103515245u + 12345u; v[off + i] = (unsigned char) (pat >> 16); }
}

static ll poolSum(World &w) {
  ll s = 0;
  for (int p = 0; p < 2; ++p) if (w.poolLive[p]) s += (ll) w.pool[p].size();
  return s;
}

// ---- oracles -------------------------------------------------------------------------------------
static bool checkC03(World &w, Ctx &ctx, const char *after) {
  std::ostringstream why;
  // contents
  std::vector<unsigned char> buf;
  for (size_t i = 0; i < w.ent.size(); ++i) {
    Entry &e = w.ent[i];
    if (!e.mem.isInitialized()) { why << after << ": entry " << i << " lost its memory"; return ctx.fail(why.str()); }
    if ((ll) e.mem.byte_size() != e.len) { why << after << ": entry " << i << " byte_size " << e.mem.byte_size() << " model " << e.len; return ctx.fail(why.str()); }
    buf.assign(e.len ? e.len : 1, 0);
    e.mem.cast(occa::dtype::byte).copyTo(buf.data(), e.len);
    const unsigned char *exp = w.roots[e.root].bytes.data() + e.rootOff;
    for (ll k = 0; k < e.len; ++k) if (buf[k] != exp[k]) {
      why << after << ": entry " << i << (e.isSlice ? " (slice)" : "") << " of pool " << e.pool << " reads byte " << k << " = "
          << (int) buf[k] << " but last written " << (int) exp[k] << " (len " << e.len << ")";
      return ctx.fail(why.str());
    }
  }
  // disjointness of different reserve() blocks + containment
  for (size_t i = 0; i < w.ent.size(); ++i) {
    Entry &a = w.ent[i];
    occa::modeMemoryPool_t *mp = w.pool[a.pool].getModeMemoryPool();
    const char *base = mp->buffer ? mp->buffer->ptr : NULL;
    const char *pa = a.mem.ptr<char>();
    if (a.len && (!base || pa < base || pa + a.len > base + mp->size)) {
      why << after << ": entry " << i << " [" << (pa - base) << "," << (pa - base + a.len) << ") lies outside pool of size " << mp->size;
      return ctx.fail(why.str());
    }
    for (size_t j = i + 1; j < w.ent.size(); ++j) {
      Entry &b = w.ent[j];
      if (a.root == b.root || a.pool != b.pool || !a.len || !b.len) continue;
      const char *pb = b.mem.ptr<char>();
      if (pa < pb + b.len && pb < pa + a.len) {
        why << after << ": reservations " << i << " [" << (pa - base) << "," << (pa - base + a.len) << ") and " << j << " ["
            << (pb - base) << "," << (pb - base + b.len) << ") of different reserve() calls overlap";
        return ctx.fail(why.str());
      }
    }
  }
  return true;
}

static bool checkC04(World &w, Ctx &ctx, const char *after) {
  std::ostringstream why;
  for (int p = 0; p < 2; ++p) {
    if (!w.poolLive[p]) continue;
    const ll a = (ll) w.pool[p].alignment();
    std::vector<std::pair<ll, ll>> iv;
    ll n = 0;
    for (Entry &e : w.ent) if (e.pool == p) {
      ++n;
      const ll off = (ll) e.mem.getModeMemory()->offset, sz = (ll) e.mem.getModeMemory()->size;
      iv.push_back({(off / a) * a, ((off + sz + a - 1) / a) * a});
    }
    std::sort(iv.begin(), iv.end());
    ll measure = 0, curLo = 0, curHi = -1;
    for (auto &x : iv) {
      if (curHi < 0 || x.first > curHi) { if (curHi >= 0) measure += curHi - curLo; curLo = x.first; curHi = x.second; }
      else curHi = std::max(curHi, x.second);
    }
    if (curHi >= 0) measure += curHi - curLo;
    if ((ll) w.pool[p].numReservations() != n) {
      why << after << ": pool " << p << " numReservations()=" << w.pool[p].numReservations() << " but " << n << " live reservations";
      return ctx.fail(why.str());
    }
    if ((ll) w.pool[p].reserved() != measure) {
      why << after << ": pool " << p << " reserved()=" << w.pool[p].reserved() << " but the union of live ranges rounded to alignment "
          << a << " measures " << measure << " (" << n << " live)";
      return ctx.fail(why.str());
    }
    if (w.pool[p].size() < w.pool[p].reserved()) {
      why << after << ": pool " << p << " size()=" << w.pool[p].size() << " < reserved()=" << w.pool[p].reserved();
      return ctx.fail(why.str());
    }
  }
  return true;
}

static bool checkC05(World &w, Ctx &ctx, const char *after, ll before, bool poolRealloc) {
  std::ostringstream why;
  ll expect = poolSum(w);
  for (Alloc &a : w.allocs) expect += a.counted;
  const ll got = (ll) w.dev.memoryAllocated();
  if (got != expect) {
    why << after << ": memoryAllocated()=" << got << " but live allocations sum to " << expect << " (pools " << poolSum(w) << ")";
    return ctx.fail(why.str());
  }
  const ll mx = (ll) w.dev.maxMemoryAllocated();
  w.runMax = std::max(w.runMax, got);
  // during a pool re-allocation the old and the new buffer coexist: transient <= before + after
  w.upper = std::max(w.upper, poolRealloc ? before + got : got);
  if (mx < w.runMax || mx > w.upper) {
    why << after << ": maxMemoryAllocated()=" << mx << " outside [" << w.runMax << "," << w.upper << "] (largest observed value / bound incl. "
        << "old+new pool buffer during a re-allocation)";
    return ctx.fail(why.str());
  }
  w.runMax = w.upper = mx;   // resynchronise within the sound interval
  return true;
}

static bool checkAll(World &w, Ctx &ctx, const char *after, ll before, bool poolRealloc) {
  if (isO("C03") && !checkC03(w, ctx, after)) return false;
  if (isO("C04") && !checkC04(w, ctx, after)) return false;
  if (isO("C05") && !checkC05(w, ctx, after, before, poolRealloc)) return false;
  return true;
}

static void dropEntriesOfPool(World &w, int p) {
  std::vector<Entry> keep;
  for (Entry &e : w.ent) if (e.pool != p) keep.push_back(e);
  w.ent.swap(keep);
}

static bool doReserve(World &w, Ctx &ctx, int p, ll bytes, ll dsel) {
  int dsz = 1;
  const occa::dtype_t &dt = dtypeOf(dsel, dsz);
  ll n = std::max<ll>(1, bytes / dsz);
  // non-triviality for C03: free total >= request > largest hole
  if (isO("C03") && w.poolLive[p]) {
    const ll a = (ll) w.pool[p].alignment();
    std::vector<std::pair<ll, ll>> iv;
    for (Entry &e : w.ent) if (e.pool == p) {
      ll off = (ll) e.mem.getModeMemory()->offset, sz = (ll) e.mem.getModeMemory()->size;
      iv.push_back({off, ((off + sz + a - 1) / a) * a});
    }
    std::sort(iv.begin(), iv.end());
    ll pos = 0, largest = 0;
    for (auto &x : iv) { if (x.first > pos) largest = std::max(largest, x.first - pos); pos = std::max(pos, x.second); }
    if ((ll) w.pool[p].size() > pos) largest = std::max(largest, (ll) w.pool[p].size() - pos);
    const ll freeTotal = (ll) w.pool[p].size() - (ll) w.pool[p].reserved();
    if (iv.size() >= 2 && freeTotal >= n * dsz && n * dsz > largest) { ctx.nontrivial = true; ctx.cls("reserve:fits-total-not-hole"); }
  }
  occa::memory m = w.pool[p].reserve(n, dt);
  Entry e; e.mem = m; e.pool = p; e.root = (int) w.roots.size(); e.rootOff = 0; e.len = n * dsz; e.isSlice = false;
  w.roots.push_back(Root());
  w.roots.back().bytes.assign(e.len, 0);
  fill(w.roots.back().bytes, 0, e.len, w.pat);
  m.cast(occa::dtype::byte).copyFrom(w.roots.back().bytes.data(), e.len);
  w.ent.push_back(e);
  return true;
}

static bool runCase(const Case &c, Ctx &ctx) {
  ORACLE = envOr("VERIF_ORACLE", "C03");
  World w;
  bool useOmp = !c.empty() && c[0].a.size() && (c[0].a.back() & 64);
  w.devHost = isO("C05") && !c.empty() && c[0].a.size() && (c[0].a.back() & 32) && (c[0].a.back() & 16);
  w.dev = occa::device(std::string(useOmp ? "{mode: 'OpenMP'" : "{mode: 'Serial'") + (w.devHost ? ", memory: {use_host_pointer: true}}" : "}"));
  if (w.devHost) ctx.cls("device-wide-use_host_pointer");
  w.pool[0] = w.dev.createMemoryPool();
  w.poolLive[0] = true;
  bool ok = true;

  for (size_t step = 0; step < c.size() && ok; ++step) {
    const Op &o = c[step];
    auto A = [&](size_t i) -> ll { return i < o.a.size() ? o.a[i] : 0; };
    const ll before = (ll) w.dev.memoryAllocated();
    bool poolRealloc = false;
    int p = (int) (A(0) & 1);
    if (!w.poolLive[p]) p = w.poolLive[0] ? 0 : (w.poolLive[1] ? 1 : -1);
    const bool poolOp = (o.k <= FRAG) || o.k == FREE_EXPLICIT || o.k == RESIZE_BAD || o.k == SETALIGN_ZERO || o.k == POOLFREE;
    if (poolOp && p < 0) continue;
    if (!isO("C05") && (o.k == MALLOC || o.k == CLONE || o.k == WRAP || o.k == FREEALLOC)) continue;

    switch (o.k) {
    case RESERVE: {
      const ll a = (ll) w.pool[p].alignment();
      ll bytes = std::max<ll>(1, A(1) * a + A(2));
      poolRealloc = true;
      doReserve(w, ctx, p, bytes, A(3));
      break;
    }
    case RELEASE: case FREE_EXPLICIT: {
      if (w.ent.empty()) continue;
      size_t i = (size_t) (A(1) % (ll) w.ent.size());
      bool hasLiveSlice = false;
      for (Entry &e : w.ent) if (&e != &w.ent[i] && e.root == w.ent[i].root && e.pool == w.ent[i].pool) hasLiveSlice = true;
      if (hasLiveSlice && !w.ent[i].isSlice) { ctx.cls("release-parent-with-live-slice"); if (isO("C04")) ctx.nontrivial = true; }
      if (o.k == FREE_EXPLICIT) w.ent[i].mem.free(); else w.ent[i].mem = occa::memory();
      w.ent.erase(w.ent.begin() + i);
      break;
    }
    case SLICE: {
      if (w.ent.empty()) continue;
      size_t i = (size_t) (A(1) % (ll) w.ent.size());
      Entry &pe = w.ent[i];
      if (pe.len < 1) continue;
      ll off = A(2) % pe.len;
      ll cnt = 1 + A(3) % (pe.len - off);
      occa::memory bm = pe.mem.cast(occa::dtype::byte);
      Entry e; e.mem = bm.slice(off, cnt); e.pool = pe.pool; e.root = pe.root; e.rootOff = pe.rootOff + off; e.len = cnt; e.isSlice = true;
      w.ent.push_back(e);
      ctx.cls("slice");
      break;
    }
    case RESIZE: {
      const ll a = (ll) w.pool[p].alignment();
      ll bytes = (ll) w.pool[p].reserved() + A(1) * a + A(2);
      if (bytes < (ll) w.pool[p].reserved()) bytes = (ll) w.pool[p].reserved();
      int live = 0; for (Entry &e : w.ent) if (e.pool == p) ++live;
      if (live >= 2 && isO("C03")) { ctx.nontrivial = true; ctx.cls("resize-with>=2-live"); }
      poolRealloc = true;
      w.pool[p].resize(bytes);
      break;
    }
    case RESIZE_BAD: {
      if (w.pool[p].reserved() == 0) continue;
      ll bytes = (ll) w.pool[p].reserved() - 1 - (A(1) % (ll) w.pool[p].reserved());
      const ll sizeBefore = (ll) w.pool[p].size(), resBefore = (ll) w.pool[p].reserved();
      bool threw = false;
      try { w.pool[p].resize(bytes); } catch (occa::exception &) { threw = true; }
      ctx.cls("resize-below-reserved");
      if (isO("C04")) {
        if (!threw) return ctx.fail("resize(" + std::to_string(bytes) + ") below reserved()=" + std::to_string(resBefore) + " did not raise");
        if ((ll) w.pool[p].size() != sizeBefore || (ll) w.pool[p].reserved() != resBefore) return ctx.fail("failed resize changed the pool");
      }
      if (!threw) { // keep the model usable for the other oracles: nothing we can assume; stop the case
        return true;
      }
      break;
    }
    case SHRINK: {
      int live = 0; for (Entry &e : w.ent) if (e.pool == p) ++live;
      if (live >= 2 && isO("C03")) { ctx.nontrivial = true; ctx.cls("shrink-with>=2-live"); }
      poolRealloc = true;
      w.pool[p].shrinkToFit();
      break;
    }
    case SETALIGN: {
      static const ll als[] = {1, 2, 3, 8, 16, 24, 64, 100, 128, 256, 512, 7};
      ll na = als[A(1) % 12];
      int live = 0; for (Entry &e : w.ent) if (e.pool == p) ++live;
      if (live >= 1 && isO("C04")) { ctx.nontrivial = true; ctx.cls("setAlignment-with-live"); }
      if (live >= 2 && isO("C03")) { ctx.nontrivial = true; ctx.cls("setAlignment-with>=2-live"); }
      poolRealloc = true;
      w.pool[p].setAlignment((occa::udim_t) na);
      if ((ll) w.pool[p].alignment() != na) return ctx.fail("alignment() != value set");
      break;
    }
    case SETALIGN_ZERO: {
      bool threw = false;
      const ll al = (ll) w.pool[p].alignment();
      try { w.pool[p].setAlignment(0); } catch (occa::exception &) { threw = true; }
      if (!threw || (ll) w.pool[p].alignment() != al) return ctx.fail("setAlignment(0) did not raise / changed the alignment");
      break;
    }
    case WRITE: {
      if (w.ent.empty()) continue;
      size_t i = (size_t) (A(1) % (ll) w.ent.size());
      Entry &e = w.ent[i];
      fill(w.roots[e.root].bytes, e.rootOff, e.len, w.pat);
      e.mem.cast(occa::dtype::byte).copyFrom(w.roots[e.root].bytes.data() + e.rootOff, e.len);
      break;
    }
    case FRAG: {
      // k equal blocks, free alternating ones, then a request that fits the free total but no hole
      const ll a = (ll) w.pool[p].alignment();
      const ll k = 3 + A(1) % 4, blk = std::max<ll>(1, (1 + A(2) % 2) * a - (A(3) % 2));
      size_t first = w.ent.size();
      poolRealloc = true;
      // every API call is followed by the oracles (the max bound is per call)
      for (ll i = 0; i < k; ++i) {
        const ll b4 = (ll) w.dev.memoryAllocated();
        doReserve(w, ctx, p, blk, 0);
        if (!checkAll(w, ctx, "fragment:reserve-block", b4, true)) return false;
      }
      ll freed = 0;
      for (ll i = k - 1; i >= 0; --i) if (i % 2 == (A(4) & 1)) {
        const ll b4 = (ll) w.dev.memoryAllocated();
        w.ent.erase(w.ent.begin() + first + i); ++freed;
        if (!checkAll(w, ctx, "fragment:free-alternating", b4, false)) return false;
      }
      const ll ablk = ((blk + a - 1) / a) * a;
      ll req = ablk + 1 + A(5) % std::max<ll>(1, freed * ablk - ablk);
      if (req > freed * ablk) req = freed * ablk;
      const ll b4 = (ll) w.dev.memoryAllocated();
      doReserve(w, ctx, p, req, 0);
      if (!checkAll(w, ctx, "fragment:reserve-into-fragmented-pool", b4, true)) return false;
      ctx.cls("fragment");
      continue;
    }
    case POOLNEW: {
      int q = w.poolLive[0] ? 1 : 0;
      if (w.poolLive[q]) continue;
      w.pool[q] = w.dev.createMemoryPool();
      w.poolLive[q] = true;
      ctx.cls("second-pool");
      break;
    }
    case POOLFREE: {
      // only pools without live reservations are released here (releasing a pool under live handles is C01's domain)
      bool has = false; for (Entry &e : w.ent) if (e.pool == p) has = true;
      if (has) continue;
      if (A(1) & 1) w.pool[p].free(); else w.pool[p] = occa::memoryPool();
      if (w.pool[p].isInitialized()) return ctx.fail("pool handle still initialized after release");
      w.poolLive[p] = false;
      if (isO("C05")) { ctx.cls("pool-release"); }
      break;
    }
    case MALLOC: {
      int dsz = 1;
      const occa::dtype_t &dt = dtypeOf(A(3), dsz);
      const ll n = 1 + A(1) % 300;
      // use_host_pointer with a source wraps the source; without one (or inherited from the device's memory
      // properties, or through clone()) the device allocates itself.  own_host_pointer is passed only when the device
      // allocated the memory (ownership transfer of a caller's pointer is not part of the property).
      const bool withSrc = A(2) & 1, useHost = (A(2) & 2) || w.devHost, own = (!withSrc) && (A(2) & 4);
      Alloc al; al.hostOwned = NULL; al.shadow.assign(n * dsz, 0);
      fill(al.shadow, 0, al.shadow.size(), w.pat);
      occa::json props;
      void *src = NULL;
      if (withSrc) {
        src = occa::sys::malloc(n * dsz);
        memcpy(src, al.shadow.data(), n * dsz);
      }
      if (A(2) & 2) props["use_host_pointer"] = true;
      if (own) props["own_host_pointer"] = true;
      al.mem = w.dev.malloc(n, dt, src, props);
      al.counted = n * dsz;
      if (useHost) {
        // With use_host_pointer in effect the statement can be read both ways for the bytes of a *wrapped* source
        // ("malloc counts" / "wrapped memory counts nothing"): accept either while live, but whatever was
        // added must be subtracted again at release (checked by the ledger at every later step).
        const ll delta = (ll) w.dev.memoryAllocated() - before;
        if (delta != 0 && delta != n * dsz) return ctx.fail("malloc(use_host_pointer) changed memoryAllocated() by " + std::to_string(delta));
        if (!withSrc && delta != n * dsz) return ctx.fail("malloc(use_host_pointer, no source) allocates on the device but memoryAllocated() changed by " + std::to_string(delta));
        al.counted = delta;
        ctx.cls(withSrc ? "malloc:use_host_pointer" : "malloc:use_host_pointer-without-source"); ctx.nontrivial = true;
        if (withSrc) al.hostOwned = src;     // harness keeps ownership of a wrapped source
      } else if (withSrc) {
        occa::sys::free(src);
      }
      if (withSrc && useHost) { /* contents are the source's */ } else if (withSrc) { /* copied by malloc */ }
      if (!withSrc) al.mem.copyFrom(al.shadow.data());
      w.allocs.push_back(al);
      break;
    }
    case CLONE: {
      if (w.allocs.empty()) continue;
      size_t i = (size_t) (A(1) % (ll) w.allocs.size());
      if (!w.allocs[i].mem.isInitialized()) continue;
      Alloc al; al.hostOwned = NULL; al.shadow = w.allocs[i].shadow;
      // clone() reuses the source's properties (incl. use_host_pointer) but passes no host pointer: the device allocates
      al.mem = w.allocs[i].mem.clone();
      al.counted = (ll) al.shadow.size();
      if (w.allocs[i].mem.properties().get("use_host_pointer", false)) { ctx.cls("clone-of-host-pointer-memory"); ctx.nontrivial = true; }
      w.allocs.push_back(al);
      ctx.cls("clone");
      break;
    }
    case WRAP: {
      const ll n = 1 + A(1) % 300;
      Alloc al; al.shadow.assign(n, 0);
      fill(al.shadow, 0, n, w.pat);
      al.hostOwned = occa::sys::malloc(n);
      memcpy(al.hostOwned, al.shadow.data(), n);
      al.mem = w.dev.wrapMemory((const void*) al.hostOwned, n, occa::dtype::byte);
      al.counted = 0;
      w.allocs.push_back(al);
      ctx.cls("wrapMemory");
      break;
    }
    case FREEALLOC: {
      if (w.allocs.empty()) continue;
      size_t i = (size_t) (A(1) % (ll) w.allocs.size());
      // contents first (a wrapped / host-pointer allocation must still read what was written)
      std::vector<unsigned char> buf(w.allocs[i].shadow.size());
      w.allocs[i].mem.cast(occa::dtype::byte).copyTo(buf.data());
      if (buf != w.allocs[i].shadow) return ctx.fail("allocation content differs from what was written");
      if (A(2) & 1) w.allocs[i].mem.free(); else w.allocs[i].mem = occa::memory();
      if (w.allocs[i].hostOwned) occa::sys::free(w.allocs[i].hostOwned);
      w.allocs.erase(w.allocs.begin() + i);
      break;
    }
    default: continue;
    }
    if (poolRealloc && isO("C05") && (ll) w.dev.memoryAllocated() != before) { ctx.nontrivial = true; ctx.cls("pool-buffer-changed"); }
    if (!checkAll(w, ctx, OPN[o.k], before, poolRealloc)) return false;
  }

  // ---- release everything: accounting must return to zero -----------------------------------------
  const ll before = (ll) w.dev.memoryAllocated();
  while (!w.ent.empty()) {
    w.ent.pop_back();
    if (isO("C04") && !checkC04(w, ctx, "final release")) return false;
  }
  for (int p = 0; p < 2; ++p) if (w.poolLive[p] && isO("C04")) {
    if (w.pool[p].reserved() != 0 || w.pool[p].numReservations() != 0)
      return ctx.fail("after releasing every reservation reserved()=" + std::to_string(w.pool[p].reserved()));
  }
  for (Alloc &a : w.allocs) { a.mem = occa::memory(); if (a.hostOwned) occa::sys::free(a.hostOwned); }
  w.allocs.clear();
  for (int p = 0; p < 2; ++p) { w.pool[p] = occa::memoryPool(); w.poolLive[p] = false; }
  (void) before;
  if (isO("C05") && w.dev.memoryAllocated() != 0)
    return ctx.fail("after releasing every memory object and pool memoryAllocated()=" + std::to_string(w.dev.memoryAllocated()));
  return true;
}

int main(int argc, char **argv) {
  ORACLE = envOr("VERIF_ORACLE", "C03");
  auto pl = rng(0, 127);
  auto idx = rng(0, 1000);
  const bool c5 = isO("C05");
  std::vector<std::pair<std::size_t, rc::Gen<Op>>> ws = {
    {10, mkOp(RESERVE, {pl, rng(0, 3), rng(-1, 1), rng(0, 2)})},
    {6, mkOp(RELEASE, {pl, idx})},
    {2, mkOp(FREE_EXPLICIT, {pl, idx})},
    {5, mkOp(SLICE, {pl, idx, idx, idx})},
    {3, mkOp(RESIZE, {pl, rng(0, 3), rng(0, 1)})},
    {1, mkOp(RESIZE_BAD, {pl, idx})},
    {2, mkOp(SHRINK, {pl})},
    {3, mkOp(SETALIGN, {pl, rng(0, 11)})},
    {1, mkOp(SETALIGN_ZERO, {pl})},
    {4, mkOp(WRITE, {pl, idx})},
    {3, mkOp(FRAG, {pl, idx, idx, idx, idx, idx})},
    {1, mkOp(POOLNEW, {pl})},
    {1, mkOp(POOLFREE, {pl, idx})},
  };
  if (c5) {
    ws.push_back({8, mkOp(MALLOC, {pl, idx, rng(0, 7), rng(0, 2)})});
    ws.push_back({3, mkOp(CLONE, {pl, idx})});
    ws.push_back({3, mkOp(WRAP, {pl, idx})});
    ws.push_back({7, mkOp(FREEALLOC, {pl, idx, idx})});
  }
  rc::Gen<Case> gen = caseOf(ws);
  return harnessMain(argc, argv, ("pool " + ORACLE).c_str(), gen, runCase, [](const Case &c) {
    std::ostringstream ss;
    for (const Op &o : c) {
      ss << (o.k <= SETALIGN_ZERO ? OPN[o.k] : "?") << "(";
      for (size_t i = 0; i < o.a.size(); ++i) ss << (i ? "," : "") << o.a[i];
      ss << ") ";
    }
    return ss.str();
  });
}
