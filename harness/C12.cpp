// C12 (G2/O2) — token-sequence round trip through occa::lang::tokenizer_t.
//
// A case is a list of lexical items (one Op each); the source text is the items' spellings, each followed by its
// white-space separator.  Oracle:
//  (a) the first tokenization has no errors and yields exactly the intended kinds and values;
//  (b) every token printed with its own print(), separated by one space (newline after a line comment),
//      tokenizes again to the same kinds and values;
//  (c) a run of operators written without white space is split by longest match — model: brute-force longest
//      prefix over the strings of the operator table (getOperators).
// Newline tokens are white space: they are produced by the separators and are not compared.
#include "common.hpp"
#include "C12_common.hpp"

#include <algorithm>
#include <cmath>

using namespace vf;
using c12::Tok;
namespace tt = occa::lang::tokenType;
namespace et = occa::lang::encodingType;
namespace pt = occa::primitiveType;

enum { IDENT = 0, KEYWORD, INT, FLOAT, STR, CHR, RAWSTR, OP, OPRUN, LCOMMENT, BCOMMENT };

static const char *KEYWORDS[] = {
  "int", "float", "double", "char", "void", "bool", "if", "else", "for", "while", "do", "return", "struct", "class",
  "const", "static", "inline", "unsigned", "signed", "long", "short", "switch", "case", "default", "break", "continue",
  "typedef", "enum", "union", "extern", "template", "typename", "namespace", "using", "public", "private", "volatile",
  "restrict", "auto", "goto", "kernel", "outer", "inner", "shared", "exclusive", "tile", "barrier", "true", "false"};
static const int NKEYWORDS = sizeof(KEYWORDS) / sizeof(KEYWORDS[0]);

static const char *SEPS[] = {" ", "\t", "\n", "  ", " \n ", "\n\n", " \t ", "\r\n"};
static const int NSEPS = 8;

static const char *STR_PREFIX[] = {"", "u8", "u", "U", "L"};
static const int STR_ENC[] = {0, et::u8, et::u, et::U, et::L};
static const char *CHR_PREFIX[] = {"", "u", "U", "L"};
static const int CHR_ENC[] = {0, et::u, et::U, et::L};
static const char *RAW_DELIM[] = {"", "*", "foo", "x_y", "--"};
static const char *UDF[] = {"", "", "", "", "", "_km", "_s", "_Z9"};
static bool g_count = true;   // false while a case is only being described (do not count known-finding exclusions twice)
static bool isKnown(const char *id) { return g_count ? known()(id) : known().has(id); }

// ---- operator table (the model's view: the strings only) -------------------------------------------------------
struct OpTable {
  std::vector<std::string> strs;                 // sorted: stable indices for replay files
  std::map<std::string, const occa::lang::operator_t*> byStr;
  std::vector<int> punct, word;                  // indices (comment starters excluded from both)
  OpTable() {
    occa::lang::operatorTrie t;
    occa::lang::getOperators(t);
    for (const occa::lang::operator_t *o : t.values) { strs.push_back(o->str); byStr[o->str] = o; }
    std::sort(strs.begin(), strs.end());
    strs.erase(std::unique(strs.begin(), strs.end()), strs.end());
    for (size_t i = 0; i < strs.size(); ++i) {
      if (strs[i] == "//" || strs[i] == "/*") continue;
      if (isalpha((unsigned char) strs[i][0])) word.push_back((int) i); else punct.push_back((int) i);
    }
  }
  // brute force: the longest table string that is a prefix of s (empty if none)
  std::string longestPrefix(const std::string &s) const {
    std::string best;
    for (const std::string &o : strs)
      if (o.size() > best.size() && s.compare(0, o.size(), o) == 0) best = o;
    return best;
  }
};
static OpTable &ops() { static OpTable t; return t; }

static bool isWordOp(const std::string &s) { return isalpha((unsigned char) s[0]); }

// greedy longest-match segmentation; false if it would start a comment or cannot proceed
static bool segment(const std::string &run, std::vector<std::string> &out) {
  size_t i = 0;
  while (i < run.size()) {
    std::string o = ops().longestPrefix(run.substr(i));
    if (o.empty() || o == "//" || o == "/*") return false;
    // a word operator directly followed by an identifier character is an identifier, not an operator
    if (isWordOp(o) && i + o.size() < run.size() && (isalnum((unsigned char) run[i + o.size()]) || run[i + o.size()] == '_')) return false;
    out.push_back(o);
    i += o.size();
  }
  return true;
}

// ---- literal models ---------------------------------------------------------------------------------------------
// body = the characters between the quotes, made of plain characters and backslash pairs
static bool validBody(const std::string &b, char quote) {
  for (size_t i = 0; i < b.size(); ++i) {
    if (b[i] == '\\') { if (i + 1 >= b.size() || b[i + 1] == '\n' || b[i + 1] == '\0') return false; ++i; continue; }
    if (b[i] == quote || b[i] == '\n' || b[i] == '\0') return false;
  }
  return true;
}
// value kept by the tokenizer: escape sequences stay as written, except that an escaped quote loses its backslash
static std::string bodyValue(const std::string &b, char quote) {
  std::string v;
  for (size_t i = 0; i < b.size(); ++i) {
    if (b[i] == '\\' && i + 1 < b.size()) {
      if (b[i + 1] == quote) v += quote; else { v += '\\'; v += b[i + 1]; }
      ++i;
    } else v += b[i];
  }
  return v;
}

struct IntModel { bool ok = false, fits = false, suffixed = false; int ptype = 0; uint64_t bits = 0; };
static IntModel intModel(const std::string &s) {
  IntModel m;
  if (!c12::isIntLiteral(s)) return m;
  m.ok = true;
  size_t i = 0; int base = 10;
  if (s.size() >= 2 && s[0] == '0' && (s[1] == 'x' || s[1] == 'X')) { base = 16; i = 2; }
  else if (s.size() >= 2 && s[0] == '0' && (s[1] == 'b' || s[1] == 'B')) { base = 2; i = 2; }
  else if (s[0] == '0') { base = 8; i = 1; }
  unsigned __int128 v = 0; bool big = false;
  for (; i < s.size(); ++i) {
    int d;
    const char c = s[i];
    if (c >= '0' && c <= '9') d = c - '0';
    else if (base == 16 && isxdigit((unsigned char) c)) d = 10 + (tolower(c) - 'a');
    else break;
    v = v * base + d;
    if (v >> 64) big = true;
  }
  bool u = false; int longs = 0;
  m.suffixed = i < s.size();
  for (; i < s.size(); ++i) { if (s[i] == 'u' || s[i] == 'U') u = true; else ++longs; }
  uint64_t maxv;
  if (!longs) { m.ptype = u ? pt::uint32_ : pt::int32_; maxv = u ? 0xFFFFFFFFull : 0x7FFFFFFFull; }
  else        { m.ptype = u ? pt::uint64_ : pt::int64_; maxv = u ? ~0ull : 0x7FFFFFFFFFFFFFFFull; }
  m.fits = !big && (uint64_t) v <= maxv;
  m.bits = (uint64_t) v;
  return m;
}

struct Expect { Tok t; bool checkBits = false, isFloat = false; double fval = 0; };

static std::string why2(const char *what, const Expect &e, const Tok *got) {
  return std::string(what) + ": expected " + c12::show(e.t) + (got ? " got " + c12::show(*got) : std::string(" got nothing"));
}

// ---- one case ---------------------------------------------------------------------------------------------------
static bool buildItem(const Op &o, std::string &text, std::vector<Expect> &exp, Ctx &ctx, bool &forceNewline) {
  auto A = [&](size_t i) -> ll { return i < o.a.size() ? o.a[i] : 0; };
  auto idx = [&](size_t i, int n) -> int { ll v = A(i) % n; return (int) (v < 0 ? v + n : v); };
  Expect e;
  forceNewline = false;
  switch (o.k) {
  case IDENT: {
    if (!c12::isIdent(o.s)) return false;
    // spellings that are not identifiers for the tokenizer: literals true/false, word operators, encoding prefixes
    // are fine as identifiers as long as no quote follows (a separator always follows)
    if (o.s == "true" || o.s == "false" || ops().byStr.count(o.s)) return false;
    e.t.kind = tt::identifier; e.t.value = o.s;
    text += o.s; exp.push_back(e); ctx.cls("identifier");
    if (occa::lang::getStringEncoding(o.s)) ctx.cls("identifier-spelled-like-encoding-prefix");
    return true;
  }
  case KEYWORD: {
    const std::string k = KEYWORDS[idx(0, NKEYWORDS)];
    if (k == "true" || k == "false") {
      e.t.kind = tt::primitive; e.t.value = k; e.t.ptype = pt::bool_; e.t.bits = (k == "true"); e.checkBits = true;
      ctx.cls("bool-literal");
    } else {
      e.t.kind = tt::identifier; e.t.value = k; ctx.cls("keyword");
    }
    text += k; exp.push_back(e);
    return true;
  }
  case INT: {
    IntModel m = intModel(o.s);
    if (!m.ok) return false;
    e.t.kind = tt::primitive; e.t.value = o.s;
    if (m.fits) { e.checkBits = true; e.t.ptype = m.ptype; e.t.bits = m.bits; ctx.cls("int-literal"); }
    else ctx.cls("int-literal-not-representable(value unchecked)");
    if (o.s.size() > 1 && o.s[0] == '0' && isdigit((unsigned char) o.s[1])) ctx.cls("int-octal");
    if (o.s.size() > 1 && (o.s[1] == 'x' || o.s[1] == 'X')) ctx.cls("int-hex");
    if (o.s.size() > 1 && (o.s[1] == 'b' || o.s[1] == 'B')) ctx.cls("int-bin");
    if (m.suffixed) ctx.cls("int-suffix");
    text += o.s; exp.push_back(e);
    return true;
  }
  case FLOAT: {
    if (!c12::isFloatLiteral(o.s)) return false;
    const bool f = (o.s.back() == 'f' || o.s.back() == 'F');
    const std::string num = f ? o.s.substr(0, o.s.size() - 1) : o.s;
    const double d = strtod(num.c_str(), NULL);
    if (!std::isfinite(d) || (f && !std::isfinite((float) d))) return false;
    e.t.kind = tt::primitive; e.t.value = o.s; e.t.ptype = f ? pt::float_ : pt::double_;
    e.isFloat = true; e.fval = d;
    text += o.s; exp.push_back(e); ctx.cls(f ? "float-literal" : "double-literal");
    return true;
  }
  case STR: case CHR: {
    const bool isStr = (o.k == STR);
    const char q = isStr ? '"' : '\'';
    if (!validBody(o.s, q)) return false;
    const int pi = isStr ? idx(0, 5) : idx(0, 4);
    const std::string prefix = isStr ? STR_PREFIX[pi] : CHR_PREFIX[pi];
    const std::string udf = UDF[idx(1, 8)];
    e.t.kind = isStr ? tt::string : tt::char_;
    e.t.enc = isStr ? STR_ENC[pi] : CHR_ENC[pi];
    e.t.value = bodyValue(o.s, q);
    e.t.udf = udf;
    text += prefix; text += q; text += o.s; text += q; text += udf;
    exp.push_back(e);
    ctx.cls(isStr ? "string-literal" : "char-literal");
    if (pi) { ctx.nontrivial = true; ctx.cls("literal-with-prefix"); }
    if (o.s.find('\\') != std::string::npos) { ctx.nontrivial = true; ctx.cls("literal-with-escape"); }
    if (o.s.size() >= 2 && o.s[0] == '\\' && o.s[1] == q) ctx.cls("literal-leading-escaped-quote");
    if (o.s.size() >= 2 && o.s[o.s.size() - 1] == '\\' && o.s[o.s.size() - 2] == '\\') ctx.cls("literal-trailing-backslash-pair");
    if (!udf.empty()) ctx.cls("literal-with-udf");
    return true;
  }
  case RAWSTR: {
    const int pi = idx(0, 5);
    const std::string delim = RAW_DELIM[idx(1, 5)];
    if (o.s.find(")" + delim + "\"") != std::string::npos || o.s.find('\0') != std::string::npos) return false;
    if (isKnown("raw_string_print")) return false;
    e.t.kind = tt::string; e.t.enc = STR_ENC[pi] | et::R; e.t.value = o.s;
    text += STR_PREFIX[pi]; text += "R\""; text += delim; text += "("; text += o.s; text += ")"; text += delim; text += "\"";
    exp.push_back(e);
    ctx.nontrivial = true; ctx.cls("raw-string-literal"); ctx.cls("literal-with-prefix");
    if (o.s.find(")\"") != std::string::npos) ctx.cls("raw-string-containing-)\"");
    return true;
  }
  case OP: {
    const OpTable &t = ops();
    const int n = (int) (t.punct.size() + t.word.size());
    const int i = idx(0, n);
    const std::string s = t.strs[i < (int) t.punct.size() ? t.punct[i] : t.word[i - t.punct.size()]];
    e.t.kind = tt::op; e.t.value = s; e.t.op = t.byStr.at(s);
    text += s; exp.push_back(e); ctx.cls(isWordOp(s) ? "word-operator" : "operator");
    return true;
  }
  case OPRUN: {
    // operators written without white space; a space is inserted where the concatenation would start a comment,
    // glue two word operators, or glue a word operator to an identifier character
    const OpTable &t = ops();
    std::string run, all;
    std::vector<std::string> segs;
    auto flush = [&]() {
      std::vector<std::string> s1;
      if (!run.empty() && segment(run, s1)) {
        all += run; all += ' ';
        for (size_t i = 0; i < s1.size(); ++i) {
          segs.push_back(s1[i]);
          if (i && s1[i].size() >= 2 && s1[i - 1].size() >= 2) { ctx.nontrivial = true; ctx.cls("adjacent-multichar-operators"); }
        }
        if (s1.size() >= 2) ctx.cls("operator-run");
      }
      run.clear();
    };
    for (size_t k = 0; k < o.a.size(); ++k) {
      const int n = (int) (t.punct.size() + t.word.size());
      const int i = idx(k, n);
      const std::string s = t.strs[i < (int) t.punct.size() ? t.punct[i] : t.word[i - t.punct.size()]];
      std::vector<std::string> tmp;
      if (!segment(run + s, tmp)) flush();
      run += s;
    }
    flush();
    if (segs.empty()) return false;
    if (!all.empty()) all.erase(all.size() - 1);
    text += all;
    for (const std::string &s : segs) {
      Expect x; x.t.kind = tt::op; x.t.value = s; x.t.op = t.byStr.at(s);
      exp.push_back(x);
    }
    return true;
  }
  case LCOMMENT: {
    if (o.s.find('\n') != std::string::npos || o.s.find('\\') != std::string::npos || o.s.find('\0') != std::string::npos) return false;
    e.t.kind = tt::comment; e.t.value = "//" + o.s;
    text += e.t.value; exp.push_back(e); ctx.cls("line-comment");
    forceNewline = true;
    return true;
  }
  case BCOMMENT: {
    if (o.s.find("*/") != std::string::npos || o.s.find('\0') != std::string::npos) return false;
    if (!o.s.empty() && o.s[0] == '/') ctx.cls("block-comment-starting-with-slash");   // "/*/ ... */" is one comment
    if (o.s.find('\\') != std::string::npos) {
      if (isKnown("block_comment_backslash")) return false;
      ctx.cls("block-comment-with-backslash");
    }
    e.t.kind = tt::comment; e.t.value = "/*" + o.s + "*/";
    text += e.t.value; exp.push_back(e); ctx.cls("block-comment");
    return true;
  }
  }
  return false;
}

static bool runCase(const Case &c, Ctx &ctx) {
  static bool init = false;
  if (!init) { init = true; c12::silence(); }
  std::string text;
  std::vector<Expect> exp;
  for (const Op &o : c) {
    bool nl = false;
    if (!buildItem(o, text, exp, ctx, nl)) { ctx.cls("item-skipped(invalid spelling after shrink)"); continue; }
    const ll si = o.a.empty() ? 0 : o.a.back();
    std::string sep = SEPS[((si % NSEPS) + NSEPS) % NSEPS];
    if (o.k == OPRUN || o.k == OP) sep = SEPS[((((ll) o.s.size()) % NSEPS) + NSEPS) % NSEPS];   // a[] holds operators there
    if (nl) text += "\n";      // a line comment ends at the newline: nothing may be put before it
    text += sep;
  }
  if (exp.empty()) { ctx.cls("empty-source"); }

  // (a) first tokenization: intended kinds and values
  c12::Result r1 = c12::tokenizeExact(text);
  if (r1.threw) return ctx.fail("tokenizer threw on a valid token sequence: " + r1.what + "  source=" + c12::esc(text));
  if (r1.errors) return ctx.fail("tokenizer reported " + std::to_string(r1.errors) + " error(s) on a valid token sequence; source=" + c12::esc(text));
  std::vector<Tok> t1 = c12::withoutNewlines(r1.toks);
  for (size_t i = 0; i < exp.size(); ++i) {
    const Expect &e = exp[i];
    if (i >= t1.size()) return ctx.fail(why2("(a) first tokenization ended early", e, NULL) + "  source=" + c12::esc(text));
    const Tok &g = t1[i];
    bool ok = g.kind == e.t.kind && g.value == e.t.value && g.enc == e.t.enc && g.udf == e.t.udf;
    if (ok && e.t.kind == tt::op) ok = (g.op == e.t.op);
    if (ok && e.checkBits) ok = (g.ptype == e.t.ptype && g.bits == e.t.bits);
    if (ok && e.isFloat) {
      ok = (g.ptype == e.t.ptype);
      if (ok) {
        double got;
        if (g.ptype == pt::float_) { float f; uint32_t b = (uint32_t) g.bits; memcpy(&f, &b, 4); got = f; }
        else memcpy(&got, &g.bits, 8);
        const double tol = (g.ptype == pt::float_) ? ldexp(1.0, -22) : ldexp(1.0, -51);
        ok = std::fabs(got - e.fval) <= tol * std::fabs(e.fval);
      }
    }
    if (!ok) return ctx.fail(why2(e.t.kind == tt::op ? "(c) operator split / (a) first tokenization" : "(a) first tokenization", e, &g)
                             + " at token " + std::to_string(i) + "  source=" + c12::esc(text));
  }
  if (t1.size() != exp.size())
    return ctx.fail("(a) first tokenization produced " + std::to_string(t1.size()) + " tokens for " + std::to_string(exp.size())
                    + " intended; first extra: " + c12::show(t1[exp.size()]) + "  source=" + c12::esc(text));

  // (b) print with own print(), one space in between, tokenize again
  const std::string printed = c12::reprint(r1.toks);
  c12::Result r2 = c12::tokenizeExact(printed);
  if (r2.threw) return ctx.fail("(b) tokenizer threw on its own printed tokens: " + r2.what + "  printed=" + c12::esc(printed));
  if (r2.errors) return ctx.fail("(b) tokenizer reported errors on its own printed tokens; printed=" + c12::esc(printed) + "  source=" + c12::esc(text));
  std::string why;
  if (!c12::sameTokens(r1.toks, r2.toks, why))
    return ctx.fail("(b) print + retokenize: " + why + "  printed=" + c12::esc(printed) + "  source=" + c12::esc(text));
  return true;
}

static std::string describeCase(const Case &c) {
  std::string text;
  std::vector<Expect> exp;
  Ctx dummy;
  g_count = false;
  for (const Op &o : c) {
    bool nl = false;
    if (!buildItem(o, text, exp, dummy, nl)) continue;
    text += nl ? "\n" : " ";
  }
  g_count = true;
  return c12::esc(text);
}

// ---- generators -------------------------------------------------------------------------------------------------
static std::string pick(const char *alphabet) {
  const size_t n = strlen(alphabet);
  return std::string(1, alphabet[*rng(0, (ll) n - 1)]);
}

int main(int argc, char **argv) {
  static const char *IDSTART = "abcdefghijklmnopqrstuvwxyzABCDEFGHIJKLMNOPQRSTUVWXYZ_uULR";
  static const char *IDCHARS = "abcdefghijklmnopqrstuvwxyzABCDEFGHIJKLMNOPQRSTUVWXYZ_0123456789uULR8";
  auto sepG = rng(0, NSEPS - 1);

  auto identG = rc::gen::exec([]() {
    // identifiers spelled like an encoding prefix are ordinary identifiers unless a quote follows directly
    static const char *PREFIXLIKE[] = {"u8", "u", "U", "L", "R", "uR", "u8R", "UR", "LR"};
    if (*rng(0, 7) == 0) return std::string(PREFIXLIKE[*rng(0, 8)]);
    std::string s = pick(IDSTART);
    int n = (int) *rng(0, 6);
    for (int i = 0; i < n; ++i) s += pick(IDCHARS);
    return s;
  });
  auto intG = rc::gen::exec([]() {
    static const char *SUF[] = {"", "", "", "u", "U", "l", "L", "ll", "LL", "ul", "uL", "Ul", "UL", "lu", "lU", "Lu", "LU",
                                "ull", "uLL", "Ull", "ULL", "llu", "llU", "LLu", "LLU"};
    std::string s;
    const int base = (int) *rng(0, 4);
    const int n = (int) *rng(1, base == 2 ? 34 : 12);
    if (base == 0 || base == 4) {               // decimal
      s = pick("123456789");
      for (int i = 1; i < n; ++i) s += pick("0123456789");
      if (*rng(0, 9) == 0) s = (*rng(0, 1) ? "2147483647" : (*rng(0, 1) ? "4294967295" : "9223372036854775807"));
    } else if (base == 1) {                      // hex
      s = *rng(0, 1) ? "0x" : "0X";
      for (int i = 0; i < n; ++i) s += pick("0123456789abcdefABCDEF");
    } else if (base == 2) {                      // binary
      s = *rng(0, 1) ? "0b" : "0B";
      for (int i = 0; i < n; ++i) s += pick("01");
    } else {                                     // octal-looking (and plain 0)
      s = "0";
      for (int i = 1; i < n; ++i) s += pick("01234567");
    }
    s += SUF[*rng(0, 24)];
    return s;
  });
  auto floatG = rc::gen::exec([]() {
    std::string s;
    const int form = (int) *rng(0, 4);
    auto digits = [](int lo, int hi) { std::string d; int n = (int) *rng(lo, hi); for (int i = 0; i < n; ++i) d += pick("0123456789"); return d; };
    bool needExp = false;
    if (form == 0) s = digits(1, 6) + "." + digits(1, 6);
    else if (form == 1) s = "." + digits(1, 6);
    else if (form == 2) s = digits(1, 6) + ".";
    else if (form == 3) { s = digits(1, 6); needExp = true; }
    else s = digits(1, 3) + "." + digits(0, 3);
    if (needExp || *rng(0, 2) == 0) {
      s += pick("eE");
      const int sg = (int) *rng(0, 2);
      if (sg == 1) s += "+"; else if (sg == 2) s += "-";
      s += std::to_string(*rng(0, 30));
    }
    const int suf = (int) *rng(0, 3);
    if (suf == 1) s += "f"; else if (suf == 2) s += "F";
    return s;
  });
  auto bodyG = [](char quote) {
    return rc::gen::exec([quote]() {
      std::string s;
      const int n = (int) *rng(0, 7);
      const std::string esc_q = std::string("\\") + quote;
      if (*rng(0, 3) == 0) s += esc_q;                           // leading escaped quote
      for (int i = 0; i < n; ++i) {
        const int k = (int) *rng(0, 15);
        if (k <= 5) { std::string p = pick("abcxyz019 _+-*/<>=(){}[];:,.#@!?%^&|~$`'\"\t"); if (p[0] != quote) s += p; else s += esc_q; }
        else if (k == 6) s += esc_q;
        else if (k == 7) s += "\\\\";
        else if (k == 8) s += "\\n";
        else if (k == 9) s += (quote == '"') ? "\\'" : "\\\"";
        else if (k == 10) s += "\\x4" + pick("0123456789abcdef");
        else if (k == 11) s += "\\0";
        else if (k == 12) s += (char) *rng(0x80, 0xff);
        else if (k == 13) s += "\\\\" + esc_q;
        else if (k == 14) s += "//";
        else s += "/*";
      }
      const int tail = (int) *rng(0, 5);
      if (tail == 0) s += "\\\\";                                // trailing backslash pair
      else if (tail == 1) s += "\\\\\\\\";
      if (s.empty() && quote == '\'') s = "a";                   // '' is not a C token
      return s;
    });
  };
  auto rawBodyG = rc::gen::exec([]() {
    std::string s;
    const int n = (int) *rng(0, 8);
    for (int i = 0; i < n; ++i) {
      const int k = (int) *rng(0, 9);
      if (k <= 4) s += pick("abc 01_+*/()\"\\'\n\t");
      else if (k == 5) s += ")\"";
      else if (k == 6) s += "\\\"";
      else if (k == 7) s += ")";
      else if (k == 8) s += "\n";
      else s += (char) *rng(0x80, 0xff);
    }
    return s;
  });
  auto commentG = [](bool block) {
    return rc::gen::exec([block]() {
      std::string s;
      const int n = (int) *rng(0, 10);
      for (int i = 0; i < n; ++i) {
        const int k = (int) *rng(0, 9);
        if (k <= 6) s += pick(" abcXYZ019_+-*/<>\"'(){};#@");
        else if (k == 7) s += block ? "\n" : " ";
        else if (k == 8) s += block ? "* /" : "//";
        else s += block ? "\\" : "/*";
      }
      if (block) {
        size_t p;
        while ((p = s.find("*/")) != std::string::npos) s.erase(p, 1);
      }
      return s;
    });
  };
  auto opIdx = rng(0, 1000);
  auto oprunG = rc::gen::exec([opIdx]() {
    Op o; o.k = OPRUN;
    const int n = (int) *rng(2, 6);
    const OpTable &t = ops();
    for (int i = 0; i < n; ++i) {
      // mostly punctuation, sometimes a word operator (sizeof... / new / throw ...)
      if (*rng(0, 7) == 0) o.a.push_back((ll) t.punct.size() + *rng(0, (ll) t.word.size() - 1));
      else o.a.push_back(*rng(0, (ll) t.punct.size() - 1));
    }
    o.s = std::string((size_t) *rng(0, NSEPS - 1), 's');        // separator choice (a[] is the operator list)
    return o;
  });
  auto opG = rc::gen::exec([]() {
    Op o; o.k = OP;
    const OpTable &t = ops();
    o.a.push_back(*rng(0, (ll) (t.punct.size() + t.word.size()) - 1));
    o.s = std::string((size_t) *rng(0, NSEPS - 1), 's');
    return o;
  });

  rc::Gen<Case> gen = caseOf({
    {6, mkOpS(IDENT, {sepG}, identG)},
    {3, mkOp(KEYWORD, {rng(0, NKEYWORDS - 1), sepG})},
    {6, mkOpS(INT, {sepG}, intG)},
    {4, mkOpS(FLOAT, {sepG}, floatG)},
    {7, mkOpS(STR, {rng(0, 4), rng(0, 7), sepG}, bodyG('"'))},
    {5, mkOpS(CHR, {rng(0, 3), rng(0, 7), sepG}, bodyG('\''))},
    {3, mkOpS(RAWSTR, {rng(0, 4), rng(0, 4), sepG}, rawBodyG)},
    {5, opG},
    {7, oprunG},
    {2, mkOpS(LCOMMENT, {sepG}, commentG(false))},
    {3, mkOpS(BCOMMENT, {sepG}, commentG(true))},
  });
  return harnessMain(argc, argv, "C12 tokenizer round trip", gen, runCase, describeCase);
}
