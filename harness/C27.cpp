// C27 — hash_t strings are faithful; hashing and combining have no UB (UBSan is on, no-recover).
#include "common.hpp"
#include <occa/utils/hash.hpp>
#include <memory>

using namespace vf;

enum { HASH = 0, FROMSTR, XOR, XOREQ, COPY, ASSIGN, GETSTR, CLEAR, EXPECT, HASHVEC };
static const int NREG = 4;

static bool isHex64(const std::string &s) {
  if (s.size() != 64) return false;
  for (char c : s) if (!((c >= '0' && c <= '9') || (c >= 'a' && c <= 'f'))) return false;
  return true;
}

static bool checkReg(const occa::hash_t &h, Ctx &ctx, const char *when) {
  const std::string full = h.getFullString();
  std::ostringstream why;
  if (!isHex64(full)) {
    why << when << ": getFullString() is not 64 lowercase hex chars: '" << full << "'";
    return ctx.fail(why.str());
  }
  occa::hash_t back = occa::hash_t::fromString(full);
  if (!(back == h) || (back != h) || back.getFullString() != full) {
    why << when << ": fromString(getFullString(h)) != h for " << full << " (got " << back.getFullString() << ")";
    return ctx.fail(why.str());
  }
  const std::string sh = h.getString();
  if (sh != full.substr(0, 16)) {
    why << when << ": getString()='" << sh << "' but getFullString()='" << full << "'";
    return ctx.fail(why.str());
  }
  if ((std::string) h != sh) return ctx.fail(std::string(when) + ": operator std::string != getString");
  std::ostringstream os; os << h;
  if (os.str() != sh) return ctx.fail(std::string(when) + ": operator<< != getString");
  return true;
}

static occa::hash_t hashBytes(const std::string &s, int how) {
  // exact-size heap copy so a one-byte over-read is an ASan error
  std::unique_ptr<char[]> buf(new char[s.size() ? s.size() : 1]);
  memcpy(buf.get(), s.data(), s.size());
  if (how == 0) return occa::hash((const void*) buf.get(), (occa::udim_t) s.size());
  return occa::hash(s);
}

static bool runCase(const Case &c, Ctx &ctx) {
  occa::hash_t r[NREG];
  static FILE *df = NULL;
  static bool dfInit = false;
  if (!dfInit) {
    dfInit = true;
    const char *dir = getenv("VERIF_DIGEST_DIR");
    if (dir) df = fopen((std::string(dir) + "/digest" + envOr("VERIF_SHARD", "0") + ".txt").c_str(), "a");
  }
  static long dcount = 0;
  for (const Op &o : c) {
    auto R = [&](size_t i) -> occa::hash_t& { return r[(i < o.a.size() ? o.a[i] : 0) % NREG]; };
    switch (o.k) {
    case HASH: {
      occa::hash_t a = hashBytes(o.s, 0), b = hashBytes(o.s, 1);
      if (a != b) return ctx.fail("hash(ptr,len) != hash(std::string) for x" + hexEncode(o.s));
      if (o.s.find('\0') == std::string::npos) {
        if (occa::hash(o.s.c_str()) != a) return ctx.fail("hash(const char*) != hash(ptr,len) for x" + hexEncode(o.s));
      }
      if (!a.isInitialized()) return ctx.fail("hash() result not initialized");
      for (unsigned char ch : o.s) if (ch >= 0x80) { ctx.nontrivial = true; ctx.cls("high-bit-byte"); break; }
      if (o.s.empty()) ctx.cls("empty-input");
      if (df && dcount < 3000) { fprintf(df, "x%s %s\n", hexEncode(o.s).c_str(), a.getFullString().c_str()); ++dcount; }
      R(0) = a;
      break;
    }
    case HASHVEC: {
      // hash(vector<T>) combines element hashes with ^=
      std::vector<int> v;
      for (size_t i = 1; i < o.a.size(); ++i) v.push_back((int) o.a[i]);
      occa::hash_t a, m;
      for (int x : v) { a = a ^ x; m ^= occa::hash(&x, sizeof(int)); }   // operator^(const T&) hashes the value
      if (a != m) return ctx.fail("h ^ value != h ^ hash(&value, sizeof value)");
      R(0) = a;
      ctx.nontrivial = true;
      break;
    }
    case FROMSTR: {
      if (!isHex64(o.s)) continue;
      R(0) = occa::hash_t::fromString(o.s);
      if (R(0).getFullString() != o.s) return ctx.fail("getFullString(fromString(s)) != s for " + o.s);
      ctx.cls("fromString");
      break;
    }
    case XOR: {
      occa::hash_t x = R(1) ^ R(2);
      for (int i = 0; i < 8; ++i) if (x.h[i] != (R(1).h[i] ^ R(2).h[i])) return ctx.fail("xor words wrong");
      if ((o.a[1] % NREG) == (o.a[2] % NREG)) ctx.cls("self-xor(all-zero)");
      R(0) = x;
      ctx.nontrivial = true; ctx.cls("combined");
      break;
    }
    case XOREQ: {
      occa::hash_t before = R(0), rhs = R(1);
      R(0) ^= rhs;
      if (R(0) != (before ^ rhs)) return ctx.fail("^= differs from ^");
      ctx.nontrivial = true; ctx.cls("combined");
      break;
    }
    case COPY: { occa::hash_t cp(R(1)); if (cp != R(1)) return ctx.fail("copy differs"); if (!checkReg(cp, ctx, "copy")) return false; R(0) = cp; break; }
    case ASSIGN: { R(0) = R(1); break; }
    case GETSTR: {
      // cache coherence: getString, then mutate through every route, getString again
      (void) R(0).getString();
      ctx.cls("getString-then-mutate");
      break;
    }
    case CLEAR: { R(0).clear(); if (R(0).isInitialized()) return ctx.fail("clear() left initialized"); break; }
    case EXPECT: {
      // cross-process determinism: o.s = 64 hex digits of expected full string + raw bytes
      if (o.s.size() < 64) continue;
      const std::string exp = o.s.substr(0, 64), bytes = o.s.substr(64);
      const std::string got = hashBytes(bytes, 0).getFullString();
      if (got != exp) return ctx.fail("hash of x" + hexEncode(bytes) + " is " + got + " here but " + exp + " in another process");
      ctx.nontrivial = true;
      continue;
    }
    default: continue;
    }
    for (int i = 0; i < NREG; ++i) {
      if (!checkReg(r[i], ctx, "after step")) return false;
      // direct word mutation between two getString calls (public member)
    }
  }
  // final: mutate words directly and re-check cache coherence
  for (int i = 0; i < NREG; ++i) {
    (void) r[i].getString();
    r[i].h[1] ^= 0x00010000;   // only the second word changes: the short string must follow
    if (!checkReg(r[i], ctx, "after direct change of word 1")) return false;
    r[i].h[0] ^= 0x5a5a5a5a;
    if (!checkReg(r[i], ctx, "after direct word change")) return false;
    for (int j = 0; j < 8; ++j) r[i].h[j] = 0;
    if (!checkReg(r[i], ctx, "all-zero words")) return false;
  }
  if (df) fflush(df);
  return true;
}

// --rehash <digest file>: recompute in this (different) process; emit failing EXPECT cases
static int rehash(const char *file, const char *outCase) {
  std::ifstream f(file);
  std::string hx, exp;
  long n = 0, bad = 0;
  while (f >> hx >> exp) {
    ++n;
    const std::string bytes = hexDecode(hx.substr(1));
    const std::string got = hashBytes(bytes, 0).getFullString();
    if (got != exp) {
      if (!bad) {
        Case c(1); c[0].k = EXPECT; c[0].s = exp + bytes;
        std::ofstream o(outCase); o << serialize(c);
      }
      ++bad;
    }
  }
  printf("REHASH n=%ld bad=%ld\n", n, bad);
  return bad ? 1 : 0;
}

int main(int argc, char **argv) {
  if (argc >= 4 && !strcmp(argv[1], "--rehash")) return rehash(argv[2], argv[3]);
  auto bytesG = rc::gen::exec([]() {
    std::string s;
    int n = (int) *rng(0, 40);
    int mode = (int) *rng(0, 3);
    for (int i = 0; i < n; ++i) {
      ll b = (mode == 0) ? *rng(0, 255) : (mode == 1) ? *rng(32, 126) : (mode == 2) ? *rng(128, 255) : *rng(0, 2) * 127;
      s += (char) b;
    }
    return s;
  });
  auto hexG = rc::gen::exec([]() {
    std::string s;
    static const char *d = "0123456789abcdef";
    int mode = (int) *rng(0, 3);
    for (int i = 0; i < 64; ++i) s += (mode == 0) ? '0' : (mode == 1) ? 'f' : d[*rng(0, 15)];
    return s;
  });
  auto reg = rng(0, NREG - 1);
  rc::Gen<Case> gen = caseOf({
    {8, mkOpS(HASH, {reg}, bytesG)},
    {3, mkOpS(FROMSTR, {reg}, hexG)},
    {5, mkOp(XOR, {reg, reg, reg})},
    {3, mkOp(XOREQ, {reg, reg})},
    {2, mkOp(COPY, {reg, reg})},
    {2, mkOp(ASSIGN, {reg, reg})},
    {3, mkOp(GETSTR, {reg})},
    {1, mkOp(CLEAR, {reg})},
    {1, mkOp(HASHVEC, {reg, rng(-5, 5), rng(INT32_MIN, INT32_MAX), rng(0, 3)})},
  });
  return harnessMain(argc, argv, "C27 hash", gen, runCase);
}
