// Shared by harness/fuzz_C12.cpp (libFuzzer) and harness/C12.cpp (rapidcheck): drive occa::lang::tokenizer_t
// in-process, describe tokens as plain data, print-with-own-print, compare two tokenizations.
// No rapidcheck dependency here (the fuzz target does not link it).
#pragma once
#include <occa/internal/io/output.hpp>
#include <occa/internal/lang/file.hpp>
#include <occa/internal/lang/token.hpp>
#include <occa/internal/lang/tokenizer.hpp>
#include <occa/utils/exception.hpp>

#include <cstdint>
#include <cstdio>
#include <cstdlib>
#include <cstring>
#include <memory>
#include <sstream>
#include <string>
#include <vector>

namespace c12 {
  using namespace occa::lang;

  struct Tok {
    int kind = 0;            // tokenType::*
    std::string spelling;    // what the token's own print() writes
    std::string value;       // identifier / comment / string / char value; primitive: strValue
    int enc = 0;             // string / char encoding bits
    std::string udf;         // user-defined-literal suffix
    int ptype = 0;           // primitiveType::*
    uint64_t bits = 0;       // primitive value, extracted by type (the union's unused bytes are garbage)
    const operator_t *op = nullptr;
    bool malformed = false;  // raw string whose scan failed silently (no "(" / no closing delimiter): not a C token
  };

  struct Result {
    std::vector<Tok> toks;
    int errors = 0;
    bool threw = false;
    std::string what;
  };

  inline void sink(const char *) {}
  inline void silence() {
    occa::io::stderr.setOverride(sink);
    occa::io::stdout.setOverride(sink);
  }

  inline uint64_t primBits(const occa::primitive &p) {
    namespace pt = occa::primitiveType;
    uint64_t b = 0;
    switch (p.type) {
    case pt::bool_:   return p.value.bool_ ? 1 : 0;
    case pt::uint8_:  return p.value.uint8_;
    case pt::uint16_: return p.value.uint16_;
    case pt::uint32_: return p.value.uint32_;
    case pt::uint64_: return p.value.uint64_;
    case pt::int8_:   return (uint64_t) (int64_t) p.value.int8_;
    case pt::int16_:  return (uint64_t) (int64_t) p.value.int16_;
    case pt::int32_:  return (uint64_t) (int64_t) p.value.int32_;
    case pt::int64_:  return (uint64_t) p.value.int64_;
    case pt::float_:  { uint32_t f; memcpy(&f, &p.value.float_, 4); return f; }
    case pt::double_: memcpy(&b, &p.value.double_, 8); return b;
    default: return 0;
    }
  }

  inline Tok describe(token_t &t) {
    Tok k;
    k.kind = t.type();
    k.spelling = t.str();
    if (k.kind == tokenType::identifier) {
      k.value = t.to<identifierToken>().value;
    } else if (k.kind == tokenType::primitive) {
      primitiveToken &p = t.to<primitiveToken>();
      k.value = p.strValue;
      k.ptype = p.value.type;
      k.bits = primBits(p.value);
    } else if (k.kind == tokenType::op) {
      k.op = t.to<operatorToken>().op;
      k.value = k.op->str;
    } else if (k.kind == tokenType::comment) {
      k.value = t.to<commentToken>().value;
    } else if (k.kind == tokenType::string) {
      stringToken &s = t.to<stringToken>();
      k.value = s.value; k.enc = s.encoding; k.udf = s.udf;
      // getRawString() gives up without an error (empty value, token = the prefix only) when the literal has no "("
      // or no closing delimiter, e.g. R"" : the token then ends at the prefix instead of at a closing quote
      if ((s.encoding & encodingType::R) && t.origin.position.end && t.origin.position.end > t.origin.position.start)
        k.malformed = (t.origin.position.end[-1] != '"');
    } else if (k.kind == tokenType::char_) {
      charToken &s = t.to<charToken>();
      k.value = s.value; k.enc = s.encoding; k.udf = s.udf;
    }
    return k;
  }

  // Fresh tokenizer *state* per call: tokenizer_t::set() -> clear() resets every per-source member (origin/position,
  // stack, cached tokens, error counters, last token types); only the immutable operator trie built by setup() is
  // kept.  This is how parser_t and the library's own tests reuse one tokenizer.  (Constructing a tokenizer per input
  // costs ~2 ms under ASan: trie::add re-freezes the trie on each of the 70 operator insertions.)
  // occa::exception = clean rejection.
  inline tokenizer_t& sharedTokenizer(int which = 0) {
    static tokenizer_t *tz[3] = {NULL, NULL, NULL};
    if (!tz[which]) tz[which] = new tokenizer_t();
    return *tz[which];
  }

  inline Result tokenize(const char *src) {
    Result r;
    tokenizer_t &tz = sharedTokenizer(0);
    try {
      tz.set(src);
      token_t *t = NULL;
      while (!tz.isEmpty()) {
        tz.setNext(t);
        if (!t) break;
        std::unique_ptr<token_t> own(t);
        r.toks.push_back(describe(*t));   // printed while the source buffer is alive (unknownToken reads it)
      }
      r.errors = tz.errors;
    } catch (occa::exception &e) {
      r.threw = true;
      r.what = e.what();
    }
    try { tz.clear(); } catch (occa::exception &) {}   // drop cached tokens / references into src
    return r;
  }

  // exact-size heap copy (size + terminating NUL): a one-byte over-read is an ASan error
  struct ExactBuf {
    char *p;
    explicit ExactBuf(const std::string &s) : p(new char[s.size() + 1]) { memcpy(p, s.data(), s.size()); p[s.size()] = 0; }
    ExactBuf(const uint8_t *d, size_t n) : p(new char[n + 1]) { if (n) memcpy(p, d, n); p[n] = 0; }
    ~ExactBuf() { delete[] p; }
    ExactBuf(const ExactBuf&) = delete;
    ExactBuf& operator=(const ExactBuf&) = delete;
  };

  inline Result tokenizeExact(const std::string &s) {
    ExactBuf b(s);
    return tokenize(b.p);
  }

  inline bool isLineComment(const Tok &t) {
    return t.kind == tokenType::comment && t.value.compare(0, 2, "//") == 0;
  }

  // Every token's own print(), separated by one space.  A line comment extends to the end of the line by definition,
  // so the separator after it is the newline itself (the newline token that follows, or an added '\n').
  inline std::string reprint(const std::vector<Tok> &toks) {
    std::string out;
    for (size_t i = 0; i < toks.size(); ++i) {
      out += toks[i].spelling;
      if (isLineComment(toks[i])) {
        if (i + 1 < toks.size() && toks[i + 1].kind != tokenType::newline) out += '\n';
      } else {
        out += ' ';
      }
    }
    return out;
  }

  inline std::string esc(const std::string &s) {
    std::string r;
    for (unsigned char c : s) {
      if (c == '\\') r += "\\\\";
      else if (c == '\n') r += "\\n";
      else if (c < 0x20 || c >= 0x7f) { char b[8]; snprintf(b, 8, "\\x%02x", c); r += b; }
      else r += (char) c;
    }
    return r;
  }

  inline const char *kindName(int k) {
    if (k == tokenType::identifier) return "identifier";
    if (k == tokenType::primitive) return "primitive";
    if (k == tokenType::op) return "op";
    if (k == tokenType::comment) return "comment";
    if (k == tokenType::string) return "string";
    if (k == tokenType::char_) return "char";
    if (k == tokenType::newline) return "newline";
    if (k == tokenType::unknown) return "unknown";
    return "?";
  }

  inline std::string show(const Tok &t) {
    std::ostringstream ss;
    ss << kindName(t.kind) << "[" << esc(t.value) << "]";
    if (t.enc) ss << "enc" << t.enc;
    if (!t.udf.empty()) ss << "udf[" << esc(t.udf) << "]";
    if (t.kind == tokenType::primitive) ss << "type" << t.ptype << ":" << std::hex << t.bits << std::dec;
    return ss.str();
  }

  inline std::vector<Tok> withoutNewlines(const std::vector<Tok> &v) {
    std::vector<Tok> r;
    for (auto &t : v) if (t.kind != tokenType::newline) r.push_back(t);
    return r;
  }

  inline bool sameTok(const Tok &a, const Tok &b) {
    return a.kind == b.kind && a.value == b.value && a.enc == b.enc && a.udf == b.udf
      && a.ptype == b.ptype && a.bits == b.bits && a.op == b.op;
  }

  // kinds and values of all non-newline tokens
  inline bool sameTokens(const std::vector<Tok> &a0, const std::vector<Tok> &b0, std::string &why) {
    std::vector<Tok> a = withoutNewlines(a0), b = withoutNewlines(b0);
    const size_t n = a.size() < b.size() ? a.size() : b.size();
    for (size_t i = 0; i < n; ++i) {
      if (!sameTok(a[i], b[i])) {
        why = "token " + std::to_string(i) + ": " + show(a[i]) + " became " + show(b[i]);
        return false;
      }
    }
    if (a.size() != b.size()) {
      why = std::to_string(a.size()) + " tokens became " + std::to_string(b.size()) + "; first extra/missing: "
        + show(a.size() > n ? a[n] : b[n]);
      return false;
    }
    return true;
  }

  // ---- lexical well-formedness (the round-trip statement quantifies over C/OKL tokens only) -------------------------
  inline bool isIdent(const std::string &s) {
    if (s.empty() || !(isalpha((unsigned char) s[0]) || s[0] == '_')) return false;
    for (unsigned char c : s) if (!(isalnum(c) || c == '_')) return false;
    return true;
  }
  inline bool isIntSuffix(const std::string &s) {
    static const char *ok[] = {"", "u", "U", "l", "L", "ll", "LL", "ul", "uL", "Ul", "UL", "lu", "lU", "Lu", "LU",
                               "ull", "uLL", "Ull", "ULL", "llu", "llU", "LLu", "LLU"};
    for (const char *o : ok) if (s == o) return true;
    return false;
  }
  inline bool isIntLiteral(const std::string &s) {
    size_t i = 0;
    const size_t n = s.size();
    if (n == 0) return false;
    if (s[0] == '0' && n >= 2 && (s[1] == 'x' || s[1] == 'X')) {
      i = 2; size_t d = i;
      while (i < n && isxdigit((unsigned char) s[i])) ++i;
      if (i == d) return false;
    } else if (s[0] == '0' && n >= 2 && (s[1] == 'b' || s[1] == 'B')) {
      i = 2; size_t d = i;
      while (i < n && (s[i] == '0' || s[i] == '1')) ++i;
      if (i == d) return false;
    } else if (s[0] == '0') {
      i = 1;
      while (i < n && s[i] >= '0' && s[i] <= '7') ++i;
    } else if (s[0] >= '1' && s[0] <= '9') {
      while (i < n && isdigit((unsigned char) s[i])) ++i;
    } else {
      return false;
    }
    return isIntSuffix(s.substr(i));
  }
  inline bool isFloatLiteral(const std::string &s) {
    size_t i = 0;
    const size_t n = s.size();
    size_t digits = 0;
    bool dot = false, exp = false;
    while (i < n && isdigit((unsigned char) s[i])) { ++i; ++digits; }
    if (i < n && s[i] == '.') { dot = true; ++i; while (i < n && isdigit((unsigned char) s[i])) { ++i; ++digits; } }
    if (!digits) return false;
    if (i < n && (s[i] == 'e' || s[i] == 'E')) {
      exp = true; ++i;
      if (i < n && (s[i] == '+' || s[i] == '-')) ++i;
      size_t d = i;
      while (i < n && isdigit((unsigned char) s[i])) ++i;
      if (i == d) return false;
    }
    if (!dot && !exp) return false;
    const std::string suf = s.substr(i);
    return suf.empty() || suf == "f" || suf == "F";
  }
  inline bool wellFormed(const Tok &t) {
    if (t.kind == tokenType::newline || t.kind == tokenType::op) return true;
    if (t.kind == tokenType::identifier) return isIdent(t.value);
    if (t.kind == tokenType::primitive)
      return t.value == "true" || t.value == "false" || isIntLiteral(t.value) || isFloatLiteral(t.value);
    if (t.kind == tokenType::comment) {
      if (isLineComment(t)) return true;
      return t.value.size() >= 4 && t.value.compare(0, 2, "/*") == 0 && t.value.compare(t.value.size() - 2, 2, "*/") == 0;
    }
    if (t.kind == tokenType::string || t.kind == tokenType::char_) return !t.malformed && (t.udf.empty() || isIdent(t.udf));
    return false;   // unknownToken and anything else
  }

  // known findings (ids in VERIF_KNOWN, comma separated)
  inline bool knownId(const char *id) {
    const char *v = getenv("VERIF_KNOWN");
    if (!v) return false;
    const std::string s = std::string(",") + v + ",";
    return s.find(std::string(",") + id + ",") != std::string::npos;
  }
}
