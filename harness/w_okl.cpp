// w_okl — batch worker around OCCA's OKL translators.
// stdin : one request per line   "<id> <mode> <hex(source)> [<hex(kernel props json)>]"
// stdout: one answer per line    "<id> <ok:0|1> <hex(device source)> <hex(launcher source)> <hex(diagnostics)>"
// Before a request is processed its id is written to the file named by W_OKL_CUR, so that the
// runner knows which case was being translated when a sanitizer aborts the process.
#include <occa.hpp>
#include <occa/internal/io/output.hpp>
#include <occa/internal/lang/modes/serial.hpp>
#include <occa/internal/lang/modes/openmp.hpp>
#include <occa/internal/lang/modes/cuda.hpp>
#include <occa/internal/lang/modes/hip.hpp>
#include <occa/internal/lang/modes/opencl.hpp>
#include <occa/internal/lang/modes/metal.hpp>
#include <occa/internal/lang/modes/dpcpp.hpp>

#include <cstdio>
#include <fstream>
#include <iostream>
#include <sstream>
#include <string>

static std::string hexEncode(const std::string &s) {
  static const char *d = "0123456789abcdef";
  std::string r;
  for (unsigned char c : s) { r += d[c >> 4]; r += d[c & 15]; }
  return r.empty() ? "-" : r;
}
static std::string hexDecode(const std::string &h) {
  if (h == "-") return "";
  std::string r;
  auto v = [](char c) -> int { return (c >= 'a') ? c - 'a' + 10 : c - '0'; };
  for (size_t i = 0; i + 1 < h.size(); i += 2) r += (char) (v(h[i]) * 16 + v(h[i + 1]));
  return r;
}

static std::string diag;
static void capture(const char *s) { diag += s; }

int main() {
  occa::io::stderr.setOverride(capture);
  occa::io::stdout.setOverride(capture);
  const char *cur = getenv("W_OKL_CUR");
  std::string line;
  while (std::getline(std::cin, line)) {
    std::istringstream ls(line);
    std::string id, mode, hsrc, hprops;
    ls >> id >> mode >> hsrc >> hprops;
    if (id.empty()) continue;
    if (cur) { std::ofstream f(cur, std::ios::trunc); f << id << " " << mode << "\n"; }
    const std::string src = hexDecode(hsrc);
    diag.clear();
    bool ok = false;
    std::string device, launcher;
    try {
      occa::json props;
      if (!hprops.empty() && hprops != "-") props = occa::json::parse(hexDecode(hprops));
      props["mode"] = mode;
      occa::lang::parser_t *parser = NULL;
      bool hasLauncher = true;
      if (mode == "serial") { parser = new occa::lang::okl::serialParser(props); hasLauncher = false; }
      else if (mode == "openmp") { parser = new occa::lang::okl::openmpParser(props); hasLauncher = false; }
      else if (mode == "cuda") parser = new occa::lang::okl::cudaParser(props);
      else if (mode == "hip") parser = new occa::lang::okl::hipParser(props);
      else if (mode == "opencl") parser = new occa::lang::okl::openclParser(props);
      else if (mode == "metal") parser = new occa::lang::okl::metalParser(props);
      else if (mode == "dpcpp") parser = new occa::lang::okl::dpcppParser(props);
      if (parser) {
        parser->parseSource(src);
        ok = parser->succeeded();
        if (ok) {
          device = parser->toString();
          if (hasLauncher) launcher = ((occa::lang::okl::withLauncher*) parser)->launcherParser.toString();
        }
        delete parser;
      } else {
        diag += "unknown mode";
      }
    } catch (occa::exception &e) {
      ok = false;
      diag += std::string("occa::exception: ") + e.what();
    }
    std::cout << id << " " << (ok ? 1 : 0) << " " << hexEncode(device) << " " << hexEncode(launcher) << " "
              << hexEncode(diag.substr(0, 2000)) << std::endl;
  }
  return 0;
}
