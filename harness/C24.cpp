// C24 — JSON dump/parse round trip.  A case is a pre-order op list describing one JSON tree
// (plus a header op carrying the indentation and the construction route).  The decoder is total:
// every op list decodes to a valid tree, so rapidcheck may shrink freely.
//
// Oracle (properties.jsonl C24): for the tree v built through occa::json and the generated indent,
//   p = parse(v.dump(indent))  must satisfy  p == v  (json::operator==, both directions) *and* an
//   independent deep comparison against the plain model tree (kinds, string bytes, key sets and
//   order, array lengths, numbers converted to the original's C type; floats bit-exact);
//   dumping is a function: a second value built through another route / insertion order is ==,
//   dumps to the same text and has the same hash(); the parsed value dumps to the same text and has
//   the same hash().
#include "common.hpp"
#include <occa/types/json.hpp>
#include <occa/utils/exception.hpp>
#include <climits>
#include <cmath>

using namespace vf;

enum { HDR = 0, JNULL, JBOOL, JINT, JFLT, JDBL, JSTR, JARR, JOBJ, JKEY };
enum { I8 = 0, U8, I16, U16, I32, U32, I64, U64 };
static const int INDENTS[5] = {0, 1, 2, 4, -1};
static const int MAX_DEPTH = 5, MAX_WIDTH = 6;

struct Node {
  int kind = JNULL;
  int ntype = I32;
  ll i = 0;              // bool / integer payload / float or double bits
  std::string s;
  std::vector<Node> arr;
  std::map<std::string, Node> obj;
};

static ll normInt(int t, ll v) {
  switch (t) {
  case I8: return (int8_t) v;    case U8: return (uint8_t) v;
  case I16: return (int16_t) v;  case U16: return (uint16_t) v;
  case I32: return (int32_t) v;  case U32: return (uint32_t) v;
  default: return v;             // I64 / U64: the 64 bits themselves
  }
}
static float fltOf(ll bits) { uint32_t b = (uint32_t) bits; float f; memcpy(&f, &b, 4); return f; }
static double dblOf(ll bits) { uint64_t b = (uint64_t) bits; double d; memcpy(&d, &b, 8); return d; }

static Node decode(const Case &c, size_t &i, int depth) {
  Node n;
  if (i >= c.size()) return n;
  const Op &o = c[i++];
  auto A = [&](size_t k) -> ll { return k < o.a.size() ? o.a[k] : 0; };
  switch (o.k) {
  case JBOOL: n.kind = JBOOL; n.i = A(0) & 1; break;
  case JINT: n.kind = JINT; n.ntype = (int) (((A(0) % 8) + 8) % 8); n.i = normInt(n.ntype, A(1)); break;
  case JFLT: {
    uint32_t b = (uint32_t) A(0);
    if ((b & 0x7F800000u) == 0x7F800000u) b &= ~0x00800000u;   // NaN/Inf are not JSON numbers: make finite
    n.kind = JFLT; n.i = b; break;
  }
  case JDBL: {
    uint64_t b = (uint64_t) A(0);
    if ((b & 0x7FF0000000000000ull) == 0x7FF0000000000000ull) b &= ~0x0010000000000000ull;
    n.kind = JDBL; n.i = (ll) b; break;
  }
  case JSTR: n.kind = JSTR; n.s = o.s; break;
  case JARR: {
    n.kind = JARR;
    int cnt = (int) std::min<ll>(std::max<ll>(A(0), 0), MAX_WIDTH);
    if (depth >= MAX_DEPTH) cnt = 0;
    for (int k = 0; k < cnt; ++k) n.arr.push_back(decode(c, i, depth + 1));
    break;
  }
  case JOBJ: {
    n.kind = JOBJ;
    int cnt = (int) std::min<ll>(std::max<ll>(A(0), 0), MAX_WIDTH);
    if (depth >= MAX_DEPTH) cnt = 0;
    for (int k = 0; k < cnt; ++k) {
      std::string key;
      if (i < c.size() && c[i].k == JKEY) key = c[i++].s;
      else key = std::string("k") + (char) ('0' + k);
      if (key.empty()) key = "e";          // assumption: keys are non-empty (the parser rejects "" explicitly)
      n.obj[key] = decode(c, i, depth + 1);  // later duplicate wins, as in std::map
    }
    break;
  }
  default: break;                          // HDR / KEY / unknown in value position: null
  }
  return n;
}

static bool hasNul(const Node &n) {
  if (n.s.find('\0') != std::string::npos) return true;
  for (auto &k : n.arr) if (hasNul(k)) return true;
  for (auto &kv : n.obj) if (kv.first.find('\0') != std::string::npos || hasNul(kv.second)) return true;
  return false;
}
static std::string deNul(std::string s) { for (char &ch : s) if (ch == '\0') ch = '\x01'; return s; }
static Node stripNul(const Node &n) {
  Node r = n;
  r.s = deNul(n.s);
  for (auto &k : r.arr) k = stripNul(k);
  r.obj.clear();
  for (auto &kv : n.obj) r.obj[deNul(kv.first)] = stripNul(kv.second);
  return r;
}

// route bit0: arrays through operator+= instead of array().push_back; bit1: objects through set() instead of
// object()[key]; reverse: insert object members in descending key order
static occa::json build(const Node &n, int route, bool reverse) {
  switch (n.kind) {
  case JBOOL: return occa::json((bool) n.i);
  case JINT:
    switch (n.ntype) {
    case I8: return occa::json((int8_t) n.i);    case U8: return occa::json((uint8_t) n.i);
    case I16: return occa::json((int16_t) n.i);  case U16: return occa::json((uint16_t) n.i);
    case I32: return occa::json((int32_t) n.i);  case U32: return occa::json((uint32_t) n.i);
    case I64: return occa::json((int64_t) n.i);  default: return occa::json((uint64_t) n.i);
    }
  case JFLT: return occa::json(fltOf(n.i));
  case JDBL: return occa::json(dblOf(n.i));
  case JSTR: return occa::json(n.s);
  case JARR: {
    occa::json j; j.asArray();
    for (auto &k : n.arr) {
      if (route & 1) j += build(k, route, reverse);
      else j.array().push_back(build(k, route, reverse));
    }
    return j;
  }
  case JOBJ: {
    occa::json j; j.asObject();
    auto put = [&](const std::string &key, const Node &v) {
      // set(std::string) goes through c_str(): only usable for keys without NUL
      if ((route & 2) && key.find('\0') == std::string::npos) j.set(key, build(v, route, reverse));
      else j.object()[key] = build(v, route, reverse);
    };
    if (reverse) for (auto it = n.obj.rbegin(); it != n.obj.rend(); ++it) put(it->first, it->second);
    else for (auto &kv : n.obj) put(kv.first, kv.second);
    return j;
  }
  default: { occa::json j; j.asNull(); return j; }
  }
}

static std::string show(const std::string &s) {
  std::string r = "\"";
  for (unsigned char ch : s) {
    if (ch >= 0x20 && ch < 0x7f && ch != '"' && ch != '\\') r += (char) ch;
    else { char b[8]; snprintf(b, 8, "\\x%02x", ch); r += b; }
  }
  return r + "\"";
}
static std::string showNode(const Node &n) {
  std::ostringstream ss;
  static const char *tn[] = {"i8", "u8", "i16", "u16", "i32", "u32", "i64", "u64"};
  switch (n.kind) {
  case JBOOL: ss << (n.i ? "true" : "false"); break;
  case JINT: if (n.ntype == U64) ss << (unsigned long long) n.i; else ss << n.i; ss << ":" << tn[n.ntype]; break;
  case JFLT: { char b[64]; snprintf(b, 64, "%.9gf(0x%08x)", (double) fltOf(n.i), (unsigned) n.i); ss << b; break; }
  case JDBL: { char b[80]; snprintf(b, 80, "%.17g(0x%016llx)", dblOf(n.i), (unsigned long long) n.i); ss << b; break; }
  case JSTR: ss << show(n.s); break;
  case JARR: { ss << "["; bool f = true; for (auto &k : n.arr) { ss << (f ? "" : ", ") << showNode(k); f = false; } ss << "]"; break; }
  case JOBJ: { ss << "{"; bool f = true; for (auto &kv : n.obj) { ss << (f ? "" : ", ") << show(kv.first) << ": " << showNode(kv.second); f = false; } ss << "}"; break; }
  default: ss << "null";
  }
  return ss.str();
}

// independent deep comparison of an occa::json against the model
struct At {               // lazily printed location (built only when a comparison fails)
  const At *up; const std::string *key; int idx;
  std::string str() const {
    std::string r = up ? up->str() : std::string();
    if (key) r += "/" + show(*key); else if (idx >= 0) r += "[" + std::to_string(idx) + "]";
    return r;
  }
};
static const At ROOT = {NULL, NULL, -1};

static bool same(const occa::json &j, const Node &n, const At &at, std::string &why) {
  auto bad = [&](const std::string &m) { std::string a = at.str(); why = "at " + (a.empty() ? std::string("<root>") : a) + ": " + m; return false; };
  switch (n.kind) {
  case JNULL: return j.isNull() ? true : bad("expected null, json type " + std::to_string((int) j.type));
  case JBOOL:
    if (!j.isBool()) return bad("expected a boolean, json type " + std::to_string((int) j.type));
    return (j.number().to<bool>() == (bool) n.i) ? true : bad("boolean value differs");
  case JINT: {
    if (!j.isNumber() || j.isBool()) return bad("expected a (non-boolean) number for " + showNode(n));
    const occa::primitive &p = j.number();
    bool ok = false;
    switch (n.ntype) {
    case I8: ok = p.to<int8_t>() == (int8_t) n.i; break;     case U8: ok = p.to<uint8_t>() == (uint8_t) n.i; break;
    case I16: ok = p.to<int16_t>() == (int16_t) n.i; break;  case U16: ok = p.to<uint16_t>() == (uint16_t) n.i; break;
    case I32: ok = p.to<int32_t>() == (int32_t) n.i; break;  case U32: ok = p.to<uint32_t>() == (uint32_t) n.i; break;
    case I64: ok = p.to<int64_t>() == (int64_t) n.i; break;  default: ok = p.to<uint64_t>() == (uint64_t) n.i; break;
    }
    return ok ? true : bad("integer " + showNode(n) + " came back as " + p.toString() + " (primitive type " + std::to_string(p.type) + ")");
  }
  case JFLT: {
    if (!j.isNumber() || j.isBool()) return bad("expected a number for " + showNode(n));
    float f = j.number().to<float>(), g = fltOf(n.i);
    return memcmp(&f, &g, 4) == 0 ? true : bad("float " + showNode(n) + " came back as " + j.number().toString());
  }
  case JDBL: {
    if (!j.isNumber() || j.isBool()) return bad("expected a number for " + showNode(n));
    double f = j.number().to<double>(), g = dblOf(n.i);
    return memcmp(&f, &g, 8) == 0 ? true : bad("double " + showNode(n) + " came back as " + j.number().toString());
  }
  case JSTR:
    if (!j.isString()) return bad("expected a string, json type " + std::to_string((int) j.type));
    return j.string() == n.s ? true : bad("string " + show(n.s) + " came back as " + show(j.string()));
  case JARR: {
    if (!j.isArray()) return bad("expected an array, json type " + std::to_string((int) j.type));
    if (j.array().size() != n.arr.size() || j.size() != (int) n.arr.size())
      return bad("array length " + std::to_string(j.array().size()) + ", expected " + std::to_string(n.arr.size()));
    for (size_t k = 0; k < n.arr.size(); ++k) {
      const At sub = {&at, NULL, (int) k};
      if (!same(j.array()[k], n.arr[k], sub, why)) return false;
    }
    return true;
  }
  case JOBJ: {
    if (!j.isObject()) return bad("expected an object, json type " + std::to_string((int) j.type));
    const occa::jsonObject &ob = j.object();
    bool keysOk = ob.size() == n.obj.size() && j.size() == (int) n.obj.size();
    if (keysOk) {
      auto a = ob.begin();
      for (auto b = n.obj.begin(); b != n.obj.end(); ++a, ++b) if (a->first != b->first) { keysOk = false; break; }
    }
    if (!keysOk) {
      std::string got, exp;
      for (auto &kv : ob) got += show(kv.first) + " ";
      for (auto &kv : n.obj) exp += show(kv.first) + " ";
      return bad("object keys are " + got + ", expected " + exp);
    }
    occa::strVector ks = j.keys();
    if (ks.size() != n.obj.size()) return bad("keys() has the wrong length");
    size_t idx = 0;
    auto a = ob.begin();
    for (auto &kv : n.obj) {
      if (ks[idx++] != kv.first) return bad("keys() order differs");
      const At sub = {&at, &kv.first, -1};
      if (!same((a++)->second, kv.second, sub, why)) return false;
    }
    return true;
  }
  }
  return bad("unknown model kind");
}

static void classify(const Node &n, Ctx &ctx, int depth, int &maxDepth) {
  maxDepth = std::max(maxDepth, depth);
  auto bytes = [&](const std::string &s, const char *what) {
    int f = 0;
    for (size_t k = 0; k < s.size(); ++k) {
      const unsigned char ch = (unsigned char) s[k];
      if (ch == '"') f |= 1;
      else if (ch == '\\') { f |= 2; if (k + 1 < s.size() && s[k + 1] == 'u') f |= 64; }
      else if (ch == '\n' || ch == '\t' || ch == '\b' || ch == '\f' || ch == '\r') f |= 4;
      else if (ch < 0x20 || ch == 0x7f) f |= 8;
      else if (ch >= 0x80) f |= 16;
    }
    if (!f) return;
    static const char *names[] = {"-quote", "-backslash", "-escaped-ctrl", "-raw-ctrl", "-high-byte", "", "-backslash-u-text"};
    if (f & 3) ctx.nontrivial = true;
    for (int b = 0; b < 7; ++b) if ((f >> b) & 1) ctx.cls(std::string(what) + names[b]);
  };
  switch (n.kind) {
  case JSTR: bytes(n.s, "str"); if (n.s.empty()) ctx.cls("str-empty"); break;
  case JINT: {
    static const char *tn[] = {"int8", "uint8", "int16", "uint16", "int32", "uint32", "int64", "uint64"};
    ctx.cls(tn[n.ntype]);
    if (n.ntype == U32 && (uint32_t) n.i > 0x7fffffffu) ctx.cls("uint32>INT32_MAX");
    if (n.ntype == U64 && (uint64_t) n.i > 0x7fffffffffffffffull) ctx.cls("uint64>INT64_MAX");
    break;
  }
  case JFLT: { ctx.cls("float"); float f = fltOf(n.i); if (f != 0 && std::fabs(f) < 1.17549435e-38f) ctx.cls("float-subnormal"); break; }
  case JDBL: { ctx.cls("double"); double d = dblOf(n.i); if (d != 0 && std::fabs(d) < 2.2250738585072014e-308) ctx.cls("double-subnormal"); break; }
  case JBOOL: ctx.cls("bool"); break;
  case JNULL: ctx.cls("null"); break;
  case JARR: ctx.cls(n.arr.empty() ? "array-empty" : "array"); for (auto &k : n.arr) classify(k, ctx, depth + 1, maxDepth); break;
  case JOBJ:
    ctx.cls(n.obj.empty() ? "object-empty" : "object");
    for (auto &kv : n.obj) { bytes(kv.first, "key"); classify(kv.second, ctx, depth + 1, maxDepth); }
    break;
  }
}

static int indentIdx = 2;
static void header(const Case &c, size_t &i, int &indent, int &route) {
  indent = 2; route = 0; indentIdx = 2;
  if (!c.empty() && c[0].k == HDR) {
    const Op &o = c[0];
    ll a0 = o.a.size() > 0 ? o.a[0] : 2, a1 = o.a.size() > 1 ? o.a[1] : 0;
    indentIdx = (int) (((a0 % 5) + 5) % 5);
    indent = INDENTS[indentIdx];
    route = (int) (a1 & 3);
    i = 1;
  }
}

static bool runCase(const Case &c, Ctx &ctx) {
  size_t i = 0;
  int indent, route;
  header(c, i, indent, route);
  Node model = decode(c, i, 0);

  if (hasNul(model)) {
    ctx.cls("embedded-nul");
    // known-finding class: dump() emits the NUL raw and load() reads a C string
    if (known()("embedded-nul")) model = stripNul(model);
  }
  int maxDepth = 0;
  classify(model, ctx, 0, maxDepth);
  ctx.cls("depth-" + std::to_string(maxDepth));
  ctx.cls("indent" + std::to_string(indent));

  std::string why;
  const occa::json v = build(model, route, false);
  if (!same(v, model, ROOT, why)) return ctx.fail("value built through occa::json differs from the model before any dump: " + why);

  const std::string text = v.dump(indent);
  if (v.dump(indent) != text) return ctx.fail("dump() of the same value differs between two calls");

  occa::json p;
  try {
    p = occa::json::parse(text);
  } catch (occa::exception &e) {
    return ctx.fail("parse(dump(v," + std::to_string(indent) + ")) throws for v=" + showNode(model) + "  text=" + show(text));
  }
  if (!same(p, model, ROOT, why))
    return ctx.fail("parse(dump(v," + std::to_string(indent) + ")) differs from v=" + showNode(model) + " " + why + "  text=" + show(text));
  if (!(p == v) || !(v == p))
    return ctx.fail("parse(dump(v)) == v is false (json::operator==) for v=" + showNode(model) + "  text=" + show(text));

  // the C-string entry point and load()
  {
    const char *cs = text.c_str();
    occa::json p2;
    try { p2 = occa::json::parse(cs); } catch (occa::exception &e) { return ctx.fail("parse(const char*&) throws where parse(std::string) does not"); }
    if (!(p2 == v) || !same(p2, model, ROOT, why)) return ctx.fail("parse(const char*&) result differs: " + why);
    occa::json p3((int32_t) 7);          // load() into a value that already holds something
    p3.load(text);
    if (!(p3 == v) || !same(p3, model, ROOT, why)) return ctx.fail("load() into a non-empty json differs: " + why);
  }

  // dumping is a function of the value
  const occa::json v2 = build(model, route ^ 3, true);
  if (!(v2 == v)) return ctx.fail("the same tree built through another route / insertion order is not == : " + showNode(model));
  if (v2.dump(indent) != text) return ctx.fail("equal values dump to different text: " + showNode(model));
  if (v2.hash() != v.hash()) return ctx.fail("equal values have different hash(): " + showNode(model));
  if (p.dump(indent) != text)
    return ctx.fail("v == parse(dump(v)) but they dump to different text: " + show(text) + " vs " + show(p.dump(indent)));
  if (p.hash() != v.hash()) return ctx.fail("v == parse(dump(v)) but hash() differs for v=" + showNode(model));

  // one more indentation parses back to the same value as well
  {
    const int other = INDENTS[(indentIdx + 1 + (route & 1) * 2) % 5];
    occa::json q;
    const std::string t2 = v.dump(other);
    try { q = occa::json::parse(t2); } catch (occa::exception &e) { return ctx.fail("parse(dump(v," + std::to_string(other) + ")) throws; text=" + show(t2)); }
    if (!(q == v) || !same(q, model, ROOT, why))
      return ctx.fail("parse(dump(v," + std::to_string(other) + ")) differs: " + why + "  text=" + show(t2));
  }
  return true;
}

// ---- generator ---------------------------------------------------------------------------------
static std::string genBytes(bool forKey) {
  std::string s;
  const int n = (int) *rng(forKey ? 1 : 0, 6);
  const int flavour = (int) *rng(0, 5);      // 0: plain identifier-like, else mixed
  for (int k = 0; k < n; ++k) {
    if (flavour == 0) { s += (char) ('a' + *rng(0, 25)); continue; }
    const int w = (int) *rng(0, 23);
    if (w <= 3) s += '"';
    else if (w <= 6) s += '\\';
    else if (w == 7) s += '/';
    else if (w == 8) s += '\'';
    else if (w == 9) s += "\n\t\b\f\r"[*rng(0, 4)];
    else if (w == 10) { ll b = *rng(1, 32); s += (char) (b == 32 ? 127 : b); }
    else if (w == 11) { if (*rng(0, 1)) s += "\xc3\xa9"; else s += "\xe2\x82\xac"; }
    else if (w == 12) {
      // text that looks like an escape sequence (it is ordinary text: a backslash and some characters), every escape letter
      // in both cases, with complete and incomplete hex runs
      static const char *t[] = {"\\u00e9", "\\uD83D", "\\U0001F600", "\\UBEEF", "\\u12", "\\U12g4", "\\x41", "\\X41",
                                "\\N", "\\T", "\\B", "\\F", "\\R", "\\n", "\\t", "\\0", "\\/", "\\'"};
      s += t[*rng(0, 17)];
    }
    else if (w == 13) { if (*rng(0, 7) == 0) s += '\0'; else s += (char) *rng(128, 255); }
    else if (w == 14) s += ":,{}[] #"[*rng(0, 7)];
    else if (w == 15) { static const char *t[] = {"//", "true", "null", "0x1F", "1e5", "-", "u0041", "n"}; s += t[*rng(0, 7)]; }
    else if (w <= 19) s += (char) ('a' + *rng(0, 25));
    else if (w <= 21) s += (char) ('0' + *rng(0, 9));
    else s += (char) *rng(32, 126);
  }
  return s;
}

static ll genIntValue(int t) {
  static const ll lo[8] = {INT8_MIN, 0, INT16_MIN, 0, INT32_MIN, 0, LLONG_MIN, 0};
  static const ll hi[8] = {INT8_MAX, UINT8_MAX, INT16_MAX, UINT16_MAX, INT32_MAX, UINT32_MAX, LLONG_MAX, -1 /* all ones */};
  const int w = (int) *rng(0, 9);
  switch (w) {
  case 0: return lo[t];
  case 1: return hi[t];
  case 2: return 0;
  case 3: return (t & 1) ? 1 : -1;
  case 4: return hi[t] - 1;
  case 5: return lo[t] + 1;
  case 6: return *rng(-1000, 1000);
  default: return *rng(LLONG_MIN, LLONG_MAX - 1);   // truncated to the type by the decoder
  }
}

static void genTree(Case &c, int depth) {
  Op o;
  int w = (int) *rng(0, 99);
  if (depth >= 4 && w >= 62) w = (int) *rng(0, 61);
  if (w < 22) { o.k = JSTR; o.s = genBytes(false); c.push_back(o); }
  else if (w < 36) { o.k = JINT; int t = (int) *rng(0, 7); o.a = {t, genIntValue(t)}; c.push_back(o); }
  else if (w < 44) {
    static const ll sp[] = {0x00000000, 0x80000000ll, 0x00000001, 0x7F7FFFFF, 0x00800000, 0x3DCCCCCD, 0x3EAAAAAB, 0x3F800000,
                            0x4B800000, 0xFF7FFFFFll, 0x007FFFFF, 0x3F800001, 0x501502F9, 0x0DA24260};
    o.k = JFLT; o.a = {*rng(0, 2) == 0 ? sp[*rng(0, 13)] : *rng(0, 0xFFFFFFFFll)}; c.push_back(o);
  }
  else if (w < 52) {
    static const ll sp[] = {0x0000000000000000ll, (ll) 0x8000000000000000ull, 0x0000000000000001ll, 0x7FEFFFFFFFFFFFFFll,
                            0x0010000000000000ll, 0x3FB999999999999All, 0x3FD5555555555555ll, 0x3FF0000000000000ll,
                            0x4340000000000000ll, (ll) 0xFFEFFFFFFFFFFFFFull, 0x000FFFFFFFFFFFFFll, 0x3FF0000000000001ll,
                            0x4202A05F20000000ll, 0x7E37E43C8800759Cll};
    o.k = JDBL; o.a = {*rng(0, 2) == 0 ? sp[*rng(0, 13)] : *rng(LLONG_MIN, LLONG_MAX - 1)}; c.push_back(o);
  }
  else if (w < 57) { o.k = JBOOL; o.a = {*rng(0, 1)}; c.push_back(o); }
  else if (w < 62) { o.k = JNULL; c.push_back(o); }
  else if (w < 78) {
    const int n = (int) *rng(0, 5);
    o.k = JARR; o.a = {n}; c.push_back(o);
    for (int k = 0; k < n; ++k) genTree(c, depth + 1);
  } else {
    const int n = (int) *rng(0, 5);
    o.k = JOBJ; o.a = {n}; c.push_back(o);
    for (int k = 0; k < n; ++k) {
      Op key; key.k = JKEY; key.s = genBytes(true); c.push_back(key);
      genTree(c, depth + 1);
    }
  }
}

int main(int argc, char **argv) {
  rc::Gen<Case> gen = rc::gen::exec([]() {
    Case c;
    Op h; h.k = HDR; h.a = {*rng(0, 4), *rng(0, 3)};
    c.push_back(h);
    // bias the root toward containers: a bare scalar root is a small part of the space
    if (*rng(0, 9) < 8) {
      Op o; const int n = (int) *rng(1, 5);
      if (*rng(0, 2) == 0) {
        o.k = JARR; o.a = {n}; c.push_back(o);
        for (int k = 0; k < n; ++k) genTree(c, 1);
      } else {
        o.k = JOBJ; o.a = {n}; c.push_back(o);
        for (int k = 0; k < n; ++k) { Op key; key.k = JKEY; key.s = genBytes(true); c.push_back(key); genTree(c, 1); }
      }
    } else {
      genTree(c, 0);
    }
    return c;
  });
  return harnessMain(argc, argv, "C24 json round trip", gen, runCase, [](const Case &c) {
    size_t i = 0; int indent, route;
    header(c, i, indent, route);
    Node m = decode(c, i, 0);
    return "indent=" + std::to_string(indent) + " route=" + std::to_string(route) + " " + showNode(m);
  });
}
