// Shared scaffolding for the rapidcheck harnesses.
//
// A *case* is a plain-data operation list (vector<Op>): every random choice is made by rapidcheck
// generators while the case is built, and `runCase` is a pure function of the case and the code
// under test.  That gives (1) library shrinking, (2) a trivial text serialisation that is the replay
// file, (3) a replay mode that bypasses rapidcheck, (4) generic line-based delta debugging in the
// Python runner for sanitizer aborts (which bypass shrinking).
#pragma once
#include <rapidcheck.h>

#include <cstdint>
#include <cstdio>
#include <cstdlib>
#include <cstring>
#include <fstream>
#include <functional>
#include <iostream>
#include <map>
#include <set>
#include <sstream>
#include <string>
#include <vector>

namespace vf {
  typedef long long ll;

  struct Op {
    int k = 0;
    std::vector<ll> a;
    std::string s;
    bool operator==(const Op &o) const { return k == o.k && a == o.a && s == o.s; }
  };
  typedef std::vector<Op> Case;

  inline std::string hexEncode(const std::string &s) {
    static const char *d = "0123456789abcdef";
    std::string r;
    for (unsigned char c : s) { r += d[c >> 4]; r += d[c & 15]; }
    return r;
  }
  inline std::string hexDecode(const std::string &h) {
    std::string r;
    auto v = [](char c) -> int { return (c >= 'a') ? c - 'a' + 10 : c - '0'; };
    for (size_t i = 0; i + 1 < h.size(); i += 2) r += (char) (v(h[i]) * 16 + v(h[i + 1]));
    return r;
  }

  // line format:  <kind> <nargs> <a1> ... <an> x<hex of s>
  inline std::string serialize(const Case &c) {
    std::ostringstream ss;
    for (const Op &o : c) {
      ss << o.k << ' ' << o.a.size();
      for (ll v : o.a) ss << ' ' << v;
      ss << " x" << hexEncode(o.s) << '\n';
    }
    return ss.str();
  }
  inline Case deserialize(std::istream &in) {
    Case c;
    std::string line;
    while (std::getline(in, line)) {
      if (line.empty() || line[0] == '#') continue;
      std::istringstream ls(line);
      Op o; size_t n = 0;
      ls >> o.k >> n;
      for (size_t i = 0; i < n; ++i) { ll v = 0; ls >> v; o.a.push_back(v); }
      std::string hx; ls >> hx;
      if (!hx.empty() && hx[0] == 'x') o.s = hexDecode(hx.substr(1));
      c.push_back(o);
    }
    return c;
  }

  inline std::ostream& operator<<(std::ostream &os, const Op &o) {
    os << "op" << o.k << "(";
    for (size_t i = 0; i < o.a.size(); ++i) os << (i ? "," : "") << o.a[i];
    if (!o.s.empty()) os << (o.a.empty() ? "" : ",") << "x" << hexEncode(o.s);
    return os << ")";
  }

  inline uint64_t fnv(const std::string &s) {
    uint64_t h = 1469598103934665603ULL;
    for (unsigned char c : s) { h ^= c; h *= 1099511628211ULL; }
    return h;
  }

  inline const char* envOr(const char *n, const char *d) {
    const char *v = getenv(n);
    return (v && *v) ? v : d;
  }

  // ---- known findings: ids whose input class the generator/oracle must exclude -----------------
  struct Known {
    std::set<std::string> ids;
    std::map<std::string, long> excluded;
    Known() {
      std::string v = envOr("VERIF_KNOWN", "");
      std::stringstream ss(v);
      std::string t;
      while (std::getline(ss, t, ',')) if (!t.empty()) ids.insert(t);
    }
    // true  => class is a *known finding*: caller must skip/neutralise it (exclusion is counted)
    bool operator()(const std::string &id) {
      if (ids.count(id)) { ++excluded[id]; return true; }
      return false;
    }
    bool has(const std::string &id) const { return ids.count(id) != 0; }
  };
  inline Known& known() { static Known k; return k; }

  // ---- statistics ------------------------------------------------------------------------------
  struct Stats {
    long evaluations = 0;
    std::set<uint64_t> nontrivial;
    std::set<uint64_t> seen;
    std::map<std::string, long> classes;
    std::vector<std::string> samples, ntSamples;
    bool failed = false;
    std::string failReason;

    static std::string jsonEsc(const std::string &s) {
      std::string r;
      for (unsigned char c : s) {
        if (c == '"' || c == '\\') { r += '\\'; r += (char) c; }
        else if (c == '\n') r += "\\n";
        else if (c < 0x20 || c >= 0x7f) { char b[8]; snprintf(b, 8, "\\u%04x", c); r += b; }
        else r += (char) c;
      }
      return r;
    }
    void write() const {
      const char *p = getenv("VERIF_STATS");
      if (!p) return;
      std::ofstream f(p);
      f << "{\"evaluations\":" << evaluations << ",\"distinct\":" << seen.size()
        << ",\"nontrivial\":[";
      bool first = true;
      for (uint64_t h : nontrivial) { f << (first ? "" : ",") << "\"" << std::hex << h << std::dec << "\""; first = false; }
      f << "],\"classes\":{";
      first = true;
      for (auto &kv : classes) { f << (first ? "" : ",") << "\"" << jsonEsc(kv.first) << "\":" << kv.second; first = false; }
      f << "},\"excluded\":{";
      first = true;
      for (auto &kv : known().excluded) { f << (first ? "" : ",") << "\"" << jsonEsc(kv.first) << "\":" << kv.second; first = false; }
      f << "},\"samples\":[";
      first = true;
      for (auto &s : ntSamples) { f << (first ? "" : ",") << "\"" << jsonEsc(s) << "\""; first = false; }
      for (auto &s : samples) { f << (first ? "" : ",") << "\"" << jsonEsc(s) << "\""; first = false; }
      f << "],\"failed\":" << (failed ? "true" : "false") << ",\"fail_reason\":\"" << jsonEsc(failReason) << "\"}\n";
    }
  };
  inline Stats& stats() { static Stats s; return s; }

  inline void writeFile(const char *envName, const std::string &content) {
    const char *p = getenv(envName);
    if (!p) return;
    std::ofstream f(p, std::ios::trunc);
    f << content;
    f.flush();
  }

  // Per-case context handed to runCase: classification + failure text
  struct Ctx {
    bool nontrivial = false;
    std::set<std::string> classes;
    std::string why;
    void cls(const std::string &c) { classes.insert(c); }
    bool fail(const std::string &w) { if (why.empty()) why = w; return false; }
  };

  typedef std::function<bool(const Case&, Ctx&)> RunFn;
  typedef std::function<std::string(const Case&)> DescribeFn;

  // executes one case with bookkeeping; returns ok
  inline bool execCase(const Case &c, const RunFn &run, const DescribeFn &describe, std::string &why) {
    const std::string ser = serialize(c);
    writeFile("VERIF_CUR", ser);   // so that a sanitizer abort leaves the crashing case behind
    Ctx ctx;
    bool ok;
    try {
      ok = run(c, ctx);
    } catch (std::exception &e) {
      ok = false;
      ctx.why = std::string("unexpected exception escaped the case: ") + e.what();
    }
    Stats &st = stats();
    ++st.evaluations;
    const uint64_t h = fnv(ser);
    st.seen.insert(h);
    for (auto &k : ctx.classes) ++st.classes[k];
    if (ctx.nontrivial) {
      if (st.nontrivial.insert(h).second && st.ntSamples.size() < 4) st.ntSamples.push_back(describe(c));
    } else if (st.samples.size() < 3 && (st.evaluations % 97) == 3) {
      st.samples.push_back(describe(c));
    }
    if (!ok) {
      why = ctx.why.empty() ? "property failed" : ctx.why;
      st.failed = true;
      st.failReason = why;
      writeFile("VERIF_FAIL", ser);  // rewritten on every failing execution: last one = shrunk case
      st.write();
    }
    return ok;
  }

  inline std::string defaultDescribe(const Case &c) {
    std::ostringstream ss;
    for (size_t i = 0; i < c.size(); ++i) ss << (i ? " " : "") << c[i];
    return ss.str();
  }

  // main driver: `--replay file` runs one saved case without rapidcheck, otherwise rc::check
  inline int harnessMain(int argc, char **argv, const char *name,
                         const rc::Gen<Case> &gen, const RunFn &run,
                         DescribeFn describe = defaultDescribe) {
    for (int i = 1; i < argc; ++i) {
      if (!strcmp(argv[i], "--replay") && i + 1 < argc) {
        std::ifstream f(argv[i + 1]);
        if (!f) { fprintf(stderr, "cannot open %s\n", argv[i + 1]); return 2; }
        Case c = deserialize(f);
        std::string why;
        bool ok = execCase(c, run, describe, why);
        if (ok) { printf("REPLAY-PASS %s\n", describe(c).c_str()); return 0; }
        printf("REPLAY-FAIL %s :: %s\n", describe(c).c_str(), why.c_str());
        return 1;
      }
    }
    bool ok = rc::check(name, [&]() {
      Case c = *gen;
      std::string why;
      if (!execCase(c, run, describe, why)) RC_FAIL(why);
    });
    stats().write();
    return ok ? 0 : 1;
  }

  // ---- generator helpers -----------------------------------------------------------------------
  // inRange that does not collapse at small sizes
  inline rc::Gen<ll> rng(ll lo, ll hiIncl) {
    return rc::gen::resize(100, rc::gen::inRange<ll>(lo, hiIncl + 1));
  }
  inline rc::Gen<Op> mkOp(int k, std::vector<rc::Gen<ll>> gs) {
    return rc::gen::exec([k, gs]() {
      Op o; o.k = k;
      for (auto &g : gs) o.a.push_back(*g);
      return o;
    });
  }
  inline rc::Gen<Op> mkOpS(int k, std::vector<rc::Gen<ll>> gs, rc::Gen<std::string> sg) {
    return rc::gen::exec([k, gs, sg]() {
      Op o; o.k = k;
      for (auto &g : gs) o.a.push_back(*g);
      o.s = *sg;
      return o;
    });
  }
  inline rc::Gen<Op> weighted(std::vector<std::pair<std::size_t, rc::Gen<Op>>> ws) {
    ll total = 0;
    for (auto &w : ws) total += (ll) w.first;
    return rc::gen::exec([ws, total]() {
      ll r = *rng(0, total - 1);
      for (auto &w : ws) {
        if (r < (ll) w.first) return *w.second;
        r -= (ll) w.first;
      }
      return *ws.back().second;
    });
  }
  inline rc::Gen<Case> caseOf(std::vector<std::pair<std::size_t, rc::Gen<Op>>> ws) {
    return rc::gen::container<Case>(weighted(ws));
  }
}

namespace rc {
  template<> struct Arbitrary<vf::Op> {
    static Gen<vf::Op> arbitrary() { return gen::just(vf::Op()); }
  };
}
