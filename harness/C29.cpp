// C29 — C API values keep their value and type through conversions; handles stay valid until occaFree.
//
// A case is a history over NSLOT handle slots.  Value ops push one C scalar / string / pointer /
// null through every conversion the C layer has (occaX constructor -> occaType fields ->
// occa::c::primitive -> occa::c::newOccaType -> occa::c::inferJson -> occa::c::kernelArg, compared
// with the C++ kernelArg of the same value).  JSON ops run the occaJson object/array API against a
// model of typed JSON values; after every step every live handle is read back recursively through
// the C accessors only and compared with the model (type flags, occaJsonGetNumber with the original
// C type: type tag, bytes, value bits; strings; array sizes; key presence; defaults on a miss).
// occaJsonDump -> occaJsonParse copies a value through text.  Every handle is occaFree'd exactly
// once; ASan/LSan watch the rest.  Only in-range indices and correctly typed handles are used for
// the main class; one small "raises" class checks that a wrongly typed call raises occa::exception
// and leaves the value unchanged.
#include "common.hpp"
#include "leakwatch.hpp"

#include <occa.hpp>
#include <occa.h>
#include <occa/internal/c/types.hpp>

#include <cfloat>
#include <climits>
#include <cmath>
#include <memory>

using namespace vf;

enum { V_SCALAR = 0, V_STRING, V_PTR, V_NULL,
       J_NEW = 10, J_SET, J_SETSTR, J_SETNULL, J_SETJSON, J_GET, J_HAS,
       A_PUSH = 20, A_PUSHSTR, A_PUSHNULL, A_PUSHJSON, A_INSERT, A_GET, A_POP, A_CLEAR,
       J_DUMPPARSE = 30, J_FREE, J_BADSET, J_CAST,
       M_MEM = 40 };

static const int NSLOT = 6;

// ---- typed scalars -----------------------------------------------------------------------------
enum Tag { T_BOOL = 0, T_I8, T_U8, T_I16, T_U16, T_I32, T_U32, T_I64, T_U64, T_F32, T_F64, NTAG };
static const char *TAGN[] = {"bool", "int8", "uint8", "int16", "uint16", "int32", "uint32", "int64", "uint64", "float", "double"};
static const int TAGBYTES[] = {1, 1, 1, 2, 2, 4, 4, 8, 8, 4, 8};

static int occaTypeOf(int tag) {
  switch (tag) {
  case T_BOOL: return OCCA_BOOL; case T_I8: return OCCA_INT8; case T_U8: return OCCA_UINT8;
  case T_I16: return OCCA_INT16; case T_U16: return OCCA_UINT16; case T_I32: return OCCA_INT32;
  case T_U32: return OCCA_UINT32; case T_I64: return OCCA_INT64; case T_U64: return OCCA_UINT64;
  case T_F32: return OCCA_FLOAT; default: return OCCA_DOUBLE;
  }
}
static int primTypeOf(int tag) {
  switch (tag) {
  case T_BOOL: return occa::primitiveType::bool_; case T_I8: return occa::primitiveType::int8_;
  case T_U8: return occa::primitiveType::uint8_; case T_I16: return occa::primitiveType::int16_;
  case T_U16: return occa::primitiveType::uint16_; case T_I32: return occa::primitiveType::int32_;
  case T_U32: return occa::primitiveType::uint32_; case T_I64: return occa::primitiveType::int64_;
  case T_U64: return occa::primitiveType::uint64_; case T_F32: return occa::primitiveType::float_;
  default: return occa::primitiveType::double_;
  }
}
static uint64_t canon(int tag, uint64_t bits) {
  if (tag == T_BOOL) return bits & 1;
  const int b = TAGBYTES[tag];
  return b == 8 ? bits : (bits & ((1ULL << (8 * b)) - 1));
}
template <class T> static T fromBits(uint64_t bits) { T v; memcpy(&v, &bits, sizeof(T)); return v; }
template <class T> static uint64_t toBits(T v) { uint64_t b = 0; memcpy(&b, &v, sizeof(T)); return b; }

static uint64_t unionBits(const occaType &t, int tag) {
  switch (tag) {
  case T_BOOL: case T_I8: return toBits(t.value.int8_);
  case T_U8: return toBits(t.value.uint8_);
  case T_I16: return toBits(t.value.int16_);
  case T_U16: return toBits(t.value.uint16_);
  case T_I32: return toBits(t.value.int32_);
  case T_U32: return toBits(t.value.uint32_);
  case T_I64: return toBits(t.value.int64_);
  case T_U64: return toBits(t.value.uint64_);
  case T_F32: return toBits(t.value.float_);
  default: return toBits(t.value.double_);
  }
}
static uint64_t primBits(const occa::primitive &p, int tag) {
  switch (tag) {
  case T_BOOL: return p.value.bool_ ? 1 : 0;
  case T_I8: return toBits(p.value.int8_);
  case T_U8: return toBits(p.value.uint8_);
  case T_I16: return toBits(p.value.int16_);
  case T_U16: return toBits(p.value.uint16_);
  case T_I32: return toBits(p.value.int32_);
  case T_U32: return toBits(p.value.uint32_);
  case T_I64: return toBits(p.value.int64_);
  case T_U64: return toBits(p.value.uint64_);
  case T_F32: return toBits(p.value.float_);
  default: return toBits(p.value.double_);
  }
}

// ctor: 0 = sized constructor (occaInt8 ...), 1 = "ambiguous" C constructor of the same width
static occaType construct(int tag, uint64_t bits, int ctor) {
  switch (tag) {
  case T_BOOL: return occaBool(bits & 1);
  case T_I8: return ctor ? occaChar((char) fromBits<int8_t>(bits)) : occaInt8(fromBits<int8_t>(bits));
  case T_U8: return ctor ? occaUChar(fromBits<uint8_t>(bits)) : occaUInt8(fromBits<uint8_t>(bits));
  case T_I16: return ctor ? occaShort(fromBits<int16_t>(bits)) : occaInt16(fromBits<int16_t>(bits));
  case T_U16: return ctor ? occaUShort(fromBits<uint16_t>(bits)) : occaUInt16(fromBits<uint16_t>(bits));
  case T_I32: return ctor ? occaInt(fromBits<int32_t>(bits)) : occaInt32(fromBits<int32_t>(bits));
  case T_U32: return ctor ? occaUInt(fromBits<uint32_t>(bits)) : occaUInt32(fromBits<uint32_t>(bits));
  case T_I64: return ctor ? occaLong((long) fromBits<int64_t>(bits)) : occaInt64(fromBits<int64_t>(bits));
  case T_U64: return ctor ? occaULong((unsigned long) fromBits<uint64_t>(bits)) : occaUInt64(fromBits<uint64_t>(bits));
  case T_F32: return occaFloat(fromBits<float>(bits));
  default: return occaDouble(fromBits<double>(bits));
  }
}
static occa::kernelArg cppKernelArg(int tag, uint64_t bits) {
  switch (tag) {
  case T_I8: return occa::kernelArg(fromBits<int8_t>(bits));
  case T_U8: return occa::kernelArg(fromBits<uint8_t>(bits));
  case T_I16: return occa::kernelArg(fromBits<int16_t>(bits));
  case T_U16: return occa::kernelArg(fromBits<uint16_t>(bits));
  case T_I32: return occa::kernelArg(fromBits<int32_t>(bits));
  case T_U32: return occa::kernelArg(fromBits<uint32_t>(bits));
  case T_I64: return occa::kernelArg(fromBits<int64_t>(bits));
  case T_U64: return occa::kernelArg(fromBits<uint64_t>(bits));
  case T_F32: return occa::kernelArg(fromBits<float>(bits));
  default: return occa::kernelArg(fromBits<double>(bits));
  }
}
static const occa::dtype_t& cppDtype(int tag) {
  switch (tag) {
  case T_BOOL: return occa::dtype::bool_; case T_I8: return occa::dtype::int8; case T_U8: return occa::dtype::uint8;
  case T_I16: return occa::dtype::int16; case T_U16: return occa::dtype::uint16; case T_I32: return occa::dtype::int32;
  case T_U32: return occa::dtype::uint32; case T_I64: return occa::dtype::int64; case T_U64: return occa::dtype::uint64;
  case T_F32: return occa::dtype::float_; default: return occa::dtype::double_;
  }
}
static bool isFinite(int tag, uint64_t bits) {
  if (tag == T_F32) return std::isfinite(fromBits<float>(bits));
  if (tag == T_F64) return std::isfinite(fromBits<double>(bits));
  return true;
}
static std::string showVal(int tag, uint64_t bits) {
  std::ostringstream ss;
  ss << TAGN[tag] << ":0x" << std::hex << canon(tag, bits);
  return ss.str();
}

static bool checkScalar(Ctx &ctx, const occaType &t, int tag, uint64_t bits, const char *where) {
  std::ostringstream ss;
  ss << where << " of " << showVal(tag, bits) << ": ";
  if (occaIsUndefined(t)) return ctx.fail(ss.str() + "result is occaUndefined");
  if (t.type != occaTypeOf(tag)) { ss << "type tag " << t.type << ", expected " << occaTypeOf(tag); return ctx.fail(ss.str()); }
  if ((int) t.bytes != TAGBYTES[tag]) { ss << "bytes " << t.bytes << ", expected " << TAGBYTES[tag]; return ctx.fail(ss.str()); }
  if (canon(tag, unionBits(t, tag)) != canon(tag, bits)) { ss << "value bits 0x" << std::hex << canon(tag, unionBits(t, tag)); return ctx.fail(ss.str()); }
  if (t.needsFree) return ctx.fail(ss.str() + "needsFree set on a scalar");
  return true;
}

// is the mathematical value of (tag,bits) exactly representable in type `to`?
static bool fitsExactly(int tag, uint64_t bits, int to) {
  if (tag == T_BOOL || to == T_BOOL) return false;
  if (tag == T_F32 || tag == T_F64) {
    if (to == T_F64) return true;                       // float -> double is exact (NaN payloads aside)
    if (to == T_F32 && tag == T_F32) return true;
    return false;
  }
  // integer source
  const bool sgn = (tag == T_I8 || tag == T_I16 || tag == T_I32 || tag == T_I64);
  int64_t sv = 0; uint64_t uv = 0;
  switch (tag) {
  case T_I8: sv = fromBits<int8_t>(bits); break; case T_I16: sv = fromBits<int16_t>(bits); break;
  case T_I32: sv = fromBits<int32_t>(bits); break; case T_I64: sv = fromBits<int64_t>(bits); break;
  default: uv = canon(tag, bits);
  }
  if (sgn && sv >= 0) uv = (uint64_t) sv;
  const bool neg = sgn && sv < 0;
  switch (to) {
  case T_I8: return neg ? sv >= INT8_MIN : uv <= (uint64_t) INT8_MAX;
  case T_U8: return !neg && uv <= UINT8_MAX;
  case T_I16: return neg ? sv >= INT16_MIN : uv <= (uint64_t) INT16_MAX;
  case T_U16: return !neg && uv <= UINT16_MAX;
  case T_I32: return neg ? sv >= INT32_MIN : uv <= (uint64_t) INT32_MAX;
  case T_U32: return !neg && uv <= UINT32_MAX;
  case T_I64: return neg ? true : uv <= (uint64_t) INT64_MAX;
  case T_U64: return !neg;
  case T_F32: return neg ? sv >= -(1 << 24) : uv <= (1u << 24);
  case T_F64: return neg ? sv >= -(1LL << 53) : uv <= (1ULL << 53);
  }
  return false;
}
// bits of the same mathematical value in type `to` (only when fitsExactly)
static uint64_t convertBits(int tag, uint64_t bits, int to) {
  long double v = 0;
  switch (tag) {
  case T_I8: v = fromBits<int8_t>(bits); break; case T_U8: v = fromBits<uint8_t>(bits); break;
  case T_I16: v = fromBits<int16_t>(bits); break; case T_U16: v = fromBits<uint16_t>(bits); break;
  case T_I32: v = fromBits<int32_t>(bits); break; case T_U32: v = fromBits<uint32_t>(bits); break;
  case T_I64: v = fromBits<int64_t>(bits); break; case T_U64: v = fromBits<uint64_t>(bits); break;
  case T_F32: if (to == T_F32) return canon(tag, bits); return toBits((double) fromBits<float>(bits));
  default: return bits;
  }
  switch (to) {
  case T_I8: return toBits((int8_t) v); case T_U8: return toBits((uint8_t) v);
  case T_I16: return toBits((int16_t) v); case T_U16: return toBits((uint16_t) v);
  case T_I32: return toBits((int32_t) v); case T_U32: return toBits((uint32_t) v);
  case T_I64: return toBits((int64_t) v); case T_U64: return toBits((uint64_t) v);
  case T_F32: return toBits((float) v); default: return toBits((double) v);
  }
}

static bool scalarConversions(Ctx &ctx, int tag, uint64_t bits, int ctor) {
  bits = canon(tag, bits);
  occaType t = construct(tag, bits, ctor);
  if (!checkScalar(ctx, t, tag, bits, ctor ? "C-named constructor" : "sized constructor")) return false;
  std::ostringstream ss;
  ss << showVal(tag, bits) << ": ";

  // C type -> occa::primitive -> C type
  occa::primitive p;
  if (tag == T_BOOL) p = occa::primitive((bool) (bits & 1));     // c::primitive() documents bool as an error; inferJson handles it apart
  else p = occa::c::primitive(t);
  if (p.type != primTypeOf(tag)) { ss << "occa::c::primitive type " << p.type << ", expected " << primTypeOf(tag); return ctx.fail(ss.str()); }
  if (primBits(p, tag) != bits) return ctx.fail(ss.str() + "occa::c::primitive changed the value");
  if (!checkScalar(ctx, occa::c::newOccaType(p), tag, bits, "newOccaType(primitive)")) return false;
  if (tag != T_BOOL) {
    if (!checkScalar(ctx, occa::c::newOccaType(p, occaTypeOf(tag)), tag, bits, "newOccaType(primitive, type)")) return false;
    for (int to = T_I8; to < NTAG; ++to) {
      if (!fitsExactly(tag, bits, to)) continue;
      const uint64_t want = convertBits(tag, bits, to);
      occa::primitive q = occa::c::primitive(t, occaTypeOf(to));
      if (q.type != primTypeOf(to) || canon(to, primBits(q, to)) != canon(to, want)) {
        ss << "occa::c::primitive(value, " << TAGN[to] << ") gives type " << q.type << " bits 0x" << std::hex << primBits(q, to) << ", expected 0x" << want;
        return ctx.fail(ss.str());
      }
      if (!checkScalar(ctx, occa::c::newOccaType(p, occaTypeOf(to)), to, want, "newOccaType(primitive, other type)")) return false;
    }
  }
  // -> json
  occa::json j = occa::c::inferJson(t);
  if (!j.isNumber() || j.isBool() != (tag == T_BOOL)) return ctx.fail(ss.str() + "inferJson: wrong JSON type");
  if (j.number().type != primTypeOf(tag) || primBits(j.number(), tag) != bits) {
    ss << "inferJson: number type " << j.number().type << " bits 0x" << std::hex << primBits(j.number(), tag);
    return ctx.fail(ss.str());
  }
  // -> dtype
  if (occa::c::getDtype(t) != cppDtype(tag)) return ctx.fail(ss.str() + "getDtype: wrong dtype " + occa::c::getDtype(t).name());
  // -> kernel argument, against the C++ conversion of the same value
  if (tag != T_BOOL) {
    occa::kernelArg ka = occa::c::kernelArg(t), ref = cppKernelArg(tag, bits);
    if (ka.size() != 1 || ref.size() != 1) return ctx.fail(ss.str() + "kernelArg: argument count != 1");
    const occa::kernelArgData &a = ka.args[0], &b = ref.args[0];
    if (a.value.type != b.value.type || primBits(a.value, tag) != primBits(b.value, tag) || primBits(a.value, tag) != bits
        || a.size() != b.size() || a.isPointer() != b.isPointer() || a.modeMemory || a.ptrSize != b.ptrSize) {
      ss << "kernelArg differs from C++ kernelArg: type " << a.value.type << "/" << b.value.type << " size " << a.size() << "/" << b.size()
         << " bits 0x" << std::hex << primBits(a.value, tag) << "/0x" << primBits(b.value, tag);
      return ctx.fail(ss.str());
    }
    if ((int) a.size() != TAGBYTES[tag]) return ctx.fail(ss.str() + "kernelArg size != sizeof(type)");
  }
  occaFree(&t);
  if (!occaIsUndefined(t)) return ctx.fail(ss.str() + "occaFree left the value defined");
  return true;
}

// ---- JSON model ----------------------------------------------------------------------------------
enum { M_NONE = 0, M_NULL, M_NUM, M_STR, M_ARR, M_OBJ };
struct MJ {
  int t = M_NONE;
  int tag = 0; uint64_t bits = 0;
  std::string s;
  std::vector<MJ> arr;
  std::map<std::string, MJ> obj;
  bool allFinite() const {
    if (t == M_NUM) return isFinite(tag, bits);
    for (auto &e : arr) if (!e.allFinite()) return false;
    for (auto &kv : obj) if (!kv.second.allFinite()) return false;
    return true;
  }
  bool anyNone() const {       // an uninitialised json somewhere below: text cannot represent it
    for (auto &e : arr) if (e.t == M_NONE || e.anyNone()) return true;
    for (auto &kv : obj) if (kv.second.t == M_NONE || kv.second.anyNone()) return true;
    return false;
  }
  int depth() const {
    int d = 0;
    for (auto &e : arr) d = std::max(d, e.depth());
    for (auto &kv : obj) d = std::max(d, kv.second.depth());
    return d + ((t == M_ARR || t == M_OBJ) ? 1 : 0);
  }
};

static const char *KEYS[] = {"a", "b", "k", "long_key_1", "Z9", "a/b", "a/k", "b/a/k", "k/k"};
static const int NKEYS = 9;

static std::vector<std::string> splitPath(const std::string &k) {
  std::vector<std::string> out;
  std::stringstream ss(k);
  std::string t;
  while (std::getline(ss, t, '/')) out.push_back(t);
  return out;
}
// const lookup ("has" semantics)
static const MJ* mfind(const MJ &m, const std::string &key) {
  const MJ *cur = &m;
  for (auto &seg : splitPath(key)) {
    if (cur->t != M_OBJ) return NULL;
    auto it = cur->obj.find(seg);
    if (it == cur->obj.end()) return NULL;
    cur = &it->second;
  }
  return cur;
}
// can `set key` succeed?  (every existing node on the way must be an object; the node itself may be anything)
static bool msettable(const MJ &m, const std::string &key) {
  if (m.t != M_NONE && m.t != M_OBJ) return false;
  const MJ *cur = &m;
  auto segs = splitPath(key);
  for (size_t i = 0; i < segs.size(); ++i) {
    if (cur->t == M_NONE) return true;
    if (cur->t != M_OBJ) return false;
    auto it = cur->obj.find(segs[i]);
    if (it == cur->obj.end()) return true;
    cur = &it->second;
  }
  return true;
}
static MJ& mset(MJ &m, const std::string &key) {
  MJ *cur = &m;
  for (auto &seg : splitPath(key)) {
    if (cur->t == M_NONE) cur->t = M_OBJ;
    cur = &cur->obj[seg];
  }
  return *cur;
}

struct PathEl { bool isKey; std::string key; int idx; };
struct Slot {
  int state = 0;              // 0 empty, 1 owned json root, 2 borrowed json, 3 memory
  occaType h;
  int root = -1;              // slot of the owning root (for borrowed)
  std::vector<PathEl> path;   // from the root's model
  size_t memBytes = 0;
};

struct World {
  Slot s[NSLOT];
  MJ model[NSLOT];            // model of owned roots, indexed by slot
  Ctx &ctx;
  int maxReadDepth = 0;
  World(Ctx &c) : ctx(c) {}

  // a write into an empty slot first creates the json (keeps shrunk histories short)
  void ensure(int i) {
    if (s[i].state != 0) return;
    s[i].h = occaCreateJson();
    s[i].state = 1; model[i] = MJ();
  }
  MJ* node(int i) {
    Slot &sl = s[i];
    if (sl.state == 1) return &model[i];
    if (sl.state != 2) return NULL;
    MJ *cur = &model[sl.root];
    for (auto &pe : sl.path) {
      if (pe.isKey) { const MJ *f = mfind(*cur, pe.key); if (!f) return NULL; cur = const_cast<MJ*>(f); }
      else { if (cur->t != M_ARR || pe.idx >= (int) cur->arr.size()) return NULL; cur = &cur->arr[pe.idx]; }
    }
    return cur;
  }
  int rootOf(int i) { return s[i].state == 1 ? i : s[i].root; }

  void release(int i) {       // occaFree exactly once; borrowed handles go before their owner
    if (s[i].state == 0) return;
    if (s[i].state == 1) freeBorrowedOf(i);
    occaFree(&s[i].h);
    if (!occaIsUndefined(s[i].h)) ctx.fail("occaFree left a handle defined");
    if (s[i].state == 1) {
      // borrowed handles into this root die with it: they were freed (no-op for borrowed) first
      for (int k = 0; k < NSLOT; ++k) if (s[k].state == 2 && s[k].root == i) { /* already invalid: never touched again */ s[k].state = 0; }
      model[i] = MJ();
    }
    s[i].state = 0;
  }
  // a mutation through slot i: every *other* borrowed handle into the same root is released first
  // (it is still valid at that moment), because vector/map changes may move what it points to
  void beforeMutation(int i, int keep = -1) {
    const int r = rootOf(i);
    for (int k = 0; k < NSLOT; ++k)
      if (k != i && k != keep && s[k].state == 2 && s[k].root == r) { occaFree(&s[k].h); s[k].state = 0; }
  }
  // the borrowed source of a copy lives in the root that was just changed: it may dangle now, so it
  // is dropped without being touched again (a borrowed handle owns nothing)
  void dropAfterMutation(int i, int src) {
    if (src >= 0 && src != i && s[src].state == 2 && s[src].root == rootOf(i)) s[src].state = 0;
  }
  void freeBorrowedOf(int r) {
    for (int k = 0; k < NSLOT; ++k) if (s[k].state == 2 && s[k].root == r) { occaFree(&s[k].h); s[k].state = 0; }
  }

  // ---- recursive read-back through the C API only ----
  bool verify(occaType h, const MJ &m, int depth, const std::string &where) {
    std::ostringstream ss;
    ss << "read back " << where << ": ";
    if (occaIsUndefined(h) || h.type != OCCA_JSON) { ss << "handle type " << h.type << " is not OCCA_JSON"; return ctx.fail(ss.str()); }
    const bool isB = occaJsonIsBoolean(h), isN = occaJsonIsNumber(h), isS = occaJsonIsString(h), isA = occaJsonIsArray(h), isO = occaJsonIsObject(h);
    const bool eB = (m.t == M_NUM && m.tag == T_BOOL), eN = (m.t == M_NUM), eS = (m.t == M_STR), eA = (m.t == M_ARR), eO = (m.t == M_OBJ);
    if (isB != eB || isN != eN || isS != eS || isA != eA || isO != eO) {
      ss << "type flags bool/number/string/array/object = " << isB << isN << isS << isA << isO << ", model " << eB << eN << eS << eA << eO;
      return ctx.fail(ss.str());
    }
    if (depth > maxReadDepth) maxReadDepth = depth;
    switch (m.t) {
    case M_NUM: {
      if (m.tag == T_BOOL) {
        if (occaJsonGetBoolean(h) != (bool) (m.bits & 1)) return ctx.fail(ss.str() + "occaJsonGetBoolean differs");
      } else {
        occaType v = occaJsonGetNumber(h, occaTypeOf(m.tag));
        if (!checkScalar(ctx, v, m.tag, m.bits, ("occaJsonGetNumber at " + where).c_str())) return false;
      }
      break;
    }
    case M_STR: {
      const char *p = occaJsonGetString(h);
      if (!p || m.s != p) return ctx.fail(ss.str() + "occaJsonGetString gives x" + hexEncode(p ? p : "") + ", expected x" + hexEncode(m.s));
      break;
    }
    case M_ARR: {
      const int n = occaJsonArraySize(h);
      if (n != (int) m.arr.size()) { ss << "occaJsonArraySize " << n << ", model " << m.arr.size(); return ctx.fail(ss.str()); }
      for (int i = 0; i < n; ++i) {
        occaType e = occaJsonArrayGet(h, i);
        std::ostringstream w; w << where << "[" << i << "]";
        if (!verifyChild(e, m.arr[i], depth + 1, w.str())) return false;
        occaFree(&e);
      }
      break;
    }
    case M_OBJ: {
      for (int k = 0; k < NKEYS; ++k) {
        const MJ *c = mfind(m, KEYS[k]);
        const bool has = occaJsonObjectHas(h, KEYS[k]);
        if (has != (c != NULL)) { ss << "occaJsonObjectHas(" << KEYS[k] << ") = " << has << ", model " << (c != NULL); return ctx.fail(ss.str()); }
        if (!c) {
          // a miss returns the caller's default untouched
          occaType d = occaJsonObjectGet(h, KEYS[k], occaInt16((int16_t) (-321 - k)));
          if (!checkScalar(ctx, d, T_I16, toBits((int16_t) (-321 - k)), "default of occaJsonObjectGet on a miss")) return false;
          if (!occaIsUndefined(occaJsonObjectGet(h, KEYS[k], occaUndefined))) return ctx.fail(ss.str() + "miss with occaUndefined default is defined");
          continue;
        }
        if (strchr(KEYS[k], '/')) continue;      // reached through the parent key below
        occaType e = occaJsonObjectGet(h, KEYS[k], occaUndefined);
        if (!verifyChild(e, *c, depth + 1, where + "." + KEYS[k])) return false;
        occaFree(&e);
      }
      for (auto &kv : m.obj) {
        if (!occaJsonObjectHas(h, kv.first.c_str())) return ctx.fail(ss.str() + "stored key '" + kv.first + "' is missing");
      }
      break;
    }
    default: break;
    }
    return true;
  }
  bool verifyChild(occaType e, const MJ &m, int depth, const std::string &where) {
    if (m.t == M_NULL) {
      if (e.type != OCCA_NULL || e.value.ptr != NULL) return ctx.fail("read back " + where + ": JSON null is not returned as occaNull");
      if (depth > maxReadDepth) maxReadDepth = depth;
      return true;
    }
    if (e.type == OCCA_JSON && e.needsFree) return ctx.fail("read back " + where + ": borrowed child handle has needsFree set");
    return verify(e, m, depth, where);
  }
  bool verifyAll(const char *after) {
    for (int i = 0; i < NSLOT; ++i) {
      if (s[i].state == 3) {
        if (!occaMemoryIsInitialized(s[i].h) || occaMemorySize(s[i].h) != s[i].memBytes) return ctx.fail(std::string("memory handle changed after ") + after);
        continue;
      }
      MJ *m = node(i);
      if (!m) continue;
      if (m->t == M_NONE) {
        if (s[i].h.type != OCCA_JSON) return ctx.fail("fresh json handle has wrong type");
        continue;                                  // any accessor would initialise it
      }
      std::ostringstream w; w << "slot" << i << "(after " << after << ")";
      if (!verify(s[i].h, *m, 0, w.str())) return false;
    }
    return true;
  }
};

static std::string cstr(const std::string &s) {   // C strings: cut at the first NUL
  return s.substr(0, s.find('\0'));
}
static MJ mnum(int tag, uint64_t bits) { MJ m; m.t = M_NUM; m.tag = tag; m.bits = canon(tag, bits); return m; }

static bool runCase(const Case &c, Ctx &ctx) {
  World w(ctx);
  bool ok = true;
  auto A = [](const Op &o, size_t i, ll d = 0) -> ll { return i < o.a.size() ? o.a[i] : d; };
  auto slotOf = [&](const Op &o, size_t i) -> int { return (int) (((A(o, i) % NSLOT) + NSLOT) % NSLOT); };
  auto tagOf = [&](const Op &o, size_t i) -> int { return (int) (((A(o, i) % NTAG) + NTAG) % NTAG); };
  auto keyOf = [&](const Op &o, size_t i) -> const char* { return KEYS[((A(o, i) % NKEYS) + NKEYS) % NKEYS]; };

  for (size_t step = 0; ok && step < c.size(); ++step) {
    const Op &o = c[step];
    const char *opn = "op";
    bool mutated = false;
    switch (o.k) {
    case V_SCALAR: {
      const int tag = tagOf(o, 0);
      const uint64_t bits = (uint64_t) A(o, 1);
      ok = scalarConversions(ctx, tag, bits, (int) (A(o, 2) & 1));
      ctx.cls(std::string("scalar-") + TAGN[tag]);
      if (A(o, 3)) { ctx.nontrivial = true; ctx.cls("extreme-value"); }
      break;
    }
    case V_STRING: {
      const std::string str = cstr(o.s);
      std::unique_ptr<char[]> buf(new char[str.size() + 1]);      // exact size: an over-read is an ASan error
      memcpy(buf.get(), str.c_str(), str.size() + 1);
      occaType t = occaString(buf.get());
      if (t.type != OCCA_STRING || t.bytes != str.size() || t.value.ptr != buf.get() || t.needsFree || occaIsUndefined(t)) { ok = ctx.fail("occaString fields wrong for x" + hexEncode(str)); break; }
      occa::json j = occa::c::inferJson(t);
      if (!j.isString() || j.string() != str) { ok = ctx.fail("inferJson(occaString) changed the string x" + hexEncode(str)); break; }
      occa::kernelArg ka = occa::c::kernelArg(t);
      if (ka.size() != 1 || ka.args[0].ptr() != (void*) buf.get() || ka.args[0].modeMemory) { ok = ctx.fail("kernelArg(occaString) does not carry the pointer"); break; }
      if (str.size() && ka.args[0].size() != str.size()) { ok = ctx.fail("kernelArg(occaString) size != bytes"); break; }
      occaFree(&t);
      ctx.cls("string");
      break;
    }
    case V_PTR: {
      // pointer / struct arguments: same as the C++ pointer conversion
      static char blob[64];
      const bool isNull = A(o, 0) & 1;
      const size_t nbytes = (size_t) (1 + (A(o, 1) & 63));
      void *p = isNull ? NULL : (void*) (blob + (A(o, 2) & 31));
      occaType t = occaPtr(p);
      if (t.type != OCCA_PTR || t.bytes != sizeof(void*) || t.value.ptr != (char*) p || t.needsFree) { ok = ctx.fail("occaPtr fields wrong"); break; }
      occa::kernelArg ka = occa::c::kernelArg(t), ref = occa::kernelArg(p);
      if (ka.size() != 1 || ref.size() != 1 || ka.args[0].ptr() != ref.args[0].ptr() || ka.args[0].size() != ref.args[0].size()
          || ka.args[0].value.type != ref.args[0].value.type) { ok = ctx.fail("kernelArg(occaPtr) differs from C++ kernelArg(void*)"); break; }
      occaType st = occaStruct(p, nbytes);
      if (st.type != OCCA_STRUCT || st.bytes != nbytes || st.value.ptr != (char*) p) { ok = ctx.fail("occaStruct fields wrong"); break; }
      occa::kernelArg ks = occa::c::kernelArg(st), rs;
      rs.addPointer(p, nbytes);
      if (ks.size() != 1 || ks.args[0].ptr() != rs.args[0].ptr() || ks.args[0].size() != rs.args[0].size()) { ok = ctx.fail("kernelArg(occaStruct) differs from C++ addPointer"); break; }
      if (isNull) {
        if (!occa::c::inferJson(t).isNull()) { ok = ctx.fail("inferJson(occaPtr(NULL)) is not null"); break; }
      } else {
        bool raised = false;
        try { occa::c::inferJson(t); } catch (occa::exception &) { raised = true; }
        if (!raised) { ok = ctx.fail("inferJson(non-null pointer) did not raise"); break; }
        ctx.cls("raises");
      }
      occaFree(&t); occaFree(&st);
      ctx.cls("pointer");
      break;
    }
    case V_NULL: {
      occaType t = occaNull;
      if (t.type != OCCA_NULL || t.value.ptr != NULL || occaIsUndefined(t)) { ok = ctx.fail("occaNull fields wrong"); break; }
      if (!occa::c::inferJson(t).isNull()) { ok = ctx.fail("inferJson(occaNull) is not null"); break; }
      occa::kernelArg ka = occa::c::kernelArg(t), ref = occa::kernelArg(occa::null);
      if (ka.size() != 1 || ref.size() != 1 || ka.args[0].ptr() != NULL || ka.args[0].value.type != ref.args[0].value.type) { ok = ctx.fail("kernelArg(occaNull) differs from kernelArg(occa::null)"); break; }
      if (occa::c::getDtype(t) != occa::dtype::void_) { ok = ctx.fail("getDtype(occaNull) is not void"); break; }
      if (occaIsDefault(occaNull) || !occaIsDefault(occaDefault) || !occaIsUndefined(occaUndefined) || occaIsUndefined(occaDefault)) { ok = ctx.fail("occaNull/occaDefault/occaUndefined predicates"); break; }
      if (occaTrue.type != OCCA_BOOL || occaTrue.value.int8_ != 1 || occaFalse.type != OCCA_BOOL || occaFalse.value.int8_ != 0) { ok = ctx.fail("occaTrue/occaFalse"); break; }
      ctx.cls("null");
      break;
    }
    case J_NEW: {
      const int i = slotOf(o, 0);
      w.release(i);
      w.s[i].h = occaCreateJson();
      w.s[i].state = 1; w.model[i] = MJ();
      if (w.s[i].h.type != OCCA_JSON || !w.s[i].h.needsFree) ok = ctx.fail("occaCreateJson: type/needsFree");
      opn = "create";
      break;
    }
    case J_SET: case J_SETSTR: case J_SETNULL: case J_SETJSON: {
      const int i = slotOf(o, 0);
      w.ensure(i);
      MJ *m = w.node(i);
      if (!m) break;
      const char *key = keyOf(o, 1);
      const bool settable = msettable(*m, key);     // otherwise documented to raise ("not an object"): raises class
      MJ val;
      occaType v;
      std::string str;
      if (o.k == J_SET) {
        const int tag = tagOf(o, 2);
        uint64_t bits = canon(tag, (uint64_t) A(o, 3));
        if (!isFinite(tag, bits)) bits = 0;         // JSON has no NaN/Inf
        val = mnum(tag, bits);
        v = construct(tag, bits, (int) (A(o, 4) & 1));
        if (A(o, 5)) ctx.cls("json-extreme-value");
      } else if (o.k == J_SETSTR) {
        str = cstr(o.s);
        val.t = M_STR; val.s = str;
        v = occaString(str.c_str());
      } else if (o.k == J_SETNULL) {
        val.t = M_NULL;
        v = (A(o, 2) & 1) ? occaPtr(NULL) : occaNull;
      } else {
        const int src = slotOf(o, 2);
        MJ *sm = w.node(src);
        if (!sm || sm->depth() > 4) break;
        // an empty target becomes {} before the value is copied (occaJsonObjectSet: asObject(), then j[key] = value): when the
        // source is the target or contains it (j.set(key, j); child.set(key, root)), the copy already holds the {}
        if (m->t == M_NONE) m->t = M_OBJ;
        val = *sm;                                                 // copied before the target changes further (src may be inside it)
        v = w.s[src].h;
        // a still-empty occaCreateJson() is stored as such: the key exists, reads back as an OCCA_JSON child without any type flag
        ctx.cls(sm->t == M_NONE ? "set-uninitialised-json" : "set-nested-json");
      }
      const int srcSlot = (o.k == J_SETJSON) ? slotOf(o, 2) : -1;
      if (!settable) {
        bool raised = false;
        try { occaJsonObjectSet(w.s[i].h, key, v); } catch (occa::exception &) { raised = true; }
        if (!raised) { ok = ctx.fail(std::string("occaJsonObjectSet(") + key + ") on a non-object path did not raise"); break; }
        ctx.cls("raises");
        mutated = true; opn = "objectSet(non-object path)";     // the read-back below checks that nothing changed
        break;
      }
      w.beforeMutation(i, srcSlot);
      occaJsonObjectSet(w.s[i].h, key, v);
      m = w.node(i);
      mset(*m, key) = val;
      w.dropAfterMutation(i, srcSlot);
      mutated = true; opn = "objectSet";
      break;
    }
    case J_GET: {
      const int i = slotOf(o, 0), d = slotOf(o, 2);
      MJ *m = w.node(i);
      if (!m || d == i || (m->t != M_NONE && m->t != M_OBJ)) break;
      if (w.rootOf(i) == d) break;                 // do not overwrite the owner of the parent
      const char *key = keyOf(o, 1);
      std::string present;
      if ((A(o, 3) & 3) != 0 && m->t == M_OBJ && !m->obj.empty()) {   // mostly: a key that exists
        auto it = m->obj.begin();
        std::advance(it, (size_t) (((A(o, 1) % (ll) m->obj.size()) + (ll) m->obj.size()) % (ll) m->obj.size()));
        present = it->first;
        key = present.c_str();
      }
      w.release(d);
      if (m->t == M_NONE) { m->t = M_OBJ; }        // any object accessor initialises an empty json as {}
      const MJ *cm = mfind(*m, key);
      occaType e = occaJsonObjectGet(w.s[i].h, key, occaUndefined);
      if (!cm) { if (!occaIsUndefined(e)) ok = ctx.fail("occaJsonObjectGet miss is not the default"); break; }
      if (cm->t == M_NULL) { if (e.type != OCCA_NULL) ok = ctx.fail("occaJsonObjectGet of null is not occaNull"); break; }
      if (e.type != OCCA_JSON || e.needsFree) { ok = ctx.fail("occaJsonObjectGet: child handle type/needsFree"); break; }
      w.s[d].h = e; w.s[d].state = 2; w.s[d].root = w.rootOf(i);
      w.s[d].path = w.s[i].path;
      if (w.s[i].state == 1) w.s[d].path.clear();
      w.s[d].path.push_back(PathEl{true, std::string(key), 0});
      opn = "objectGet";
      ctx.cls("borrowed-handle");
      break;
    }
    case J_HAS: {
      const int i = slotOf(o, 0);
      MJ *m = w.node(i);
      if (!m || (m->t != M_NONE && m->t != M_OBJ)) break;
      if (m->t == M_NONE) m->t = M_OBJ;
      const char *key = keyOf(o, 1);
      if (occaJsonObjectHas(w.s[i].h, key) != (mfind(*m, key) != NULL)) ok = ctx.fail(std::string("occaJsonObjectHas(") + key + ") differs from the model");
      opn = "objectHas";
      break;
    }
    case A_PUSH: case A_PUSHSTR: case A_PUSHNULL: case A_PUSHJSON: case A_INSERT: {
      const int i = slotOf(o, 0);
      if (o.k != A_INSERT) w.ensure(i);
      MJ *m = w.node(i);
      if (!m || (m->t != M_NONE && m->t != M_ARR)) break;
      MJ val; occaType v; std::string str;
      const int kind = (o.k == A_INSERT) ? (int) (A(o, 5) & 3) : (o.k - A_PUSH);
      if (kind == 0) {
        const int tag = tagOf(o, 1);
        uint64_t bits = canon(tag, (uint64_t) A(o, 2));
        if (!isFinite(tag, bits)) bits = 0;
        val = mnum(tag, bits);
        v = construct(tag, bits, (int) (A(o, 3) & 1));
      } else if (kind == 1) {
        str = cstr(o.s); val.t = M_STR; val.s = str; v = occaString(str.c_str());
      } else if (kind == 2) {
        val.t = M_NULL; v = occaNull;
      } else {
        const int src = slotOf(o, 1);
        MJ *sm = w.node(src);
        if (!sm || sm->t == M_NONE || sm->depth() > 4) break;
        if (m->t == M_NONE && sm->anyNone()) break;                // the empty target may sit inside the source (initialised before the copy)
        val = *sm; v = w.s[src].h;
        ctx.cls("push-nested-json");
      }
      int at = -1;
      if (o.k == A_INSERT) {
        if (m->t != M_ARR || m->arr.empty()) break;                // index must be in [0, size)
        at = (int) (((A(o, 4) % (ll) m->arr.size()) + (ll) m->arr.size()) % (ll) m->arr.size());
      }
      if (m->arr.size() >= 12) break;
      const int srcSlot = (kind == 3) ? slotOf(o, 1) : -1;
      w.beforeMutation(i, srcSlot);
      if (o.k == A_INSERT) occaJsonArrayInsert(w.s[i].h, at, v); else occaJsonArrayPush(w.s[i].h, v);
      m = w.node(i);
      m->t = M_ARR;
      if (o.k == A_INSERT) m->arr.insert(m->arr.begin() + at, val); else m->arr.push_back(val);
      w.dropAfterMutation(i, srcSlot);
      mutated = true; opn = (o.k == A_INSERT) ? "arrayInsert" : "arrayPush";
      break;
    }
    case A_GET: {
      const int i = slotOf(o, 0), d = slotOf(o, 2);
      MJ *m = w.node(i);
      if (!m || d == i || m->t != M_ARR || m->arr.empty() || w.rootOf(i) == d) break;
      const int at = (int) (((A(o, 1) % (ll) m->arr.size()) + (ll) m->arr.size()) % (ll) m->arr.size());
      w.release(d);
      occaType e = occaJsonArrayGet(w.s[i].h, at);
      if (m->arr[at].t == M_NULL) { if (e.type != OCCA_NULL) ok = ctx.fail("occaJsonArrayGet of null is not occaNull"); break; }
      if (e.type != OCCA_JSON || e.needsFree) { ok = ctx.fail("occaJsonArrayGet: child handle type/needsFree"); break; }
      w.s[d].h = e; w.s[d].state = 2; w.s[d].root = w.rootOf(i);
      w.s[d].path = w.s[i].path;
      if (w.s[i].state == 1) w.s[d].path.clear();
      w.s[d].path.push_back(PathEl{false, "", at});
      opn = "arrayGet";
      ctx.cls("borrowed-handle");
      break;
    }
    case A_POP: case A_CLEAR: {
      const int i = slotOf(o, 0);
      MJ *m = w.node(i);
      if (!m || (m->t != M_NONE && m->t != M_ARR)) break;
      if (o.k == A_POP && (m->t != M_ARR || m->arr.empty())) break;
      w.beforeMutation(i);
      if (o.k == A_POP) { occaJsonArrayPop(w.s[i].h); m->arr.pop_back(); opn = "arrayPop"; }
      else { occaJsonArrayClear(w.s[i].h); m->t = M_ARR; m->arr.clear(); opn = "arrayClear"; }
      mutated = true;
      break;
    }
    case J_DUMPPARSE: {
      const int i = slotOf(o, 0), d = slotOf(o, 1);
      MJ *m = w.node(i);
      if (!m || d == i || m->t == M_NONE || m->anyNone() || w.rootOf(i) == d) break;
      const MJ copy = *m;
      w.release(d);
      const int indent = (int) (A(o, 2) % 5);
      const char *txt = occaJsonDump(w.s[i].h, indent < 0 ? 0 : indent);
      if (!txt) { ok = ctx.fail("occaJsonDump returned NULL"); break; }
      occaType p = occaJsonParse(txt);
      ::free((void*) txt);                         // malloc'ed for the caller
      if (p.type != OCCA_JSON || !p.needsFree) { ok = ctx.fail("occaJsonParse: type/needsFree"); break; }
      w.s[d].h = p; w.s[d].state = 1; w.model[d] = copy;
      opn = "dump+parse";
      ctx.cls("dump-parse");
      mutated = true;
      break;
    }
    case J_CAST: {
      // occaJsonParse of the scalar JSON texts: null has no json handle
      const int which = (int) (A(o, 0) & 3);
      const char *txt = which == 0 ? "null" : which == 1 ? " null " : which == 2 ? "true" : "[null]";
      occaType p = occaJsonParse(txt);
      if (which <= 1) {
        if (p.type != OCCA_NULL) { ok = ctx.fail("occaJsonParse(\"null\") is not occaNull"); break; }
      } else if (p.type != OCCA_JSON || !p.needsFree) { ok = ctx.fail("occaJsonParse: type/needsFree"); break; }
      occaFree(&p);
      ctx.cls("parse-scalar-text");
      break;
    }
    case J_FREE: {
      const int i = slotOf(o, 0);
      if (w.s[i].state == 1) w.freeBorrowedOf(i);
      w.release(i);
      opn = "free";
      mutated = true;
      break;
    }
    case J_BADSET: {
      // "raises" class: a value the API documents as an error must raise and change nothing
      const int i = slotOf(o, 0);
      MJ *m = w.node(i);
      if (!m || m->t != M_OBJ) break;
      static char x;
      bool raised = false;
      try { occaJsonObjectSet(w.s[i].h, keyOf(o, 1), occaPtr(&x)); } catch (occa::exception &) { raised = true; }
      if (!raised) { ok = ctx.fail("occaJsonObjectSet(non-null pointer) did not raise"); break; }
      ctx.cls("raises");
      mutated = true; opn = "objectSet(bad value)";
      break;
    }
    case M_MEM: {
      const int i = slotOf(o, 0);
      const size_t n = (size_t) (1 + (A(o, 1) & 255));
      const int tag = tagOf(o, 2);
      w.release(i);
      occaType h;
      std::vector<unsigned char> pattern(n * 8), back(n * 8, 0);
      for (size_t k = 0; k < pattern.size(); ++k) pattern[k] = (unsigned char) (A(o, 3) + 31 * k);
      size_t bytes = n;
      if (A(o, 4) & 1) {
        static const occaDtype *dts[] = {&occaDtypeBool, &occaDtypeInt8, &occaDtypeUint8, &occaDtypeInt16, &occaDtypeUint16, &occaDtypeInt32,
                                         &occaDtypeUint32, &occaDtypeInt64, &occaDtypeUint64, &occaDtypeFloat, &occaDtypeDouble};
        bytes = n * TAGBYTES[tag];
        h = occaTypedMalloc(n, *dts[tag], pattern.data(), occaDefault);
        if (occa::c::getDtype(h) != cppDtype(tag)) { ok = ctx.fail(std::string("getDtype(typed memory) is not ") + TAGN[tag]); occaFree(&h); break; }
      } else {
        h = occaMalloc(n, pattern.data(), occaDefault);
      }
      if (h.type != OCCA_MEMORY || occaIsUndefined(h) || !occaMemoryIsInitialized(h) || occaMemorySize(h) != n) { ok = ctx.fail("occaMalloc handle: type / size (entries)"); occaFree(&h); break; }
      occaCopyMemToPtr(back.data(), h, occaAllBytes, 0, occaDefault);
      if (memcmp(back.data(), pattern.data(), bytes)) { ok = ctx.fail("memory contents differ after occaMalloc(src) + occaCopyMemToPtr"); occaFree(&h); break; }
      occa::kernelArg ka = occa::c::kernelArg(h), ref = occa::kernelArg(occa::c::memory(h));
      if (ka.size() != 1 || ref.size() != 1 || ka.args[0].modeMemory != ref.args[0].modeMemory || !ka.args[0].modeMemory
          || ka.args[0].ptr() != ref.args[0].ptr() || ka.args[0].ptr() != occaMemoryPtr(h)) { ok = ctx.fail("kernelArg(occaMemory) differs from the C++ kernelArg(memory)"); occaFree(&h); break; }
      w.s[i].h = h; w.s[i].state = 3; w.s[i].memBytes = n;   // occaMemorySize counts entries of the dtype
      ctx.cls("memory-handle");
      opn = "malloc";
      break;
    }
    default: break;
    }
    if (ok && !ctx.why.empty()) ok = false;
    if (ok && mutated) ok = w.verifyAll(opn);
  }
  if (ok) ok = w.verifyAll("end");
  if (w.maxReadDepth >= 2) { ctx.nontrivial = true; ctx.cls("nested-read-2-levels"); }
  // every handle is released exactly once, borrowed ones before their owner
  for (int i = 0; i < NSLOT; ++i) if (w.s[i].state == 2) w.release(i);
  for (int i = 0; i < NSLOT; ++i) w.release(i);
  return ok && ctx.why.empty();
}

// ---- generator ---------------------------------------------------------------------------------
static uint64_t extremeBits(int tag, int which) {
  switch (tag) {
  case T_BOOL: return which & 1;
  case T_I8: { static const int8_t v[] = {INT8_MIN, INT8_MAX, -1, 0, 1}; return toBits(v[which % 5]); }
  case T_U8: { static const uint8_t v[] = {0, UINT8_MAX, 128, 127, 1}; return toBits(v[which % 5]); }
  case T_I16: { static const int16_t v[] = {INT16_MIN, INT16_MAX, -1, 0, 256}; return toBits(v[which % 5]); }
  case T_U16: { static const uint16_t v[] = {0, UINT16_MAX, 32768, 32767, 256}; return toBits(v[which % 5]); }
  case T_I32: { static const int32_t v[] = {INT32_MIN, INT32_MAX, -1, 0, 65536}; return toBits(v[which % 5]); }
  case T_U32: { static const uint32_t v[] = {0, UINT32_MAX, 2147483648u, 2147483647u, 65536}; return toBits(v[which % 5]); }
  case T_I64: { static const int64_t v[] = {INT64_MIN, INT64_MAX, -1, (1LL << 53) + 1, -(1LL << 31) - 1}; return toBits(v[which % 5]); }
  case T_U64: { static const uint64_t v[] = {0, UINT64_MAX, 1ULL << 63, (1ULL << 63) - 1, (1ULL << 53) + 1}; return v[which % 5]; }
  case T_F32: { static const float v[] = {FLT_MAX, -FLT_MAX, FLT_MIN, FLT_TRUE_MIN, -0.0f, FLT_EPSILON, 16777217.0f, 0.1f, INFINITY, -INFINITY, NAN};
                return toBits(v[which % 11]); }
  default: { static const double v[] = {DBL_MAX, -DBL_MAX, DBL_MIN, DBL_TRUE_MIN, -0.0, DBL_EPSILON, 9007199254740993.0, 0.1, 1e-320, (double) INFINITY, (double) -INFINITY, (double) NAN};
             return toBits(v[which % 12]); }
  }
}

static rc::Gen<Op> genOp() {
  return rc::gen::exec([]() {
    auto slot = []() { return *rng(0, NSLOT - 1); };
    auto scalar = [](Op &o) {     // appends tag, bits, ctor, extreme
      const int tag = (int) *rng(0, NTAG - 1);
      const ll mode = *rng(0, 9);
      uint64_t bits;
      bool extreme = false;
      if (mode < 4) { bits = extremeBits(tag, (int) *rng(0, 11)); extreme = true; }
      else if (mode < 7) bits = (uint64_t) *rng(-300, 300);
      else bits = ((uint64_t) *rng(0, 0xffffffffLL) << 32) | (uint64_t) *rng(0, 0xffffffffLL);
      if (tag == T_F32 && mode >= 4 && mode < 7) bits = toBits((float) ((ll) bits) / 8.0f);
      if (tag == T_F64 && mode >= 4 && mode < 7) bits = toBits((double) ((ll) bits) / 8.0);
      o.a.push_back(tag); o.a.push_back((ll) canon(tag, bits)); o.a.push_back(*rng(0, 1)); o.a.push_back(extreme ? 1 : 0);
    };
    auto str = []() {
      std::string s;
      const int n = (int) *rng(0, 12);
      const ll mode = *rng(0, 3);
      for (int i = 0; i < n; ++i) {
        ll b = mode == 0 ? *rng(1, 255) : mode == 1 ? *rng(32, 126) : mode == 2 ? *rng(128, 255) : *rng(97, 100);
        s += (char) b;
      }
      return s;
    };
    Op o;
    const ll pick = *rng(0, 99);
    if (pick < 10) { o.k = V_SCALAR; scalar(o); }
    else if (pick < 12) { o.k = V_STRING; o.s = str(); }
    else if (pick < 14) { o.k = V_PTR; o.a = {*rng(0, 1), *rng(0, 63), *rng(0, 31)}; }
    else if (pick < 15) { o.k = V_NULL; }
    else if (pick < 18) { o.k = J_NEW; o.a = {slot()}; }
    else if (pick < 33) { o.k = J_SET; o.a = {slot(), *rng(0, NKEYS - 1)}; scalar(o); }
    else if (pick < 37) { o.k = J_SETSTR; o.a = {slot(), *rng(0, NKEYS - 1)}; o.s = str(); }
    else if (pick < 39) { o.k = J_SETNULL; o.a = {slot(), *rng(0, NKEYS - 1), *rng(0, 1)}; }
    else if (pick < 50) { o.k = J_SETJSON; o.a = {slot(), *rng(0, NKEYS - 1), slot()}; }
    else if (pick < 57) { o.k = J_GET; o.a = {slot(), *rng(0, NKEYS - 1), slot(), *rng(0, 3)}; }
    else if (pick < 59) { o.k = J_HAS; o.a = {slot(), *rng(0, NKEYS - 1)}; }
    else if (pick < 68) { o.k = A_PUSH; o.a = {slot()}; scalar(o); }
    else if (pick < 70) { o.k = A_PUSHSTR; o.a = {slot()}; o.s = str(); }
    else if (pick < 72) { o.k = A_PUSHNULL; o.a = {slot()}; }
    else if (pick < 78) { o.k = A_PUSHJSON; o.a = {slot(), slot()}; }
    else if (pick < 82) { o.k = A_INSERT; o.a = {slot()}; const ll kind = *rng(0, 3);
                          if (kind == 3) { o.a.push_back(slot()); o.a.push_back(0); o.a.push_back(0); }
                          else { const int tag = (int) *rng(0, NTAG - 1); o.a.push_back(tag); o.a.push_back((ll) canon(tag, extremeBits(tag, (int) *rng(0, 7)))); o.a.push_back(*rng(0, 1)); }
                          o.a.push_back(*rng(0, 11)); o.a.push_back(kind); o.s = str(); }
    else if (pick < 86) { o.k = A_GET; o.a = {slot(), *rng(0, 11), slot()}; }
    else if (pick < 88) { o.k = A_POP; o.a = {slot()}; }
    else if (pick < 89) { o.k = A_CLEAR; o.a = {slot()}; }
    else if (pick < 93) { o.k = J_DUMPPARSE; o.a = {slot(), slot(), *rng(0, 4)}; }
    else if (pick < 94) { o.k = J_CAST; o.a = {*rng(0, 3)}; }
    else if (pick < 97) { o.k = J_FREE; o.a = {slot()}; }
    else if (pick < 98) { o.k = J_BADSET; o.a = {slot(), *rng(0, NKEYS - 1)}; }
    else { o.k = M_MEM; o.a = {slot(), *rng(0, 255), *rng(0, NTAG - 1), *rng(0, 255), *rng(0, 1)}; }
    return o;
  });
}
static rc::Gen<Case> genCase() { return rc::gen::container<Case>(genOp()); }

static std::string describe(const Case &c) {
  std::ostringstream ss;
  auto A = [](const Op &o, size_t i) -> ll { return i < o.a.size() ? o.a[i] : 0; };
  auto key = [&](const Op &o, size_t i) { return KEYS[((A(o, i) % NKEYS) + NKEYS) % NKEYS]; };
  auto sv = [&](const Op &o, size_t i) { int tag = (int) (((A(o, i) % NTAG) + NTAG) % NTAG); return showVal(tag, (uint64_t) A(o, i + 1)); };
  for (const Op &o : c) {
    switch (o.k) {
    case V_SCALAR: ss << "scalar(" << sv(o, 0) << ")"; break;
    case V_STRING: ss << "string(x" << hexEncode(o.s) << ")"; break;
    case V_PTR: ss << "ptr(null=" << (A(o, 0) & 1) << ")"; break;
    case V_NULL: ss << "null()"; break;
    case J_NEW: ss << "s" << A(o, 0) % NSLOT << "=createJson"; break;
    case J_SET: ss << "set(s" << A(o, 0) % NSLOT << "," << key(o, 1) << "," << sv(o, 2) << ")"; break;
    case J_SETSTR: ss << "set(s" << A(o, 0) % NSLOT << "," << key(o, 1) << ",str x" << hexEncode(o.s) << ")"; break;
    case J_SETNULL: ss << "set(s" << A(o, 0) % NSLOT << "," << key(o, 1) << ",null)"; break;
    case J_SETJSON: ss << "set(s" << A(o, 0) % NSLOT << "," << key(o, 1) << ",json s" << A(o, 2) % NSLOT << ")"; break;
    case J_GET: ss << "s" << A(o, 2) % NSLOT << "=get(s" << A(o, 0) % NSLOT << "," << key(o, 1) << ")"; break;
    case J_HAS: ss << "has(s" << A(o, 0) % NSLOT << "," << key(o, 1) << ")"; break;
    case A_PUSH: ss << "push(s" << A(o, 0) % NSLOT << "," << sv(o, 1) << ")"; break;
    case A_PUSHSTR: ss << "push(s" << A(o, 0) % NSLOT << ",str x" << hexEncode(o.s) << ")"; break;
    case A_PUSHNULL: ss << "push(s" << A(o, 0) % NSLOT << ",null)"; break;
    case A_PUSHJSON: ss << "push(s" << A(o, 0) % NSLOT << ",json s" << A(o, 1) % NSLOT << ")"; break;
    case A_INSERT: ss << "insert(s" << A(o, 0) % NSLOT << ",at " << A(o, 4) << ",kind " << (A(o, 5) & 3) << ")"; break;
    case A_GET: ss << "s" << A(o, 2) % NSLOT << "=arrayGet(s" << A(o, 0) % NSLOT << "," << A(o, 1) << ")"; break;
    case A_POP: ss << "pop(s" << A(o, 0) % NSLOT << ")"; break;
    case A_CLEAR: ss << "clear(s" << A(o, 0) % NSLOT << ")"; break;
    case J_DUMPPARSE: ss << "s" << A(o, 1) % NSLOT << "=parse(dump(s" << A(o, 0) % NSLOT << "," << A(o, 2) % 5 << "))"; break;
    case J_CAST: ss << "parseScalarText(" << (A(o, 0) & 3) << ")"; break;
    case J_FREE: ss << "free(s" << A(o, 0) % NSLOT << ")"; break;
    case J_BADSET: ss << "badSet(s" << A(o, 0) % NSLOT << "," << key(o, 1) << ")"; break;
    case M_MEM: ss << "s" << A(o, 0) % NSLOT << "=malloc(" << 1 + (A(o, 1) & 255) << ")"; break;
    default: ss << "?";
    }
    ss << " ";
  }
  return ss.str();
}

int main(int argc, char **argv) {
  // the default (host, Serial) device backs the memory handles; created once, outside any case
  occaGetDevice();
  RunFn run = leakWatched(runCase, "memory allocated by the C API during this case is unreachable after every handle was occaFree'd");
  return harnessMain(argc, argv, "C29 C API values", genCase(), run, describe);
}
