// C26 — mode-specific properties override generic ones only for the device's own mode.
//
// A case is a list of tagged property entries placed at every layer the statement names:
//   global settings      <object>/k, <object>/modes/<M>/k, modes/<M>/<object>/k      (object: device kernel memory stream)
//   device properties    k, modes/<M>/k, <object>/k, <object>/modes/<M>/k, modes/<M>/<object>/k
//   per-call properties  k, modes/<M>/k       for kernelProperties/memoryProperties/streamProperties(extra)
// with M = the device's own mode or another mode.  The model is the layering of the property statement:
//   settings-generic < settings-own-mode < user-generic < user-own-mode  (< per-call generic < per-call own-mode)
// other modes never visible, no "modes" entry left over, "mode" = the device's mode.  The two own-mode spellings
// of one key are never both present (the statement does not order them).
#include "common.hpp"
#include <occa.hpp>
#include <occa/internal/modes.hpp>

using namespace vf;

enum { MODE = 0, ENTRY = 1, RESETUP = 2 };
enum { T_SETTINGS = 0, T_DEVICE, T_CALL_K, T_CALL_M, T_CALL_S, NTARGET };
enum { L_GENERIC = 0, L_OWN_A, L_OWN_B, L_OTHER_A, L_OTHER_B, NLAYER };
enum { O_TOP = 0, O_KERNEL, O_MEMORY, O_STREAM, O_ROOT /* settings only: not under an object => no claim */, NOBJ };

static const char *SPELL[] = {"Serial", "OpenMP", "serial", "SERIAL", "openmp", "OPENMP", "CUDA", ""};
static const int NSPELL = 8;
static const char *KEYS[] = {"a", "b", "c", "grp/x", "grp/y"};
static const int NKEY = 5;
static const char *OBJ[] = {"device", "kernel", "memory", "stream"};

struct Entry {
  int target, layer, obj, other, key, salt;
  std::string value;
};

struct Plan {
  int spell = 0;
  bool resetup = false;
  std::string own;                 // canonical name of the device's mode
  std::vector<Entry> entries;      // normalised
};

static std::string otherName(const std::string &own, int sel) {
  if (sel == 1) return "CUDA";
  if (sel == 2) return "HIP";
  return own == "Serial" ? "OpenMP" : "Serial";
}

static bool openmpEnabled() { static bool v = occa::modeIsEnabled("OpenMP"); return v; }
static bool cudaEnabled()   { static bool v = occa::modeIsEnabled("CUDA"); return v; }

// path of an entry inside its target tree
static std::string pathOf(const Plan &p, const Entry &e) {
  const std::string key = KEYS[e.key];
  const bool call = e.target >= T_CALL_K;
  const std::string mode = (e.layer == L_OWN_A || e.layer == L_OWN_B) ? p.own : otherName(p.own, e.other);
  std::string obj;   // prefix object ("" = none)
  if (!call) {
    if (e.target == T_SETTINGS) obj = (e.obj == O_ROOT) ? "" : OBJ[e.obj];
    else obj = (e.obj == O_TOP) ? "" : OBJ[e.obj];
  }
  if (e.layer == L_GENERIC) return obj.empty() ? key : obj + "/" + key;
  const bool spellA = (e.layer == L_OWN_A || e.layer == L_OTHER_A);
  if (obj.empty()) return "modes/" + mode + "/" + key;
  return spellA ? obj + "/modes/" + mode + "/" + key : "modes/" + mode + "/" + obj + "/" + key;
}

static Plan makePlan(const Case &c) {
  Plan p;
  bool haveMode = false;
  for (const Op &o : c) {
    if (o.k == MODE && !haveMode && o.a.size() >= 1) { p.spell = (int) (((o.a[0] % NSPELL) + NSPELL) % NSPELL); haveMode = true; }
    if (o.k == RESETUP) p.resetup = true;
  }
  if (!openmpEnabled() && (p.spell == 1 || p.spell == 4 || p.spell == 5)) p.spell = 0;
  if (cudaEnabled() && p.spell == 6) p.spell = 0;
  p.own = (p.spell == 1 || p.spell == 4 || p.spell == 5) ? "OpenMP" : "Serial";
  std::map<std::string, size_t> byPath;        // target:path -> index in entries (later assignment replaces)
  std::set<std::string> ownSpelling;           // target:obj:key:spelling
  int n = 0;
  for (const Op &o : c) {
    if (o.k != ENTRY || o.a.size() < 6) continue;
    Entry e;
    e.target = (int) (((o.a[0] % NTARGET) + NTARGET) % NTARGET);
    e.layer = (int) (((o.a[1] % NLAYER) + NLAYER) % NLAYER);
    e.obj = (int) (((o.a[2] % NOBJ) + NOBJ) % NOBJ);
    e.other = (int) (((o.a[3] % 3) + 3) % 3);
    e.key = (int) (((o.a[4] % NKEY) + NKEY) % NKEY);
    e.salt = (int) (o.a[5] & 0xff);
    if (e.target >= T_CALL_K) { e.obj = O_TOP; if (e.layer == L_OWN_B) e.layer = L_OWN_A; if (e.layer == L_OTHER_B) e.layer = L_OTHER_A; }
    if (e.target == T_DEVICE && e.obj == O_ROOT) e.obj = O_TOP;
    if ((e.target == T_DEVICE && e.obj == O_TOP) || (e.target == T_SETTINGS && e.obj == O_ROOT)) {
      if (e.layer == L_OWN_B) e.layer = L_OWN_A;
      if (e.layer == L_OTHER_B) e.layer = L_OTHER_A;
    }
    // an "other" mode must really be another mode
    if ((e.layer == L_OTHER_A || e.layer == L_OTHER_B) && otherName(p.own, e.other) == p.own) e.other = 0;
    // the two own-mode spellings of one key are never both present
    if (e.layer == L_OWN_A || e.layer == L_OWN_B) {
      std::ostringstream k; k << e.target << ':' << e.obj << ':' << e.key << ':';
      const std::string mine = k.str() + (e.layer == L_OWN_A ? "A" : "B");
      const std::string theirs = k.str() + (e.layer == L_OWN_A ? "B" : "A");
      if (ownSpelling.count(theirs)) continue;
      ownSpelling.insert(mine);
    }
    std::ostringstream v;
    v << "t" << e.target << "L" << e.layer << "o" << e.obj << "x" << e.other << "k" << e.key << "#" << e.salt << "." << n++;
    e.value = v.str();
    std::ostringstream pk; pk << e.target << ':' << pathOf(p, e);
    auto it = byPath.find(pk.str());
    if (it != byPath.end()) p.entries[it->second] = e;
    else { byPath[pk.str()] = p.entries.size(); p.entries.push_back(e); }
  }
  return p;
}

// which observable object an entry feeds:  O_TOP (device.properties() top level), kernel, memory, stream; -1 = none
static int feeds(const Entry &e) {
  if (e.target == T_CALL_K) return O_KERNEL;
  if (e.target == T_CALL_M) return O_MEMORY;
  if (e.target == T_CALL_S) return O_STREAM;
  if (e.obj == O_ROOT) return -1;
  return e.obj;
}

// rank of a layer in the statement's order; -1 = must never be visible
static int rankOf(const Entry &e) {
  const bool own = (e.layer == L_OWN_A || e.layer == L_OWN_B);
  if (e.layer == L_OTHER_A || e.layer == L_OTHER_B) return -1;
  const int base = (e.target == T_SETTINGS) ? 0 : (e.target == T_DEVICE) ? 2 : 4;
  return base + (own ? 1 : 0);
}

struct Expect { bool present = false; std::string value; int layers = 0; bool sawOther = false; };

// expected value of KEYS[key] in observable `obj`; withCall = include the per-call layers
static Expect expectFor(const Plan &p, int obj, int key, bool withCall) {
  Expect x;
  int best = -1;
  std::set<int> layerIds;
  for (const Entry &e : p.entries) {
    if (e.key != key || feeds(e) != obj) continue;
    if (e.target >= T_CALL_K && !withCall) continue;
    const int r = rankOf(e);
    layerIds.insert(r < 0 ? 100 + (e.target >= T_CALL_K ? 2 : e.target) : r);
    if (r < 0) { x.sawOther = true; continue; }
    if (r > best) { best = r; x.present = true; x.value = e.value; }
  }
  x.layers = (int) layerIds.size();
  return x;
}

static occa::json buildTree(const Plan &p, int target, const char *stale = NULL) {
  occa::json j;
  j.asObject();
  for (const Entry &e : p.entries) {
    if (e.target != target) continue;
    j[pathOf(p, e)] = stale ? std::string(stale) + e.value : e.value;
  }
  return j;
}

struct SettingsGuard {
  occa::json saved;
  SettingsGuard() : saved(occa::settings()) {}
  ~SettingsGuard() { occa::settings() = saved; }
};

static bool checkProps(const Plan &p, const occa::json &got, int obj, bool withCall, const char *what, Ctx &ctx) {
  std::ostringstream why;
  if (!got.isObject()) {
    why << what << " is not an object: " << got.dump(0);
    return ctx.fail(why.str());
  }
  if (got.has("modes")) {
    why << what << " still contains a \"modes\" entry: " << got.dump(0);
    return ctx.fail(why.str());
  }
  const occa::json &m = got["mode"];
  if (!m.isString() || m.string() != p.own) {
    why << what << "[\"mode\"] = " << m.dump(0) << " but the device's mode is " << p.own;
    return ctx.fail(why.str());
  }
  for (int k = 0; k < NKEY; ++k) {
    const Expect x = expectFor(p, obj, k, withCall);
    const bool has = got.has(KEYS[k]);
    if (x.layers >= 3 && x.sawOther) ctx.nontrivial = true;
    if (has != x.present) {
      why << what << ": key '" << KEYS[k] << "' " << (has ? "is present (" + got[KEYS[k]].dump(0) + ")" : "is missing")
          << " but the layering says " << (x.present ? "value " + x.value : "absent") << "; got " << got.dump(0);
      return ctx.fail(why.str());
    }
    if (has) {
      const occa::json &v = got[KEYS[k]];
      if (!v.isString() || v.string() != x.value) {
        why << what << ": key '" << KEYS[k] << "' = " << v.dump(0) << " but the layering says " << x.value
            << " (tags: t=target 0 settings 1 device 2-4 per-call, L=layer 0 generic 1/2 own-mode 3/4 other-mode, o=object); got "
            << got.dump(0);
        return ctx.fail(why.str());
      }
    }
  }
  return true;
}

static bool runCase(const Case &c, Ctx &ctx) {
  const Plan p = makePlan(c);
  ctx.cls(std::string("mode-spelling:") + (p.spell == 7 ? "<absent>" : SPELL[p.spell]));
  if (p.resetup) ctx.cls("re-setup");
  for (const Entry &e : p.entries) {
    if (e.target == T_SETTINGS) ctx.cls("layer:settings");
    if (e.target >= T_CALL_K) ctx.cls("layer:per-call");
    if (e.layer == L_OWN_A && !(e.target == T_DEVICE && e.obj == O_TOP) && e.target < T_CALL_K) ctx.cls("own-mode:<object>/modes/<mode>");
    if (e.layer == L_OWN_B) ctx.cls("own-mode:modes/<mode>/<object>");
    if (e.layer == L_OTHER_A || e.layer == L_OTHER_B) ctx.cls(std::string("other-mode:") + otherName(p.own, e.other));
    if (e.key >= 3) ctx.cls("nested-key");
  }

  SettingsGuard guard;
  {
    occa::json &s = occa::settings();
    for (const Entry &e : p.entries)
      if (e.target == T_SETTINGS) s[pathOf(p, e)] = e.value;
  }
  occa::json props = buildTree(p, T_DEVICE);
  if (p.spell != 7) props["mode"] = SPELL[p.spell];

  occa::device dev;
  if (p.resetup) {
    // a device that already carries other properties (and another mode) is set up again
    occa::json old = buildTree(p, T_DEVICE, "stale:");
    old["mode"] = (p.own == "Serial" && openmpEnabled()) ? "OpenMP" : "Serial";
    old["zz"] = "stale";
    old["kernel/zz"] = "stale";
    old["memory/modes/Serial/zz"] = "stale";
    old["modes/OpenMP/stream/zz"] = "stale";
    dev.setup(old);
    dev.setup(props);
  } else {
    dev = occa::device(props);
  }

  if (dev.mode() != p.own) {
    std::ostringstream why;
    why << "device.mode() = " << dev.mode() << " for mode property '" << SPELL[p.spell] << "' (expected " << p.own << ")";
    return ctx.fail(why.str());
  }
  const occa::json &dp = dev.properties();
  if (!checkProps(p, dp, O_TOP, false, "device.properties()", ctx)) return false;
  if (p.resetup && (dp.has("zz") || dp.has("kernel/zz") || dp.has("memory/zz") || dp.has("stream/zz")))
    return ctx.fail("a second setup() kept properties of the first one: " + dp.dump(0));
  static const char *sub[] = {"", "kernel", "memory", "stream"};
  for (int o = O_KERNEL; o <= O_STREAM; ++o) {
    const std::string what = std::string("device.properties()[\"") + sub[o] + "\"]";
    if (!checkProps(p, dp[sub[o]], o, false, what.c_str(), ctx)) return false;
  }
  if (!checkProps(p, dev.kernelProperties(), O_KERNEL, false, "device.kernelProperties()", ctx)) return false;
  if (!checkProps(p, dev.memoryProperties(), O_MEMORY, false, "device.memoryProperties()", ctx)) return false;
  if (!checkProps(p, dev.streamProperties(), O_STREAM, false, "device.streamProperties()", ctx)) return false;
  if (!checkProps(p, dev.getStream().properties(), O_STREAM, false, "device.getStream().properties()", ctx)) return false;

  // per-call variants and the objects created with them
  const occa::json ek = buildTree(p, T_CALL_K), em = buildTree(p, T_CALL_M), es = buildTree(p, T_CALL_S);
  if (!checkProps(p, dev.kernelProperties(ek), O_KERNEL, true, "device.kernelProperties(extra)", ctx)) return false;
  if (!checkProps(p, dev.memoryProperties(em), O_MEMORY, true, "device.memoryProperties(extra)", ctx)) return false;
  if (!checkProps(p, dev.streamProperties(es), O_STREAM, true, "device.streamProperties(extra)", ctx)) return false;
  {
    occa::memory mem = dev.malloc(8, occa::dtype::byte, em);
    if (!checkProps(p, mem.properties(), O_MEMORY, true, "device.malloc(..., extra).properties()", ctx)) return false;
    char buf[8] = {0};
    occa::memory wrapped = dev.wrapMemory((const void*) buf, 8, occa::dtype::byte, em);
    if (!checkProps(p, wrapped.properties(), O_MEMORY, true, "device.wrapMemory(..., extra).properties()", ctx)) return false;
    occa::memoryPool pool = dev.createMemoryPool(em);
    if (!checkProps(p, pool.properties(), O_MEMORY, true, "device.createMemoryPool(extra).properties()", ctx)) return false;
    occa::stream st = dev.createStream(es);
    if (!checkProps(p, st.properties(), O_STREAM, true, "device.createStream(extra).properties()", ctx)) return false;
    occa::memory plain = dev.malloc(8, occa::dtype::byte);
    if (!checkProps(p, plain.properties(), O_MEMORY, false, "device.malloc(...).properties()", ctx)) return false;
  }
  // the per-call calls must not have changed the device
  if (!checkProps(p, dev.properties(), O_TOP, false, "device.properties() after per-call use", ctx)) return false;
  if (!checkProps(p, dev.kernelProperties(), O_KERNEL, false, "device.kernelProperties() after per-call use", ctx)) return false;
  dev.free();
  return true;
}

static std::string describe(const Case &c) {
  const Plan p = makePlan(c);
  std::ostringstream ss;
  ss << "mode=" << (p.spell == 7 ? "<absent>" : SPELL[p.spell]) << "(own " << p.own << ")" << (p.resetup ? " re-setup" : "");
  static const char *tn[] = {"settings", "device", "call-kernel", "call-memory", "call-stream"};
  for (const Entry &e : p.entries) ss << " " << tn[e.target] << ":" << pathOf(p, e);
  return ss.str();
}

int main(int argc, char **argv) {
  auto entry = rc::gen::exec([]() {
    Op o; o.k = ENTRY;
    const ll t = *rng(0, 11);
    o.a.push_back(t < 3 ? T_SETTINGS : t < 8 ? T_DEVICE : t < 10 ? T_CALL_K : t < 11 ? T_CALL_M : T_CALL_S);
    const ll l = *rng(0, 9);
    o.a.push_back(l < 3 ? L_GENERIC : l < 5 ? L_OWN_A : l < 7 ? L_OWN_B : l < 9 ? L_OTHER_A : L_OTHER_B);
    const ll ob = *rng(0, 8);
    o.a.push_back(ob < 3 ? O_TOP : ob < 6 ? O_KERNEL : ob < 7 ? O_MEMORY : ob < 8 ? O_STREAM : O_ROOT);
    const ll ot = *rng(0, 5);
    o.a.push_back(ot < 4 ? 0 : ot < 5 ? 1 : 2);
    const ll k = *rng(0, 9);
    o.a.push_back(k < 5 ? 0 : k < 7 ? 1 : k < 8 ? 2 : k < 9 ? 3 : 4);
    o.a.push_back(*rng(0, 255));
    return o;
  });
  auto modeG = rc::gen::exec([]() {
    Op o; o.k = MODE;
    const ll m = *rng(0, 15);
    o.a.push_back(m < 5 ? 0 : m < 10 ? 1 : (m - 10) + 2);
    return o;
  });
  rc::Gen<Case> gen = rc::gen::exec([=]() {
    Case c;
    c.push_back(*modeG);
    if (*rng(0, 9) == 0) { Op r; r.k = RESETUP; c.push_back(r); }
    Case es = *rc::gen::container<Case>(entry);
    for (auto &e : es) c.push_back(e);
    return c;
  });
  return harnessMain(argc, argv, "C26 mode-specific properties", gen, runCase, describe);
}
