// CUDA / HIP device-side shim: documented built-ins on top of the fibre emulation.
#pragma once
#include "emu.hpp"
#define __global__
#define __device__
#define __host__
#define __shared__ static
#define __restrict__
#define __launch_bounds__(...)
#define blockIdx  (emu::st().blockIdx)
#define threadIdx (emu::st().threadIdx)
#define blockDim  (emu::st().blockDim)
#define gridDim   (emu::st().gridDim)
inline void __syncthreads() { emu::barrier(); }
template <class T, class U> inline T atomicAdd(T *p, U v) { T o = *p; *p = (T) (o + v); return o; }
template <class T, class U> inline T atomicSub(T *p, U v) { T o = *p; *p = (T) (o - v); return o; }
template <class T, class U> inline T atomicExch(T *p, U v) { T o = *p; *p = (T) v; return o; }
template <class T, class U> inline T atomicMin(T *p, U v) { T o = *p; if ((T) v < o) *p = (T) v; return o; }
template <class T, class U> inline T atomicMax(T *p, U v) { T o = *p; if ((T) v > o) *p = (T) v; return o; }
template <class T, class U> inline T atomicAnd(T *p, U v) { T o = *p; *p = (T) (o & v); return o; }
template <class T, class U> inline T atomicOr(T *p, U v) { T o = *p; *p = (T) (o | v); return o; }
template <class T, class U> inline T atomicXor(T *p, U v) { T o = *p; *p = (T) (o ^ v); return o; }
