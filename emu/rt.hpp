// Run-time support for the generated OKL test translation units: visit recording, guarded argument buffers,
// result lines.  Compiled by the host compiler together with the reference loops and the translated code.
#pragma once
#include <array>
#include <cstdio>
#include <cstdlib>
#include <cstring>
#include <map>
#include <mutex>
#include <string>
#include <vector>
#include <sys/mman.h>
#include <unistd.h>
#include <signal.h>

namespace rt {
  typedef std::array<long, 6> Tup;
  inline std::map<Tup, long>& rec() { static std::map<Tup, long> r; return r; }
  inline std::mutex& mu() { static std::mutex m; return m; }
  inline long& visits() { static long v; return v; }
  static const long MAX_VISITS = 2000000;    // a translation that never stops is cut here
  inline std::string fmt(const Tup &t) {
    char b[160]; snprintf(b, sizeof b, "(%ld,%ld,%ld,%ld,%ld,%ld)", t[0], t[1], t[2], t[3], t[4], t[5]); return b;
  }
  // compare reference multiset R with translated multiset T; prints one RESULT line
  inline void report(const char *cid, int tuple, const std::map<Tup, long> &R, const std::map<Tup, long> &T,
                     const std::string &err, bool overrun) {
    std::string d;
    int shown = 0;
    long nR = 0, nT = 0;
    for (auto &kv : R) nR += kv.second;
    for (auto &kv : T) nT += kv.second;
    for (auto &kv : R) { auto it = T.find(kv.first); long c = it == T.end() ? 0 : it->second;
      if (c != kv.second && shown < 4) { d += " ref" + fmt(kv.first) + "x" + std::to_string(kv.second) + "!=got x" + std::to_string(c); ++shown; } }
    for (auto &kv : T) if (!R.count(kv.first) && shown < 6) { d += " extra" + fmt(kv.first) + "x" + std::to_string(kv.second); ++shown; }
    const bool ok = (R == T) && err.empty() && !overrun;
    printf("RESULT %s %d %s ref=%ld got=%ld%s%s%s\n", cid, tuple, ok ? "OK" : "FAIL", nR, nT,
           err.empty() ? "" : (" err=[" + err + "]").c_str(), overrun ? " overrun(iteration never stops)" : "", d.c_str());
    fflush(stdout);
  }

  // ---- guarded buffers: [PROT_NONE page][... data right-aligned to the next page][PROT_NONE page]
  struct Guarded { char *base; size_t map; char *data; size_t bytes; };
  inline Guarded galloc(size_t bytes, size_t align) {
    const size_t pg = (size_t) sysconf(_SC_PAGESIZE);
    size_t body = ((bytes + pg - 1) / pg) * pg; if (!body) body = pg;
    Guarded g; g.map = body + 2 * pg; g.bytes = bytes;
    g.base = (char*) mmap(NULL, g.map, PROT_READ | PROT_WRITE, MAP_PRIVATE | MAP_ANONYMOUS, -1, 0);
    memset(g.base, 0xEE, g.map);
    mprotect(g.base, pg, PROT_NONE);
    mprotect(g.base + pg + body, pg, PROT_NONE);
    size_t off = body - bytes; off -= off % align;      // right-align so that an overrun hits the guard page
    g.data = g.base + pg + off;
    return g;
  }
  inline bool canaryOk(const Guarded &g) {                // bytes between the left guard page and the data stay 0xEE
    const size_t pg = (size_t) sysconf(_SC_PAGESIZE);
    for (char *p = g.base + pg; p < g.data; ++p) if ((unsigned char) *p != 0xEE) return false;
    for (char *p = g.data + g.bytes; p < g.base + g.map - pg; ++p) if ((unsigned char) *p != 0xEE) return false;
    return true;
  }
  inline void gfree(Guarded &g) { munmap(g.base, g.map); }

  inline const char*& currentCase() { static const char *c = "?"; return c; }
  inline int& currentTuple() { static int t; return t; }
  inline void onSegv(int sig) {
    char b[200]; int n = snprintf(b, sizeof b, "RESULT %s %d FAIL signal=%d (out-of-range access or crash in translated code)\n", currentCase(), currentTuple(), sig);
    if (write(1, b, n)) {}
    _exit(3);
  }
  inline void installHandlers() {
    static char altstack[1 << 16];
    stack_t ss; ss.ss_sp = altstack; ss.ss_size = sizeof altstack; ss.ss_flags = 0; sigaltstack(&ss, NULL);
    struct sigaction sa; memset(&sa, 0, sizeof sa); sa.sa_handler = onSegv; sa.sa_flags = SA_ONSTACK;
    sigaction(SIGSEGV, &sa, NULL); sigaction(SIGBUS, &sa, NULL); sigaction(SIGFPE, &sa, NULL);
  }
}

// the function generated kernels call for every iteration tuple
inline void visit(long a, long b, long c, long d, long e, long f) {
  std::lock_guard<std::mutex> g(rt::mu());
  if (++rt::visits() > rt::MAX_VISITS) {
    char b[200]; int n = snprintf(b, sizeof b, "RESULT %s %d FAIL overrun (the translated loop never stops)\n", rt::currentCase(), rt::currentTuple());
    if (write(1, b, n)) {}
    _exit(4);
  }
  ++rt::rec()[rt::Tup{a, b, c, d, e, f}];
}
