// Shim for the header the generated launcher includes.  Mirrors occa::dim and occa::kernel::setRunDims /
// operator() as far as launchers use them; operator() runs the emulated grid (see emu.hpp).
#pragma once
#include "emu.hpp"
#include <string>

namespace occa {
  typedef uint64_t udim_t;
  class dim {
   public:
    int dims;
    udim_t x, y, z;
    dim() : dims(0), x(1), y(1), z(1) {}
    udim_t& operator [] (int i) { return i == 0 ? x : (i == 1 ? y : z); }
    bool isZero() const { return !(x && y && z); }
  };
  struct modeMemory_t { void *ptr; };
}

namespace emu {
  struct Args {
    unsigned char v[16][16];
    int n;
    Args() : n(0) {}
    template <class T> void push(const T &t) { static_assert(sizeof(T) <= 16, "arg"); memset(v[n], 0, 16); memcpy(v[n], &t, sizeof(T)); ++n; }
    template <class T> T get(int i) const { T t; memcpy(&t, v[i], sizeof(T)); return t; }
    template <class T> T& ref(int i) { return *(T*) v[i]; }
    void* mem(int i) const { return get<occa::modeMemory_t*>(i)->ptr; }
  };
}

namespace occa {
  struct modeKernel_t {
    // perThread: called once per emulated GPU thread (CUDA, HIP, OpenCL, Metal)
    // selfLaunch: called once, the device code launches itself (DPC++: queue.submit / parallel_for)
    void (*perThread)(emu::Args &);
    void (*selfLaunch)(emu::Args &, dim outer, dim inner);
  };

  class kernel {
    modeKernel_t *mk;
    dim outer, inner;
   public:
    kernel(modeKernel_t *mk_) : mk(mk_) {}
    void setRunDims(dim outer_, dim inner_) { outer = outer_; inner = inner_; }
    template <class... A>
    void operator () (A... a) {
      // occa::kernel::run(): nothing is launched when a dimension is zero
      if (outer.isZero() || inner.isZero()) return;
      emu::Args args;
      int dummy[] = {0, (args.push(a), 0)...};
      (void) dummy;
      if (mk->selfLaunch) { mk->selfLaunch(args, outer, inner); return; }
      void (*fn)(emu::Args &) = mk->perThread;
      emu::setError(emu::launch(emu::dim3v{outer.x, outer.y, outer.z}, emu::dim3v{inner.x, inner.y, inner.z},
                                [&]() { emu::Args copy = args; fn(copy); }));
    }
  };
}
