// Emulation of the GPU launch model used by OCCA's CUDA / HIP / OpenCL / Metal / DPC++ back ends.
//   grid of blocks x threads; the threads of a block are fibres (ucontext) on one OS thread so that
//   barriers work; blocks run one after the other.  Written from OCCA's run-time code
//   (modes/*/kernel.cpp) and the vendors' documented execution model; part of the trusted base.
#pragma once
#include <ucontext.h>
#include <cstdio>
#include <cstdlib>
#include <cstring>
#include <functional>
#include <vector>
#include <stdint.h>
#include <string>

namespace emu {
  struct dim3v { unsigned long x, y, z; };
  struct State {
    dim3v gridDim, blockDim, blockIdx, threadIdx;
    int sharedSeq;                 // per-thread counter of block-local allocations (sycl local memory)
  };
  inline State& st() { static State s; return s; }
  inline std::string& lastError() { static std::string e; return e; }
  inline void setError(const char *e) { if (e && lastError().empty()) lastError() = e; }

  static const unsigned long MAX_LAUNCH = 1ul << 16;   // total threads; more means a bogus (negative) launch size

  struct Fiber {
    ucontext_t ctx;
    char *stack;
    bool done, atBarrier;
    dim3v tid;
    int sharedSeq;
  };
  struct Sched {
    ucontext_t main;
    std::vector<Fiber> fibers;
    int current;
    const std::function<void()> *body;
    std::vector<void*> blockLocal;     // block-local allocations in call order
    const char *error;
  };
  inline Sched& sched() { static Sched s; return s; }

  inline void fiberEntry() {
    Sched &s = sched();
    (*s.body)();
    s.fibers[s.current].done = true;
    swapcontext(&s.fibers[s.current].ctx, &s.main);
  }

  // called by device code
  inline void barrier() {
    Sched &s = sched();
    Fiber &f = s.fibers[s.current];
    f.atBarrier = true;
    f.sharedSeq = st().sharedSeq;
    swapcontext(&f.ctx, &s.main);
  }

  inline void* blockLocalAlloc(size_t bytes) {
    Sched &s = sched();
    const int k = st().sharedSeq++;
    if ((int) s.blockLocal.size() <= k) s.blockLocal.push_back(calloc(1, bytes ? bytes : 1));
    return s.blockLocal[k];
  }

  static const size_t STACK = 256 * 1024;

  // returns NULL or an error description
  inline const char* launch(dim3v grid, dim3v block, const std::function<void()> &body) {
    const unsigned long nb = grid.x * grid.y * grid.z, nt = block.x * block.y * block.z;
    if (grid.x > MAX_LAUNCH || grid.y > MAX_LAUNCH || grid.z > MAX_LAUNCH ||
        block.x > MAX_LAUNCH || block.y > MAX_LAUNCH || block.z > MAX_LAUNCH || nb * nt > MAX_LAUNCH)
      return "launch dimensions are huge (negative size for an empty loop?)";
    Sched &s = sched();
    s.body = &body;
    s.error = NULL;
    st().gridDim = grid; st().blockDim = block;
    static std::vector<char*> stacks;
    while (stacks.size() < nt) stacks.push_back((char*) malloc(STACK));
    for (unsigned long bz = 0; bz < grid.z; ++bz) for (unsigned long by = 0; by < grid.y; ++by) for (unsigned long bx = 0; bx < grid.x; ++bx) {
      st().blockIdx = dim3v{bx, by, bz};
      s.fibers.assign(nt, Fiber());
      unsigned long t = 0;
      for (unsigned long tz = 0; tz < block.z; ++tz) for (unsigned long ty = 0; ty < block.y; ++ty) for (unsigned long tx = 0; tx < block.x; ++tx, ++t) {
        Fiber &f = s.fibers[t];
        f.done = false; f.atBarrier = false; f.tid = dim3v{tx, ty, tz}; f.sharedSeq = 0;
        f.stack = stacks[t];
        getcontext(&f.ctx);
        f.ctx.uc_stack.ss_sp = f.stack;
        f.ctx.uc_stack.ss_size = STACK;
        f.ctx.uc_link = &s.main;
        makecontext(&f.ctx, (void (*)()) fiberEntry, 0);
      }
      unsigned long alive = nt;
      while (alive) {
        unsigned long waiting = 0, finishedNow = 0;
        for (unsigned long i = 0; i < nt; ++i) {
          Fiber &f = s.fibers[i];
          if (f.done) continue;
          f.atBarrier = false;
          s.current = (int) i;
          st().threadIdx = f.tid;
          st().sharedSeq = f.sharedSeq;
          swapcontext(&s.main, &f.ctx);
          if (f.done) { ++finishedNow; --alive; } else ++waiting;
        }
        if (waiting && finishedNow) s.error = "barrier divergence: some threads of a block finished while others wait at a barrier";
      }
      for (void *p : s.blockLocal) free(p);
      s.blockLocal.clear();
    }
    return s.error;
  }
}
