// SYCL shim: just enough of sycl::queue / handler / nd_range / nd_item / group-local memory / atomic_ref for
// the code OCCA's DPC++ translator emits.  Dimension order as in OCCA's run time (modes/dpcpp/kernel.cpp):
// range index 2 is OCCA's x (outer/inner index 0).
#pragma once
#include "../emu.hpp"
#define SYCL_EXTERNAL
namespace sycl {
  template <int N> struct range { size_t v[N]; range() { for (int i = 0; i < N; ++i) v[i] = 1; }
    range(size_t a, size_t b, size_t c) { v[0] = a; v[1] = b; v[2] = c; } size_t operator[](int i) const { return v[i]; } };
  template <int N> struct nd_range { range<N> global, local; nd_range(range<N> g, range<N> l) : global(g), local(l) {} };
  namespace access { enum class fence_space { local_space, global_space, global_and_local }; enum class address_space { global_space, local_space }; }
  enum class memory_order { relaxed, acq_rel, seq_cst };
  enum class memory_scope { work_item, work_group, device, system };
  template <int N> struct group {};
  template <int N> struct nd_item {
    size_t get_group(int d) const { emu::dim3v &v = emu::st().blockIdx; return d == 2 ? v.x : d == 1 ? v.y : v.z; }
    size_t get_local_id(int d) const { emu::dim3v &v = emu::st().threadIdx; return d == 2 ? v.x : d == 1 ? v.y : v.z; }
    size_t get_local_range(int d) const { emu::dim3v &v = emu::st().blockDim; return d == 2 ? v.x : d == 1 ? v.y : v.z; }
    size_t get_group_range(int d) const { emu::dim3v &v = emu::st().gridDim; return d == 2 ? v.x : d == 1 ? v.y : v.z; }
    size_t get_global_id(int d) const { return get_group(d) * get_local_range(d) + get_local_id(d); }
    group<N> get_group() const { return group<N>(); }
    void barrier(access::fence_space = access::fence_space::global_and_local) const { emu::barrier(); }
  };
  namespace ext { namespace oneapi {
    template <class T, class G> T* group_local_memory_for_overwrite(G) { return (T*) emu::blockLocalAlloc(sizeof(T)); }
  } }
  template <class T, memory_order O, memory_scope S, access::address_space A = access::address_space::global_space>
  struct atomic_ref {
    T &r; explicit atomic_ref(T &r_) : r(r_) {}
    T operator += (T v) { return r += v; } T operator -= (T v) { return r -= v; }
    T operator ++ () { return ++r; } T operator ++ (int) { return r++; } T operator -- () { return --r; } T operator -- (int) { return r--; }
    T operator &= (T v) { return r &= v; } T operator |= (T v) { return r |= v; } T operator ^= (T v) { return r ^= v; }
    T operator = (T v) { r = v; return v; }
    T fetch_add(T v) { T o = r; r += v; return o; } T fetch_sub(T v) { T o = r; r -= v; return o; }
    T fetch_min(T v) { T o = r; if (v < o) r = v; return o; } T fetch_max(T v) { T o = r; if (v > o) r = v; return o; }
    T exchange(T v) { T o = r; r = v; return o; } T load() const { return r; } void store(T v) { r = v; }
  };
  struct handler {
    template <class F> void parallel_for(nd_range<3> r, F f);
  };
  struct queue { template <class F> void submit(F f) { handler h; f(h); } };
}
template <class F> void sycl::handler::parallel_for(nd_range<3> r, F f) {
  emu::dim3v block{r.local[2], r.local[1], r.local[0]};
  for (int d = 0; d < 3; ++d) if (r.local[d] == 0 || r.global[d] % r.local[d]) { emu::setError("sycl nd_range: global size is not a multiple of the local size"); return; }
  emu::dim3v grid{r.global[2] / r.local[2], r.global[1] / r.local[1], r.global[0] / r.local[0]};
  emu::setError(emu::launch(grid, block, [&]() { f(sycl::nd_item<3>()); }));
}
