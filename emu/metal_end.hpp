#undef kernel
#undef device
#undef constant
#undef threadgroup
