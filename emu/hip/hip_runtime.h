#pragma once
#include "../cuda.hpp"
