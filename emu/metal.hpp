// Metal shading language device-side shim.  `kernel`, `device`, `constant`, `threadgroup` are keywords of the
// language: they are defined as macros only while the device source is compiled (see metal_end.hpp).
#pragma once
#include "emu.hpp"
namespace metal {
  struct uint3 { unsigned int x, y, z; };
  namespace mem_flags_ns { }
  struct mem_flags { enum T { mem_none = 0, mem_device = 1, mem_threadgroup = 2 }; };
  inline void threadgroup_barrier(int) { emu::barrier(); }
}
#define kernel
#define device
#define constant const
#define threadgroup static
