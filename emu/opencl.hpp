// OpenCL C device-side shim.
#pragma once
#include "emu.hpp"
#define __kernel
#define __global
#define __constant const
#define __local static
#define __private
#define restrict __restrict__
#define CLK_LOCAL_MEM_FENCE 1
#define CLK_GLOBAL_MEM_FENCE 2
inline size_t get_group_id(int d)   { emu::dim3v &v = emu::st().blockIdx;  return d == 0 ? v.x : d == 1 ? v.y : v.z; }
inline size_t get_local_id(int d)   { emu::dim3v &v = emu::st().threadIdx; return d == 0 ? v.x : d == 1 ? v.y : v.z; }
inline size_t get_local_size(int d) { emu::dim3v &v = emu::st().blockDim;  return d == 0 ? v.x : d == 1 ? v.y : v.z; }
inline size_t get_num_groups(int d) { emu::dim3v &v = emu::st().gridDim;   return d == 0 ? v.x : d == 1 ? v.y : v.z; }
inline size_t get_global_id(int d)  { return get_group_id(d) * get_local_size(d) + get_local_id(d); }
inline void barrier(int) { emu::barrier(); }
