"""C24 (JSON dump/parse round trip) and C25 (JSON path access and merging vs nested-dict model)."""
import vlib
from meta import m
from props import REGISTRY, rc_property


def _env(wd):
    # json code is allocation-bound: ASan's default malloc fill (0xbe over the first 4 KiB of every block) and the
    # 256 MiB quarantine cost 4x wall time (page faults) without adding detection power for this property
    return {"ASAN_OPTIONS": vlib.base_env(wd)["ASAN_OPTIONS"] + ":max_malloc_fill_size=0:quarantine_size_mb=32"}


REGISTRY["C24"] = rc_property(
    "C24", quick=(3000, 40), thorough=(120000, 60), env_fn=_env,
    rule="case = one JSON tree (pre-order op list: null/bool/8 integer types/float/double/string/array/object+keys, depth<=5, "
         "width<=6) plus indent in {0,1,2,4,-1} and a construction route (set() vs object()[k], += vs push_back, ascending vs "
         "descending insertion). Strings and keys are drawn from a byte alphabet weighted toward quote, backslash, slash, "
         "apostrophe, \\n\\t\\b\\f\\r, raw control bytes, UTF-8, literal \\uXXXX text, JSON punctuation, NUL. For the generated "
         "indent p=parse(dump(v,indent)) must be == v (json::operator==, both directions) and pass an independent deep comparison "
         "with the model (kinds, string bytes, key sets and order, array lengths, numbers converted to the original's C type, "
         "floats/doubles bit-exact); parse(const char*&) and load() agree; every other indent parses back to v; a second value "
         "built through the other route/insertion order is ==, dumps to the same text and has the same hash(); p dumps to the "
         "same text and has the same hash(). Non-trivial = the tree contains a string or an object key with a double quote or "
         "a backslash. Distinct = distinct serialised case.",
    assumptions=["object keys are non-empty (json::loadObjectField rejects a size-0 key with an explicit check, so the empty key is "
                 "outside the accepted language; the decoder maps an empty key to \"e\")",
                 "NaN/Inf (not JSON numbers) and none_ values (not a JSON value) are never generated",
                 "numbers are compared after converting the parsed primitive to the original's C type (JSON text carries no width)",
                 "strings/keys with an embedded NUL byte are the known-finding class 'embedded-nul' (neutralised to 0x01 when listed)"])

REGISTRY["C25"] = rc_property(
    "C25", quick=(800, 40), thorough=(32000, 60), env_fn=_env,
    rule="case = history over 3 json registers (each starts undefined): j[path]=scalar/array/copy of a register (paths of 1-3 "
         "components over {a,b,c}), set(literal key, v) (keys a,b,c and keys containing '/'), remove(path), r+=s, r=s+t, reset. "
         "Model = nested std::map dictionaries: path writes create missing intermediate objects and must throw, leaving the value "
         "unchanged, when an intermediate is not an object; set() stores the literal key; += merges recursively, right side wins. "
         "After every step, for the target register and the operand registers (and for every register at the end): deep structural comparison through the const accessors, then for all 39 paths of "
         "depth<=3 plus deeper and literal-slash probes has(), const operator[], get<json>(path, sentinel), get<int>/get<string> "
         "where the kind matches or the path is missing, size(), keys(), dump() text (indent 2 and 0) equal to the model's dump and "
         "parse(dump()) deep-equal to the model, then the deep comparison again (reads created nothing). Non-trivial = history "
         "with a merge that meets a kind conflict (object vs non-object under the same key) or a both-object recursion, or a path "
         "write rejected because of a non-object intermediate. Distinct = distinct serialised history.",
    assumptions=["reads use only the const interface (const operator[], get, has, size, keys, object()); the non-const operator[] "
                 "is used only as an assignment target; how often a bare non-const read on a *copy* changes dump() is counted "
                 "in the class histogram (nonconst-bare-read-changes-dump), not judged",
                 "path components are non-empty and contain no backslash; none_ values are never stored",
                 "typed reads get<int>/get<string> are compared only where the stored kind matches or the path is missing",
                 "operands of = and += are copied first (no aliasing between a value and its own sub-tree)"])

m("C24", "exploration",
  "Property-based round-trip test: generated JSON trees (every primitive number type with extremes, finite floats/doubles from "
  "random bit patterns, strings and keys over an adversarial byte alphabet, nested arrays/objects) are built through the "
  "occa::json API, dumped with a generated indentation, parsed back and compared with json::operator== and with an independent "
  "model walk; determinism of dump()/hash() is checked across construction routes. Sampled search with shrinking, not a proof.",
  "Trusted: the 150-line model/comparison in harness/C24.cpp, rapidcheck, ASan/UBSan. Keys non-empty; no NaN/Inf/none_; "
  "embedded NUL is a listed known finding.",
  "property-based testing (rapidcheck): round-trip oracle + independent structural model comparison, under ASan/UBSan",
  "rapidcheck", "DESIGN.md §4 C24")

m("C25", "exploration",
  "Model-based stateful property test: generated histories of path assignments, literal-key set(), remove, += / + merges over "
  "three json registers are mirrored on a nested std::map model; after every step all paths up to depth 3 (and probes beyond) "
  "are read through the const interface (has, const operator[], get<T>, size, keys, dump) and compared, and a full structural "
  "comparison shows that reads created nothing. Sampled search with shrinking, not a proof.",
  "Trusted: the nested-map model (about 100 lines), rapidcheck, ASan/UBSan. Key alphabet {a,b,c} (+ literal keys with '/'), "
  "values int32/bool/null/simple strings/small arrays/objects.",
  "property-based testing (rapidcheck), stateful model-based histories vs nested std::map reference, exhaustive bounded reads per state",
  "rapidcheck", "DESIGN.md §4 C25")
