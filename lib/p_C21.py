"""C21 — OpenMP kernels are deterministic for every thread count / schedule and race free (C20 generator, OpenMP focus)."""
import v_okl
import p_C20
from meta import m
from props import REGISTRY

ARCHER = "/usr/lib/llvm-14/lib/libarcher.so"


def program(rnd):
    d = p_C20.program(rnd, atomic_p=0.8)
    # bias: several outer iterations (they are what OpenMP distributes), heavy @exclusive / @shared / @atomic use
    d["NO0"] = max(d["NO0"], rnd.choice([3, 4, 6, 9]))
    d["sibling"] = rnd.choice([None, None, "plain", "tile"])
    # general @atomic forms (plain assignment that reads its target, one- and two-statement blocks): OpenMP must make them critical
    # sections; the GPU back ends reject them ("Unable to transform general @atomic code"), which is why only C21 generates them
    # family: 0 = basic forms only (+=, -=), 1 = general forms only, 2 = free mix (basic forms are `omp atomic`, general ones `omp critical`;
    # the two do not exclude each other, mixing them on one cell lost updates until fix a7190ac)
    if d["atomic"]:
        for ph in d["phases"]:
            if rnd.random() < 0.5 and not any(s[0] == "atomic" for s in ph["stm"]):
                ph["stm"].append(("atomic", rnd.choice(["+=", "-="]), "(%s) %% %d" % (rnd.choice(["g", "li"]), p_C20.CN),
                                  "((g + %d) & 7)" % rnd.randint(0, 5), rnd.random() < 0.5))
    family = rnd.choice([0, 1, 1, 2, 2])
    for ph in d["phases"]:
        for i, s in enumerate(ph["stm"]):
            if s[0] == "atomic" and (family == 1 or (family == 2 and rnd.random() < 0.5)):
                ph["stm"][i] = (s[0], rnd.choice(GENERAL)) + tuple(s[2:])
    return d


GENERAL = ["=+", "{=+}", "{2}"]


def atomic_forms(d):
    ops = {s[1] for ph in d["phases"] for s in ph["stm"] if s[0] == "atomic"} if d.get("atomic") else set()
    return bool(ops - set(GENERAL)), bool(ops & set(GENERAL))


def nontrivial(d):
    f = p_C20.features(d)
    return bool(f & {"atomic", "exclusive", "shared+barrier"}) and d["NO0"] * d["NO1"] > 1


class C21Spec(p_C20.C20Spec):
    modes = ["serial", "openmp"]
    level = "exploration"
    quick, thorough = (4, 16), (200, 16)
    program = staticmethod(program)
    nontrivial = staticmethod(nontrivial)
    sanitize_bounds = False
    rule = ("case = OKL kernel from the C20 AST generator with >= 3 @outer iterations (nested outer, @exclusive, @shared, @atomic with heavy "
            "collisions on a 7-cell counter array: `+=`/`-=`, plain assignments that read their target, one- and two-statement @atomic blocks; sibling nests).  The OpenMP translation is compiled with g++ -fopenmp and run with "
            "OMP_NUM_THREADS in {1,2,3,4,7,8,16}, OMP_DYNAMIC off/on and OMP_SCHEDULE static/dynamic/guided with several chunk sizes (honoured by "
            "schedule(runtime) regions only; OCCA emits a plain parallel-for whose partition is the run time's default static one), 3 repetitions "
            "of the whole batch: every output array must equal the sequential reading (which the Serial translation must equal too).  The same "
            "translation is built with clang -fopenmp -fsanitize=thread and run under Archer with 4 and 16 threads: any ThreadSanitizer report "
            "(a non-atomic update of the counter, an @exclusive or @shared array shared between threads) is a violation.  Non-trivial = kernel "
            "with an @atomic, or with @exclusive/@shared, inside more than one outer iteration.")
    assume = ["thread counts and schedules are sampled; interleavings within a configuration are whatever the runs produce — race freedom is "
              "decided by the race detector observing the accesses, not by luck of the schedule",
              "libarcher (OMPT tool) makes ThreadSanitizer aware of libomp's synchronisation; clang/libomp is used for the race build, g++/libgomp "
              "for the value runs",
              "OCCA's OpenMP translation does not emit a schedule clause: OMP_SCHEDULE cannot change its partition (stated, not hidden)"]

    def variants(self, mode):
        if mode == "serial":
            return [("", "default", {})]
        v = []
        for rep in range(3):
            for t in (1, 2, 3, 4, 7, 8, 16):
                for dyn in ("false", "true"):
                    sched = ["static", "static,1", "dynamic,1", "dynamic,3", "guided,2"][(t + rep) % 5]
                    v.append(("threads=%d dynamic=%s schedule=%s rep=%d" % (t, dyn, sched, rep), "default",
                              {"OMP_NUM_THREADS": str(t), "OMP_DYNAMIC": dyn, "OMP_SCHEDULE": sched}))
        for t in (4, 16):
            v.append(("tsan threads=%d" % t, "tsan", {"OMP_NUM_THREADS": str(t), "OMP_TOOL_LIBRARIES": ARCHER,
                                                      "TSAN_OPTIONS": "ignore_noninstrumented_modules=1 halt_on_error=0 exitcode=0"}))
        return v

    def classes(self, d):
        gen = sorted({"atomic-form:" + s[1] for ph in d["phases"] for s in ph["stm"] if s[0] == "atomic"}) if d["atomic"] else []
        return p_C20.C20Spec.classes(self, d) + ["outer-iterations:%d" % (d["NO0"] * d["NO1"])] + gen


REGISTRY["C21"] = lambda prop, tier, replay, t0: v_okl.run_tv(C21Spec(), prop, tier, replay, t0)
m("C21", "exploration",
  "Generated kernels biased toward @exclusive/@shared/@atomic are translated to OpenMP, run for thread counts 1-16 with dynamic adjustment "
  "on/off and repeated, and compared with the sequential reading; the same translation is executed under ThreadSanitizer + Archer, so a "
  "race is caught when the conflicting accesses merely occur, not only when they corrupt a value.  Schedules are sampled, not enumerated.",
  "Trusted: g++/libgomp and clang/libomp, ThreadSanitizer + libarcher, the C20 sequential-reading emitter. OCCA emits no schedule clause, "
  "so only the thread count and the run time's default partition vary.",
  "property-based testing (Hypothesis-driven AST generator) + differential runs over thread counts + dynamic race detection (TSan/Archer)",
  "hypothesis + g++ -fopenmp + clang TSan/Archer", "DESIGN.md §4 C21")
