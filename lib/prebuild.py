"""Compile every harness once so that quick checks start warm."""
import glob, os, sys
sys.path.insert(0, os.path.dirname(os.path.abspath(__file__)))
import vlib
from concurrent.futures import ThreadPoolExecutor
vlib.ensure_build("asan")
vlib.ensure_build("tsan")
jobs = []
for src in sorted(glob.glob(os.path.join(vlib.VERIF, "harness", "C*.cpp"))):
    jobs.append((os.path.basename(src)[:-4], "rc"))
for src in sorted(glob.glob(os.path.join(vlib.VERIF, "harness", "fuzz_*.cpp"))):
    jobs.append((os.path.basename(src)[:-4], "fuzz"))
for src in sorted(glob.glob(os.path.join(vlib.VERIF, "harness", "w_*.cpp"))):
    jobs.append((os.path.basename(src)[:-4], "plain"))
def one(j):
    # a harness that does not build is not fatal for setup: its own check reports BUILD-ERROR when it is run
    try:
        vlib.build_harness(j[0], j[1], "tsan" if j[0] == "C30" else "asan")
        return 1
    except BaseException as e:
        print("prebuild: %s not built (%s)" % (j[0], str(e)[:120]))
        return 0


with ThreadPoolExecutor(max_workers=8) as ex:
    n = sum(ex.map(one, jobs))
print("prebuilt", n, "of", len(jobs), "harnesses")
