"""Compile every harness once so that quick checks start warm."""
import glob, os, sys
sys.path.insert(0, os.path.dirname(os.path.abspath(__file__)))
import vlib
from concurrent.futures import ThreadPoolExecutor
vlib.ensure_build("asan")
jobs = []
for src in sorted(glob.glob(os.path.join(vlib.VERIF, "harness", "C*.cpp"))):
    jobs.append((os.path.basename(src)[:-4], "rc"))
for src in sorted(glob.glob(os.path.join(vlib.VERIF, "harness", "fuzz_*.cpp"))):
    jobs.append((os.path.basename(src)[:-4], "fuzz"))
for src in sorted(glob.glob(os.path.join(vlib.VERIF, "harness", "w_*.cpp"))):
    jobs.append((os.path.basename(src)[:-4], "plain"))
with ThreadPoolExecutor(max_workers=8) as ex:
    list(ex.map(lambda j: vlib.build_harness(j[0], j[1]), jobs))
print("prebuilt", len(jobs), "harnesses")
