"""Hypothesis-driven differential checks with batched oracles (used by C13, C14; reusable).

Public API
----------
LangWorker(binary, wd, tag)            wrapper of the `w_lang` worker process (harness/w_lang.cpp)
    .call(op, cid, text, timeout=60)   -> response dict, or {"crash": <signature>, "kind": "crash"|"hang"}
                                          (the worker is restarted transparently; the crashing id is
                                          cross-checked with the side file the worker writes *before* a case)
    .close()
Spec                                   base class a property derives from (see the doc strings there)
run(spec, prop, tier, replay, t0, quick=, thorough=, level=, rule=, assumptions=)
                                       complete `bin/check` entry: build, regression replays, known
                                       findings, sharded search, shrinking, replay file, evidence, verdict
hyp_settings(n, shrink)                the settings object used everywhere (database=None, deadline=None,
                                       derandomize=False, report_multiple_bugs=False)
Counter                                exclusion counter strategies use for known-finding classes
                                       (`Counter.hit(slug)`; only counted in the generate pass)

How a search shard works (one OS process per shard, <= 16, seed = vlib.derive(VERIF_SEED, prop, shard)):
  pass 1  Hypothesis (`@seed`, Phase.generate only) produces the shard's N items; nothing is executed yet.
  batch   the distinct items are evaluated in batches of spec.batch (one worker round trip per item, the
          host tool amortised per batch by spec.evaluate); verdict per item: ok | fail | inconclusive.
  pass 2  only if some item failed: the same Hypothesis test, same seed, now answers from the verdict cache
          and raises on the first failing item; Hypothesis *shrinks that item* (candidates are evaluated
          singly, fresh worker state per case anyway) and the final minimal example is confirmed 3x in
          isolation and written as replay file replays/<ID>/violation_seed<S>_shard<i>.json.
  A failing batch is therefore always reduced to the single failing item before it becomes the replay, and
  `--replay file` re-evaluates exactly that item without Hypothesis.
Tiers are bounded by item counts only.  No wall clock, no RNG besides Hypothesis'.
"""
import hashlib
import json
import multiprocessing
import os
import re
import select
import subprocess
import sys
import time

import vlib

from hypothesis import HealthCheck, Phase, given, seed, settings

MAX_SHARDS = 16


# --------------------------------------------------------------------------------------------------
# worker process
# --------------------------------------------------------------------------------------------------
def hexs(s):
    return s.encode("utf-8", "surrogateescape").hex()


def unhex(h):
    return bytes.fromhex(h).decode("utf-8", "replace")


def exc_summary(text):
    """one line out of an occa::exception what() block: Function + Message"""
    fn = re.search(r"Function\s*:\s*(.*)", text)
    msg = re.search(r"Message\s*:\s*(.*)", text)
    if msg:
        return "%s: %s" % (fn.group(1).strip() if fn else "?", msg.group(1).strip())
    return text.strip().replace("\n", " ")[:200]


class LangWorker:
    """One `w_lang` process.  Requests are answered one at a time (write a line, read a line)."""

    def __init__(self, binary, wd, tag):
        self.binary, self.wd, self.tag = binary, wd, str(tag)
        self.cur = os.path.join(wd, "w_%s.cur" % self.tag)
        self.errlog = os.path.join(wd, "w_%s.err" % self.tag)
        self.p = None
        self.restarts = 0
        self.calls = 0

    def _start(self):
        env = vlib.base_env(self.wd, "w" + self.tag)
        env["W_LANG_CUR"] = self.cur
        # leaks are not part of the properties checked through this worker (C13/C14: values, tokens, crashes)
        # a runaway expansion must end as an abort of the worker, not as memory pressure on the machine
        env["ASAN_OPTIONS"] = env["ASAN_OPTIONS"].replace("detect_leaks=1", "detect_leaks=0") + ":hard_rss_limit_mb=3072"
        self.errf = open(self.errlog, "w")
        self.p = subprocess.Popen([self.binary], stdin=subprocess.PIPE, stdout=subprocess.PIPE,
                                  stderr=self.errf, env=env, bufsize=0)
        self.buf = b""

    def _reap(self, kill=False):
        if self.p is None:
            return None
        if kill:
            self.p.kill()
        try:
            self.p.stdin.close()
        except OSError:
            pass
        try:
            rc = self.p.wait(timeout=60)
        except subprocess.TimeoutExpired:
            self.p.kill()
            rc = self.p.wait()
        self.p.stdout.close()
        self.errf.close()
        self.p = None
        return rc

    def call(self, op, cid, text, timeout=60):
        return self.batch(op, [(cid, text)], timeout)[0]

    CRASH_BUDGET = 8

    def batch(self, op, cases, timeout=60):
        """cases = [(id, text)] -> list of answers in order.  The requests are pipelined (written while answers are
        read), so a loaded machine costs one scheduling round trip per batch, not per case.  `timeout` is the
        watchdog for a *single* case (time without any new answer).  After a crash/hang the worker is restarted
        and the remaining cases are sent again.  Once this worker object has seen CRASH_BUDGET crashes/hangs the
        remaining cases of the batch are not executed any more (answer kind "skipped"): the violation is
        established and every further crash costs a process start plus a symbolised sanitizer report."""
        answers = []
        todo = list(cases)
        while todo:
            if self.restarts >= self.CRASH_BUDGET and len(cases) > 1:
                answers += [{"crash": "not executed: crash budget of this worker exhausted", "kind": "skipped", "id": c}
                            for c, _ in todo]
                break
            got, why = self._pump(op, todo, timeout)
            answers += got
            todo = todo[len(got):]
            if why is None:
                continue
            cid = todo[0][0]
            if why == "timeout":
                self._reap(kill=True)
                self.restarts += 1
                answers.append({"crash": "no answer within %ds (watchdog)" % timeout, "kind": "hang", "id": cid})
            elif why == "eof":
                rc = self._reap()
                self.restarts += 1
                try:
                    cur = open(self.cur).read().strip()
                except OSError:
                    cur = "?"
                err = open(self.errlog, errors="replace").read()
                sig = vlib.crash_signature(err)
                if rc is not None and rc < 0:
                    sig = "signal %d; %s" % (-rc, sig)
                answers.append({"crash": sig + ("" if cur == cid else " [side file names case %s]" % cur),
                                "kind": "crash", "id": cid, "log": err[-3000:]})
            else:
                self._reap(kill=True)
                self.restarts += 1
                answers.append({"crash": why, "kind": "crash", "id": cid})
            todo = todo[1:]
        return answers

    def _pump(self, op, todo, timeout):
        """send all of `todo`, collect answers; -> (answers, None | "timeout" | "eof" | text)"""
        if self.p is None:
            self._start()
        self.calls += len(todo)
        data = b"".join(("%s %s %s\n" % (op, cid, hexs(text))).encode() for cid, text in todo)
        wfd, rfd = self.p.stdin.fileno(), self.p.stdout.fileno()
        os.set_blocking(wfd, False)
        got = []
        sent = 0
        while len(got) < len(todo):
            wl = [wfd] if sent < len(data) else []
            r, w_, _ = select.select([rfd], wl, [], timeout)
            if not r and not w_:
                return got, "timeout"
            if w_:
                try:
                    sent += os.write(wfd, data[sent:sent + (1 << 16)])
                except BlockingIOError:
                    pass
                except (BrokenPipeError, OSError):
                    sent = len(data)      # the reader side will see EOF
            if r:
                chunk = os.read(rfd, 1 << 16)
                if not chunk:
                    return got, "eof"
                self.buf += chunk
                while b"\n" in self.buf and len(got) < len(todo):
                    line, self.buf = self.buf.split(b"\n", 1)
                    try:
                        resp = json.loads(line.decode())
                    except ValueError:
                        return got, "unparsable answer %r" % line[:200]
                    want = todo[len(got)][0]
                    if resp.get("id") != want:
                        return got, "answer for id %s while waiting for %s" % (resp.get("id"), want)
                    got.append(resp)
        return got, None

    def close(self):
        """Returns None on a clean exit, else a description (e.g. LeakSanitizer report at exit)."""
        if self.p is None:
            return None
        try:
            self.p.stdin.write(b"quit - -\n")
            self.p.stdin.flush()
        except (BrokenPipeError, OSError):
            pass
        rc = self._reap()
        if rc not in (0, None):
            err = open(self.errlog, errors="replace").read()
            return "worker exit code %s at shutdown: %s" % (rc, vlib.crash_signature(err))
        return None


# --------------------------------------------------------------------------------------------------
# spec
# --------------------------------------------------------------------------------------------------
class Counter:
    """Known-finding exclusion counters.  Strategies call Counter.hit(slug) whenever they turn away from an
    input class because it is a listed known finding.  Counting is active in the generate pass only."""
    active = False
    counts = {}

    @classmethod
    def hit(cls, slug):
        if cls.active:
            cls.counts[slug] = cls.counts.get(slug, 0) + 1

    @classmethod
    def reset(cls):
        cls.counts = {}


class Spec:
    """What a property supplies.  An *item* is a JSON-serialisable value (dict/list/str/int)."""
    batch = 100          # items per spec.evaluate call in the batch phase
    harness = "w_lang"   # worker binary (built with vlib.build_harness(harness, kind="plain"))

    def strategy(self, known_ids):
        """Hypothesis strategy producing one item; must avoid (and Counter.hit) the classes in known_ids."""
        raise NotImplementedError

    def text(self, item):
        """Human-readable rendering of the item (used for samples, distinctness and messages)."""
        raise NotImplementedError

    def classify(self, item):
        """-> (list of class names for the histogram, is_nontrivial)"""
        return [], True

    def open(self, wd, tag, binary):
        """Per-process context (worker, scratch dir)."""
        return {"worker": LangWorker(binary, wd, tag), "wd": wd, "tag": str(tag), "n": 0}

    def close(self, ctx):
        return ctx["worker"].close()

    def reduce(self, item, fails):
        """optional post-pass after Hypothesis' shrinking: -> smaller item for which fails(item) is still True
        (e.g. line-based delta debugging of a program text).  Default: nothing."""
        return item

    def evaluate(self, ctx, items, shrinking=False):
        """-> list of verdict dicts, one per item, in order:
        {"status": "ok"|"fail"|"inconclusive", "what": text, ...}.  Must give every item fresh state.
        shrinking=True: called from Hypothesis' shrink phase with one candidate; the spec may use a cheaper
        decision (e.g. its reference evaluator instead of the host compiler) because the final minimal example is
        always re-judged with shrinking=False before it is reported."""
        raise NotImplementedError


def ddmin(parts, fails, budget=400):
    """classic delta debugging over a list; fails(list) -> bool; returns a 1-minimal (within budget) sublist"""
    n, tries = 2, 0
    while len(parts) >= 2 and tries < budget:
        chunk = max(1, len(parts) // n)
        reduced = False
        for i in range(0, len(parts), chunk):
            cand = parts[:i] + parts[i + chunk:]
            tries += 1
            if cand and fails(cand):
                parts, n, reduced = cand, max(n - 1, 2), True
                break
            if tries >= budget:
                break
        if not reduced:
            if chunk == 1:
                break
            n = min(n * 2, len(parts))
    return parts


# Hypothesis stops shrinking after this many seconds (library constant, default 300); it only bounds how small the
# reported example gets, never the verdict
try:
    import hypothesis.internal.conjecture.engine as _eng
    _eng.MAX_SHRINKING_SECONDS = 90
except Exception:  # pragma: no cover
    pass


def hyp_settings(n, shrink):
    return settings(max_examples=n, database=None, deadline=None, derandomize=False, report_multiple_bugs=False,
                    suppress_health_check=list(HealthCheck), print_blob=False,
                    phases=([Phase.generate, Phase.shrink] if shrink else [Phase.generate]))


def _key(spec, item):
    return hashlib.sha1(spec.text(item).encode("utf-8", "replace")).hexdigest()[:20]


def _eval_batches(spec, ctx, items):
    out = []
    for i in range(0, len(items), spec.batch):
        out.extend(spec.evaluate(ctx, items[i:i + spec.batch]))
    return out


def _confirm(spec, wd, tag, binary, item, times=3):
    """Re-evaluate one item in fresh worker processes; -> (list of statuses, last failing verdict or last verdict)."""
    sts, keep = [], None
    for k in range(times):
        ctx = spec.open(wd, "%s_c%d" % (tag, k), binary)
        try:
            v = spec.evaluate(ctx, [item])[0]
        finally:
            spec.close(ctx)
        sts.append(v["status"])
        if v["status"] == "fail" or keep is None:
            keep = v
    return sts, keep


def _shard(spec, prop, shard, n, wd, binary, known_ids, respath):
    res = {"evaluations": 0, "nontrivial": [], "classes": {}, "excluded": {}, "samples": [], "inconclusive": 0,
           "inconclusive_samples": [], "violation": None, "notes": [], "worker_restarts": 0}
    try:
        sd = vlib.derive(vlib.seed(), prop, shard)
        strat = spec.strategy(known_ids)
        items = []

        @seed(sd)
        @hyp_settings(n, False)
        @given(strat)
        def collect(x):
            items.append(x)

        Counter.reset()
        Counter.active = True
        collect()
        Counter.active = False
        res["excluded"] = dict(Counter.counts)

        # distinct items, first-occurrence order
        seen, uniq = set(), []
        for it in items:
            k = _key(spec, it)
            if k not in seen:
                seen.add(k)
                uniq.append(it)
        ctx = spec.open(wd, "s%d" % shard, binary)
        try:
            verdicts = _eval_batches(spec, ctx, uniq)
        finally:
            bye = spec.close(ctx)
        res["worker_restarts"] = ctx["worker"].restarts
        cache = {}
        nt_sample = False
        for it, v in zip(uniq, verdicts):
            k = _key(spec, it)
            cache[k] = v
            res["evaluations"] += 1
            classes, nt = spec.classify(it)
            for c in classes:
                res["classes"][c] = res["classes"].get(c, 0) + 1
            if v["status"] == "inconclusive":
                res["inconclusive"] += 1
                if len(res["inconclusive_samples"]) < 3:
                    res["inconclusive_samples"].append({"item": spec.text(it), "why": v.get("what", "")})
            if nt and v["status"] != "inconclusive":
                res["nontrivial"].append(k)
            if len(res["samples"]) < 3 or (nt and not nt_sample and len(res["samples"]) < 4):
                res["samples"].append(spec.text(it))
                nt_sample = nt_sample or nt
        failing = [(it, v) for it, v in zip(uniq, verdicts) if v["status"] == "fail"]
        if bye and not failing:
            # e.g. LeakSanitizer at exit: attribute by re-running items singly is not possible; report as is
            res["violation"] = {"item": None, "what": bye, "text": "(whole shard)"}
        if failing:
            last = {}
            c2 = spec.open(wd, "s%d_v" % shard, binary)

            @seed(sd)
            @hyp_settings(n, True)
            @given(strat)
            def verify(x):
                k = _key(spec, x)
                v = cache.get(k)
                if v is None:
                    v = spec.evaluate(c2, [x], shrinking=True)[0]
                    cache[k] = v
                if v["status"] == "fail":
                    last["item"], last["v"] = x, v
                    raise AssertionError(v["what"])

            try:
                verify()
            except AssertionError:
                pass
            except Exception as e:  # Hypothesis-internal complaint (e.g. flaky): fall back to the batch failure
                res["notes"].append("shrink pass raised %s: %s" % (type(e).__name__, str(e)[:200]))
            finally:
                spec.close(c2)
            first = False
            try:
                os.close(os.open(os.path.join(wd, "reduce.lock"), os.O_CREAT | os.O_EXCL | os.O_WRONLY))
                first = True
            except OSError:
                pass
            if "item" in last and first:
                # delta-debugging post-pass (same failure kind required); only the first shard that gets here
                # pays for it, the other shards report their Hypothesis-shrunk example as it is
                kind = last["v"].get("kind")
                c3 = spec.open(wd, "s%d_r" % shard, binary)

                def fails(cand):
                    v = spec.evaluate(c3, [cand], shrinking=True)[0]
                    return v["status"] == "fail" and v.get("kind") == kind
                try:
                    last["item"] = spec.reduce(last["item"], fails)
                finally:
                    spec.close(c3)
            if "item" not in last:
                last["item"], last["v"] = failing[0]
                res["notes"].append("verify pass did not reproduce the failure; unshrunk item reported")
            sts, v = _confirm(spec, wd, "s%d" % shard, binary, last["item"])
            if not all(s == "fail" for s in sts):
                # keep the originally failing item if the shrunk one is not stable
                sts0, v0 = _confirm(spec, wd, "s%d_o" % shard, binary, failing[0][0])
                res["notes"].append("shrunk item outcomes %s, original item outcomes %s" % (sts, sts0))
                if all(s == "fail" for s in sts0):
                    last["item"], v, sts = failing[0][0], v0, sts0
            res["violation"] = {"item": last["item"], "what": v.get("what", ""), "text": spec.text(last["item"]),
                                "outcomes": sts, "failing_items_in_shard": len(failing), "detail": v}
    except BaseException as e:  # noqa
        import traceback
        res["error"] = "%s: %s\n%s" % (type(e).__name__, e, traceback.format_exc()[-3000:])
    with open(respath + ".tmp", "w") as f:
        json.dump(res, f, default=str)
    os.replace(respath + ".tmp", respath)


# --------------------------------------------------------------------------------------------------
# replay files
# --------------------------------------------------------------------------------------------------
def write_replay(path, prop, item, text, what):
    with open(path, "w") as f:
        json.dump({"property": prop, "item": item, "text": text, "what": what}, f, indent=1, sort_keys=True)
        f.write("\n")


def read_replay(path):
    return json.load(open(path))["item"]


def replay_one(spec, wd, binary, path, tag):
    item = read_replay(path)
    ctx = spec.open(wd, tag, binary)
    try:
        v = spec.evaluate(ctx, [item])[0]
    finally:
        bye = spec.close(ctx)
    if bye and v["status"] == "ok":
        v = {"status": "fail", "what": bye}
    return item, v


def replay_many(spec, wd, binary, items, tag):
    if not items:
        return []
    ctx = spec.open(wd, tag, binary)
    try:
        vs = _eval_batches(spec, ctx, items)
    finally:
        spec.close(ctx)
    return vs


# --------------------------------------------------------------------------------------------------
# full check
# --------------------------------------------------------------------------------------------------
def run(spec, prop, tier, replay, t0, quick, thorough, level, rule, assumptions, shards=MAX_SHARDS):
    """quick/thorough = total number of generated items for the tier."""
    vlib.ensure_build("asan")
    binary = vlib.build_harness(spec.harness, kind="plain")
    wd = vlib.workdir(prop)
    try:
        if replay:
            item, v = replay_one(spec, wd, binary, os.path.abspath(replay), "user")
            print(spec.text(item))
            print("replay verdict: %s %s" % (v["status"], v.get("what", "")))
            if v["status"] == "fail":
                print("VIOLATION property=%s replay=%s" % (prop, os.path.abspath(replay)))
                return 1
            return 0

        out = vlib.Outcome()
        findings = vlib.known_findings(prop)
        known_ids = sorted(f.id for f in findings)
        rdir = os.path.join(vlib.VERIF, "replays", prop)
        known_files = set()
        # 1. known findings: still failing => KNOWN-FINDING line  (all replays of a kind are judged in one batch)
        kf = []
        for f in findings:
            if f.replay == "-":
                continue
            path = os.path.normpath(os.path.join(vlib.VERIF, f.replay))
            known_files.add(path)
            if not os.path.exists(path):
                out.notes.append("known finding %s: replay file missing" % f.id)
                continue
            kf.append((f, read_replay(path)))
        for (f, _), v in zip(kf, replay_many(spec, wd, binary, [it for _, it in kf], "k")):
            if v["status"] == "fail":
                print("KNOWN-FINDING: property=%s %s [%s]" % (prop, f.text, f.id), flush=True)
                out.known_printed.append(f.id)
            else:
                out.notes.append("known finding %s no longer reproduces (replay verdict %s)" % (f.id, v["status"]))
        # 2. regression inputs: must pass
        reg = []
        if os.path.isdir(rdir):
            for fn in sorted(os.listdir(rdir)):
                path = os.path.normpath(os.path.join(rdir, fn))
                if not fn.endswith(".case") or path in known_files or fn.startswith("violation_"):
                    continue
                if fn.startswith("known_"):
                    # replay of a finding that is not (or no longer) listed: informational only
                    continue
                reg.append((path, fn, read_replay(path)))
        for (path, fn, _), v in zip(reg, replay_many(spec, wd, binary, [it for _, _, it in reg], "g")):
            if v["status"] == "fail":
                out.violations.append((path, "regression input fails: " + v.get("what", "")[:300]))
            elif v["status"] != "ok":
                out.notes.append("regression input %s is inconclusive: %s" % (fn, v.get("what", "")[:200]))
        out.extra["regression_replays"] = len(reg)

        # 3. search
        total = quick if tier == "quick" else thorough
        # development aids (never set by the registered commands)
        total = int(os.environ.get("VERIF_HYP_ITEMS", total))
        shards = int(os.environ.get("VERIF_HYP_SHARDS", shards))
        shards = max(1, min(shards, MAX_SHARDS, vlib.NCPU))
        per = (total + shards - 1) // shards
        ctxm = multiprocessing.get_context("fork")
        procs = []
        for i in range(shards):
            rp = os.path.join(wd, "shard%d.json" % i)
            p = ctxm.Process(target=_shard, args=(spec, prop, i, per, wd, binary, known_ids, rp))
            p.start()
            procs.append((i, p, rp))
        seen_v = set()
        inconclusive = 0
        inc_samples = []
        restarts = 0
        for i, p, rp in procs:
            p.join()
            if not os.path.exists(rp):
                out.violations.append((wd, "shard %d died without a result (exit code %s)" % (i, p.exitcode)))
                continue
            res = json.load(open(rp))
            if res.get("error"):
                raise SystemExit("HARNESS-ERROR: shard %d of %s: %s" % (i, prop, res["error"]))
            out.merge_stats(res)
            inconclusive += res["inconclusive"]
            inc_samples += res["inconclusive_samples"]
            restarts += res["worker_restarts"]
            out.notes += ["shard %d: %s" % (i, n) for n in res["notes"]]
            viol = res["violation"]
            if viol:
                if viol["item"] is None:
                    out.violations.append((wd, "shard %d: %s" % (i, viol["what"])))
                    continue
                if viol["text"] in seen_v:
                    continue
                seen_v.add(viol["text"])
                os.makedirs(rdir, exist_ok=True)
                dst = os.path.join(rdir, "violation_seed%d_shard%d.json" % (vlib.seed(), i))
                write_replay(dst, prop, viol["item"], viol["text"], viol["what"])
                what = viol["what"]
                if not all(s == "fail" for s in viol.get("outcomes", [])):
                    what += "  [isolated re-runs: %s]" % viol.get("outcomes")
                out.violations.append((dst, what + "  | input: " + viol["text"][:600].replace("\n", "\\n")))
        out.extra["inconclusive"] = inconclusive
        if inc_samples:
            out.extra["inconclusive_samples"] = inc_samples[:5]
        out.extra["worker_restarts_after_crash"] = restarts
        out.extra["shards"] = shards
        out.extra["items_per_shard"] = per
        out.extra["engine"] = ("Hypothesis %s, %d processes, seeds vlib.derive(VERIF_SEED, %s, shard); "
                               "generate pass + batched oracle + shrinking verify pass" %
                               (__import__("hypothesis").__version__, shards, prop))
        return vlib.finish(prop, tier, level, out, rule, t0,
                           assumptions + ["libocca built from the repo working tree with clang ASan+UBSan (asan variant)"])
    finally:
        vlib.cleanup(wd)
