"""C01 (handle histories) and C02 (memory byte-array model)."""
from meta import m
from props import REGISTRY, rc_property

_NOLEAK = {"ASAN_OPTIONS": "detect_leaks=0:abort_on_error=0:detect_stack_use_after_return=0:handle_segv=1:allocator_may_return_null=1:symbolize=1"}

REGISTRY["C01"] = rc_property(
    "C01", quick=(600, 40), thorough=(20000, 120), extra_env=_NOLEAK,
    rule="case = history over 3 device, 6 memory, 3 memoryPool, 4 kernel and 4 stream handle variables on Serial/OpenMP devices: "
         "create (device / malloc / createMemoryPool / buildKernelFromString / createStream), assign, copy-construct, self-assign, "
         "destroy handle, assign empty, free(), dontUseRefs, swap (memory, memoryPool), slice, pool reserve, getStream/setStream. "
         "After every step: isInitialized() of every handle, the guarded live-object counters per kind (device, buffer, memory, "
         "memoryPool, kernel, stream) and memoryAllocated() must equal a reference model (objects with their set of referring "
         "handles, parent/child cascade); at the end every handle is dropped: counters back to the start values; ASan turns any touch-after-destroy into a failure. Non-trivial = history with a swap of two different objects or "
         "a free() while >=2 handles refer to the object. Distinct = distinct serialised history.",
    assumptions=["free() is not called on the stream a device currently uses (it would leave the device without a stream)",
                 "objects put under dontUseRefs keep one extra harness-owned handle so that they can be freed explicitly at the end",
                 "a device is only given (setStream) its own live streams"])

REGISTRY["C02"] = rc_property(
    "C02", quick=(1500, 40), thorough=(50000, 80),
    rule="case = history over 8 memory handle variables on a Serial or OpenMP device: malloc<T> (with/without source), wrapMemory, "
         "slice / operator+ / += , cast to dtypes of 1,2,4,8,12,16 bytes, clone, copyFrom/copyTo host pointers, copyFrom/copyTo between "
         "memories; every offset/count argument is drawn 70 % valid and 30 % from {-1, other negatives, one past the end, 2^40}. "
         "Valid requests are applied to a byte-array model (allocations + aliasing views) and after every step every live view is read "
         "back in full and compared byte for byte (wrapped host buffers too); invalid requests must raise occa::exception and leave "
         "all memory unchanged; exact-size host buffers under ASan make any out-of-range access a failure. Non-trivial = history with "
         "an invalid request, or a read through another alias after a write through a slice. Distinct = distinct serialised history.",
    assumptions=["copy(memory, memory): count is in elements of the caller, each offset in elements of its own memory (as documented); "
                 "overlapping byte ranges are not generated (memcpy semantics)",
                 "count -1 ('all elements') is requested from offset 0 only",
                 "operations whose receiver is an uninitialized handle may raise or be a no-op (both are accepted; a crash is not); "
                 "a memory-to-memory copy with exactly one uninitialized side must raise"])

_T = "property-based testing (rapidcheck), stateful model-based histories; oracle = "
m("C01", "exploration",
  "Generated handle histories executed against the real handle classes and a reference model of backend objects and the handles "
  "that refer to them; compared after every step through public isInitialized()/memoryAllocated() and the guarded live-object "
  "counters, under ASan+LSan so that use-after-destroy, double destroy and leaks fail the case. Sampled search with shrinking.",
  "Trusted: the reference model of ownership (devices own buffers/pools/kernels/streams; pools own reservations), the hook "
  "counters (LIBOCCA_OCCA_VERIF), ASan/LSan. Host modes only.",
  _T + "ownership/reference model + live-object counters + ASan/LSan", "rapidcheck", "DESIGN.md §4 C01")
m("C02", "exploration",
  "Generated memory histories with a deliberately high rate of invalid arguments, checked against a byte-array model with aliasing "
  "views after every step; raising without modification is required for invalid requests; ASan on exact-size buffers.",
  "Trusted: byte-array model, ASan. Host modes only (Serial, OpenMP).",
  _T + "byte-array reference model with aliasing views; error-contract oracle for invalid requests", "rapidcheck", "DESIGN.md §4 C02")
