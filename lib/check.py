#!/usr/bin/env python3
"""check <ID> <quick|thorough> [--replay <file>]   — the only entry point registered in MANIFEST.json."""
import importlib
import os
import sys
import time

sys.path.insert(0, os.path.dirname(os.path.abspath(__file__)))
import vlib  # noqa: E402


def main():
    if len(sys.argv) < 3:
        print("usage: check <ID> <quick|thorough> [--replay file]", file=sys.stderr)
        return 2
    prop, tier = sys.argv[1], sys.argv[2]
    replay = None
    if "--replay" in sys.argv:
        replay = sys.argv[sys.argv.index("--replay") + 1]
    os.environ["VERIF_TIER"] = tier
    import props
    props._load_modules()
    spec = props.REGISTRY.get(prop)
    if spec is None:
        print("unknown property %s" % prop, file=sys.stderr)
        return 2
    t0 = time.time()
    return spec(prop, tier, replay, t0)


if __name__ == "__main__":
    sys.exit(main())
