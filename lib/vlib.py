"""Shared runner machinery: builds, shard execution, replay, minimisation, known findings, evidence."""
import hashlib
import json
import os
import re
import shutil
import subprocess
import sys
import time
from concurrent.futures import ThreadPoolExecutor

VERIF = os.path.dirname(os.path.dirname(os.path.abspath(__file__)))
REPO = os.environ.get("VERIF_REPO", "/repo")
BUILD = os.environ.get("VERIF_BUILD", os.path.join(VERIF, "build"))
HB = os.path.join(BUILD, "h")
NCPU = int(os.environ.get("VERIF_JOBS", "16"))
RC_CHUNK = int(os.environ.get("VERIF_RC_CHUNK", "4000"))     # cases per rapidcheck process (see run_rc)

CLANG_SAN = ["-fsanitize=address,undefined", "-fno-sanitize-recover=undefined", "-fno-omit-frame-pointer"]


def seed():
    try:
        return int(os.environ.get("VERIF_SEED", "1"))
    except ValueError:
        return 1


def derive(*parts):
    h = hashlib.sha256(("/".join(str(p) for p in parts)).encode()).digest()
    return int.from_bytes(h[:4], "little") & 0x7FFFFFFF or 1


def log(*a):
    print(*a, file=sys.stderr, flush=True)


def sh(cmd, **kw):
    return subprocess.run(cmd, stdout=subprocess.PIPE, stderr=subprocess.STDOUT, text=True, errors="replace", **kw)


# ------------------------------------------------------------------------------------------------
# builds
# ------------------------------------------------------------------------------------------------
def ensure_build(variant="asan"):
    r = sh([os.path.join(VERIF, "bin", "ensure_build"), variant])
    if r.returncode != 0:
        log(r.stdout)
        raise SystemExit("BUILD-ERROR: libocca variant %s does not build from %s (exit %d); not a property verdict"
                         % (variant, REPO, r.returncode))
    return os.path.join(BUILD, variant)


def libocca(variant="asan"):
    return os.path.join(BUILD, variant, "lib", "libocca.so")


def _deps_newer(depfile, target_mtime):
    try:
        txt = open(depfile).read()
    except OSError:
        return True
    txt = txt.replace("\\\n", " ")
    parts = txt.split(":", 1)
    if len(parts) < 2:
        return True
    for d in parts[1].split():
        try:
            if os.path.getmtime(d) > target_mtime:
                return True
        except OSError:
            return True
    return False


def build_harness(name, kind="rc", variant="asan", extra=None, src=None):
    """Compile harness/<name>.cpp against the <variant> libocca.  Rebuilt when any dependency
    (from the -MD file, which includes every /repo header it uses) or libocca.so is newer."""
    os.makedirs(HB, exist_ok=True)
    src = src or os.path.join(VERIF, "harness", name + ".cpp")
    out = os.path.join(HB, name + ("" if variant == "asan" else "." + variant))
    dep = out + ".d"
    lib = libocca(variant)
    need = True
    if os.path.exists(out):
        mt = os.path.getmtime(out)
        need = os.path.getmtime(lib) > mt or _deps_newer(dep, mt)
    if not need:
        return out
    bdir = os.path.join(BUILD, variant)
    cmd = ["clang++", "-std=gnu++17", "-g", "-O1", "-w", "-DLIBOCCA_OCCA_VERIF", "-UNDEBUG",
           "-I" + os.path.join(REPO, "include"), "-I" + os.path.join(bdir, "include"),
           "-I" + os.path.join(REPO, "src"), "-I" + os.path.join(VERIF, "harness"),
           "-MD", "-MF", dep, src, "-o", out + ".tmp",
           "-L" + os.path.join(bdir, "lib"), "-locca", "-Wl,-rpath," + os.path.join(bdir, "lib"), "-lpthread", "-ldl"]
    if variant == "asan":
        if kind == "fuzz":
            cmd += ["-fsanitize=fuzzer,address,undefined", "-fno-sanitize-recover=undefined", "-fno-omit-frame-pointer"]
        else:
            cmd += CLANG_SAN
    elif variant == "tsan":
        cmd += ["-fsanitize=thread", "-fno-omit-frame-pointer"]
    if kind == "rc":
        cmd += ["-lrapidcheck"]
    if extra:
        cmd += extra
    r = sh(cmd)
    if r.returncode != 0:
        log(r.stdout[-6000:])
        raise SystemExit("BUILD-ERROR: harness %s does not compile against the current tree; not a property verdict" % name)
    os.replace(out + ".tmp", out)
    return out


# ------------------------------------------------------------------------------------------------
# work dirs
# ------------------------------------------------------------------------------------------------
WORK = os.environ.get("VERIF_WORK", os.path.join(VERIF, "work"))


def workdir(prop):
    d = os.path.join(WORK, prop, str(os.getpid()))
    shutil.rmtree(d, ignore_errors=True)
    os.makedirs(d)
    return d


def cleanup(d):
    shutil.rmtree(d, ignore_errors=True)
    try:
        os.rmdir(os.path.dirname(d))
    except OSError:
        pass


def base_env(wd, tag="0"):
    e = dict(os.environ)
    cache = os.path.join(wd, "cache" + str(tag))
    e["OCCA_CACHE_DIR"] = cache
    e["OCCA_VERBOSE"] = "0"
    e["ASAN_OPTIONS"] = "detect_leaks=1:abort_on_error=0:detect_stack_use_after_return=0:handle_segv=1:allocator_may_return_null=1:symbolize=1"
    e["UBSAN_OPTIONS"] = "print_stacktrace=1:halt_on_error=1"
    e["LSAN_OPTIONS"] = "suppressions=%s:print_suppressions=0" % os.path.join(VERIF, "lib", "lsan.supp")
    e["ASAN_SYMBOLIZER_PATH"] = "/usr/bin/llvm-symbolizer-14"
    e.pop("VERIF_KNOWN", None)
    return e


# ------------------------------------------------------------------------------------------------
# known findings
# ------------------------------------------------------------------------------------------------
class Finding:
    def __init__(self, prop, fid, replay, text):
        self.prop, self.id, self.replay, self.text = prop, fid, replay, text


def known_findings(prop):
    """lines:  known: property=C14 id=<slug> replay=<path relative to /verif or -> :: <what fails>"""
    out = []
    p = os.path.join(VERIF, "KNOWN_FINDINGS.txt")
    if not os.path.exists(p):
        return out
    for line in open(p):
        line = line.strip()
        if not line.startswith("known:"):
            continue
        m = re.match(r"known:\s+property=(\S+)\s+id=(\S+)\s+replay=(\S+)\s*::\s*(.*)", line)
        if m and m.group(1) == prop:
            out.append(Finding(m.group(1), m.group(2), m.group(3), m.group(4)))
    return out


# ------------------------------------------------------------------------------------------------
# rapidcheck shards
# ------------------------------------------------------------------------------------------------
def run_proc(cmd, env, timeout, logfile):
    t0 = time.time()
    with open(logfile, "w") as lf:
        try:
            p = subprocess.run(cmd, env=env, stdout=lf, stderr=subprocess.STDOUT, timeout=timeout)
            rc = p.returncode
        except subprocess.TimeoutExpired:
            rc = "timeout"
    return rc, time.time() - t0


def replay_case(binary, casefile, wd, known="", timeout=300, tag="r", extra_env=None):
    env = base_env(wd, tag)
    env["VERIF_KNOWN"] = known
    env.pop("VERIF_STATS", None)
    if extra_env:
        env.update(extra_env)
    lf = os.path.join(wd, "replay_%s.log" % tag)
    rc, _ = run_proc([binary, "--replay", casefile], env, timeout, lf)
    out = open(lf, errors="replace").read()
    if rc == 0:
        return "pass", out
    if rc == 1 and "REPLAY-FAIL" in out:
        return "fail", out
    if rc == "timeout":
        return "hang", out
    return "crash", out


def crash_signature(out):
    m = re.search(r"(ERROR: AddressSanitizer: [\w-]+|runtime error: [^\n]*|ERROR: LeakSanitizer[^\n]*|SUMMARY: [^\n]*)", out)
    kind = m.group(1) if m else "abnormal exit"
    frames = re.findall(r"#\d+ 0x[0-9a-f]+ in (occa::[\w:~<>]+)", out)
    return kind.strip()[:160] + (" @ " + " < ".join(frames[:3]) if frames else "")


def ddmin_lines(binary, casefile, wd, known="", want=("crash", "fail", "hang"), budget=60, timeout=120, extra_env=None):
    """Generic line-based delta debugging for cases the library could not shrink (sanitizer aborts)."""
    lines = [l for l in open(casefile).read().split("\n") if l.strip()]
    tmp = os.path.join(wd, "ddmin.case")

    def bad(ls):
        open(tmp, "w").write("\n".join(ls) + "\n")
        st, _ = replay_case(binary, tmp, wd, known, timeout=timeout, tag="dd", extra_env=extra_env)
        return st in want

    n = 2
    tries = 0
    while len(lines) >= 2 and tries < budget:
        chunk = max(1, len(lines) // n)
        reduced = False
        for i in range(0, len(lines), chunk):
            cand = lines[:i] + lines[i + chunk:]
            tries += 1
            if cand and bad(cand):
                lines = cand
                n = max(n - 1, 2)
                reduced = True
                break
            if tries >= budget:
                break
        if not reduced:
            if chunk == 1:
                break
            n = min(n * 2, len(lines))
    open(casefile, "w").write("\n".join(lines) + "\n")
    return len(lines)


class Outcome:
    def __init__(self):
        self.evaluations = 0
        self.nontrivial = set()
        self.classes = {}
        self.excluded = {}
        self.samples = []
        self.violations = []      # list of (replay_path, text)
        self.known_printed = []
        self.notes = []
        self.extra = {}

    def merge_stats(self, st):
        self.evaluations += st.get("evaluations", 0)
        self.nontrivial.update(st.get("nontrivial", []))
        for k, v in st.get("classes", {}).items():
            self.classes[k] = self.classes.get(k, 0) + v
        for k, v in st.get("excluded", {}).items():
            self.excluded[k] = self.excluded.get(k, 0) + v
        for s in st.get("samples", []):
            if len(self.samples) < 8 and s not in self.samples:
                self.samples.append(s)


def save_replay(prop, src, name):
    d = os.path.join(VERIF, "replays", prop)
    os.makedirs(d, exist_ok=True)
    dst = os.path.join(d, name)
    shutil.copyfile(src, dst)
    return dst


def run_rc(prop, binary, wd, out, per_shard, max_size, shards=NCPU, known_ids=(), timeout=3600, extra_env=None,
           tier="quick"):
    """Run `shards` rapidcheck processes with seeds derived from VERIF_SEED; triage failures."""
    known = ",".join(known_ids)

    # A shard runs as successive processes of at most RC_CHUNK cases (own derived seed each): the harnesses run under ASan with leak
    # detection off where OCCA leaks by design, so one process per 120 000 cases grew to several GB and was killed by the kernel's
    # OOM killer in the first thorough runs.  Quick tiers (<= RC_CHUNK cases per shard) are one process per shard, as before.
    rounds = max(1, -(-per_shard // RC_CHUNK))

    def one(i):
        rc, dt, left, r = 0, 0.0, per_shard, 0
        sts = []
        while left > 0 and rc == 0:
            n = min(left, RC_CHUNK) if rounds > 1 else left
            env = base_env(wd, i)
            env["RC_PARAMS"] = "seed=%d max_success=%d max_size=%d" % (derive(seed(), prop, i) if r == 0 else derive(seed(), prop, i, r),
                                                                        n, max_size)
            env["VERIF_STATS"] = os.path.join(wd, "s%d.json" % i)
            env["VERIF_CUR"] = os.path.join(wd, "s%d.cur" % i)
            env["VERIF_FAIL"] = os.path.join(wd, "s%d.fail" % i)
            env["VERIF_KNOWN"] = known
            env["VERIF_TIER"] = tier
            env["VERIF_SHARD"] = str(i)
            if extra_env:
                env.update(extra_env)
            for f in ("VERIF_STATS", "VERIF_FAIL"):
                if os.path.exists(env[f]):
                    os.remove(env[f])
            rc, d1 = run_proc([binary], env, timeout, os.path.join(wd, "s%d.log" % i))
            dt += d1
            if os.path.exists(env["VERIF_STATS"]):
                try:
                    sts.append(json.load(open(env["VERIF_STATS"])))
                except ValueError:
                    pass
            left -= n
            r += 1
        return i, rc, dt, sts

    with ThreadPoolExecutor(max_workers=NCPU) as ex:
        results = list(ex.map(one, range(shards)))
    triaged = 0
    for i, rc, dt, sts_i in results:
        st = {}
        for st in sts_i:
            out.merge_stats(st)
        if rc == 0:
            continue
        logtxt = open(os.path.join(wd, "s%d.log" % i), errors="replace").read()
        failp = os.path.join(wd, "s%d.fail" % i)
        curp = os.path.join(wd, "s%d.cur" % i)
        if rc == "timeout":
            cand, kind = curp, "hang"
        elif os.path.exists(failp) and "Falsifiable" in logtxt:
            cand, kind = failp, "fail"
        elif os.path.exists(curp):
            cand, kind = curp, "crash"
        else:
            out.violations.append((os.path.join(wd, "s%d.log" % i), "shard %d exited %s with no case recorded" % (i, rc)))
            save_replay(prop, os.path.join(wd, "s%d.log" % i), "shard%d_seed%d.log" % (i, seed()))
            continue
        name = "violation_seed%d_shard%d.case" % (seed(), i)
        dst = save_replay(prop, cand, name)
        triaged += 1
        if triaged > 3:
            # more failing shards than we triage in depth: keep the case, report it, skip the replays/minimisation
            out.violations.append((dst, "%s in shard %d (not triaged further: %d earlier shards already failed): %s"
                                   % (kind, i, triaged - 1, (st.get("fail_reason") or crash_signature(logtxt))[:300])))
            continue
        # replay 3x in isolation
        sts = []
        txt = ""
        for k in range(3):
            st_, o_ = replay_case(binary, dst, wd, known, tag="v%d_%d" % (i, k), extra_env=extra_env)
            sts.append(st_)
            if st_ != "pass":
                txt = o_
        reproduced = all(s != "pass" for s in sts)
        if reproduced and kind in ("crash", "hang"):
            ddmin_lines(binary, dst, wd, known, extra_env=extra_env)
            _, txt = replay_case(binary, dst, wd, known, tag="v%d_m" % i, extra_env=extra_env)
        if kind == "fail":
            m = re.search(r"REPLAY-FAIL (.*)", txt)
            what = (m.group(1) if m else st.get("fail_reason", ""))[:400]
        else:
            what = kind + ": " + crash_signature(txt or logtxt)
        if not reproduced:
            what += "  [replay outcomes %s: not reproduced in isolation every time; shard log kept]" % sts
            save_replay(prop, os.path.join(wd, "s%d.log" % i), name + ".log")
            if rc == -9 and all(s_ == "pass" for s_ in sts) and "abnormal exit" in what:
                # SIGKILL, no sanitizer report, the case passes 3x in isolation: the process was killed from outside (the kernel's
                # OOM killer, an operator): inconclusive for this shard, not a statement about the property
                out.notes.append("shard %d was killed by SIGKILL (out of memory / external kill); its current case passes 3x in "
                                 "isolation: inconclusive, not counted as a violation" % i)
                os.remove(dst)
                continue
        out.violations.append((dst, what))
    return out


# ------------------------------------------------------------------------------------------------
# regression replays and known findings (rapidcheck-style harness with --replay)
# ------------------------------------------------------------------------------------------------
def run_saved_replays(prop, binary, wd, out, findings, extra_env=None):
    d = os.path.join(VERIF, "replays", prop)
    known_files = set(os.path.normpath(os.path.join(VERIF, f.replay)) for f in findings if f.replay != "-")
    # 1. known findings: still failing => KNOWN-FINDING line
    for f in findings:
        if f.replay == "-":
            continue
        path = os.path.normpath(os.path.join(VERIF, f.replay))
        if not os.path.exists(path):
            out.notes.append("known finding %s: replay file missing" % f.id)
            continue
        st, _ = replay_case(binary, path, wd, known="", tag="k_" + f.id, extra_env=extra_env)
        if st != "pass":
            print("KNOWN-FINDING: property=%s %s [%s]" % (prop, f.text, f.id), flush=True)
            out.known_printed.append(f.id)
        else:
            out.notes.append("known finding %s no longer reproduces (replay passes)" % f.id)
    # 2. regression inputs: must pass
    n = 0
    if os.path.isdir(d):
        for fn in sorted(os.listdir(d)):
            path = os.path.normpath(os.path.join(d, fn))
            if not fn.endswith(".case") or path in known_files or fn.startswith("violation_"):
                continue
            n += 1
            st, o = replay_case(binary, path, wd, known=",".join(x.id for x in findings), tag="g%d" % n, extra_env=extra_env)
            if st != "pass":
                m = re.search(r"REPLAY-FAIL (.*)", o)
                out.violations.append((path, "regression input fails: " + ((m.group(1) if m else crash_signature(o))[:300])))
    out.extra["regression_replays"] = n


# ------------------------------------------------------------------------------------------------
# evidence + verdict
# ------------------------------------------------------------------------------------------------
def finish(prop, tier, level, out, rule, t0, assumptions, extra_cov=None):
    cov = {
        "evaluations": int(out.evaluations),
        "distinct_nontrivial": len(out.nontrivial) if isinstance(out.nontrivial, (set, list)) else int(out.nontrivial),
        "rule": rule,
        "samples": out.samples[:10] if out.samples else ["(no sample recorded)"],
        "classes": out.classes,
        "excluded_by_known_finding": out.excluded,
        "known_findings_reproduced": out.known_printed,
        "notes": out.notes,
        "violations_detail": [{"replay": os.path.relpath(p, VERIF), "what": w} for p, w in out.violations],
    }
    cov.update(out.extra)
    if extra_cov:
        cov.update(extra_cov)
    if level == "translation_validation":
        cov.setdefault("programs", cov["evaluations"])
        cov.setdefault("disagreements_checked", len(out.violations))
    ev = {
        "property_id": prop, "tier": tier, "seed": seed(), "level": level, "coverage": cov,
        "assumptions": assumptions, "wall_s": round(time.time() - t0, 2), "violations": len(out.violations),
    }
    # mutant / seeded-change runs (tools/run_mutant.sh) keep their evidence out of the committed evidence directory
    evdir = os.environ.get("VERIF_EVIDENCE_DIR") or os.path.join(VERIF, "evidence")
    os.makedirs(evdir, exist_ok=True)
    p = os.path.join(evdir, prop + ".json")
    with open(p + ".tmp", "w") as f:
        json.dump(ev, f, indent=1, sort_keys=True, default=str)
    os.replace(p + ".tmp", p)
    for path, what in out.violations:
        print("VIOLATION property=%s replay=%s" % (prop, path), flush=True)
        print("  what: %s" % what, flush=True)
    if out.violations:
        return 1
    print("OK property=%s tier=%s evaluations=%d distinct_nontrivial=%d wall=%.1fs" %
          (prop, tier, cov["evaluations"], cov["distinct_nontrivial"], time.time() - t0), flush=True)
    return 0
