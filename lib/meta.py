"""Per-property metadata for MANIFEST.json (tools/gen_manifest.py)."""
META = {}


def m(pid, level, text, note, technique, engine, ref):
    META[pid] = dict(level=level, text=text, note=note, technique=technique, engine=engine, ref=ref)


m("C28", "exploration",
  "Model-based stateful property test: generated histories of add/remove/freeze/defrost/autoFreeze/clear are applied to "
  "occa::trie<int> and to a std::map; after every step all strings up to a bound are queried in both the frozen and the "
  "unfrozen representation and compared with the longest-stored-prefix model. Search, not proof: it finds shallow and "
  "medium-depth divergences within seconds (it found and now guards the unfrozen off-by-one), it cannot show absence.",
  "Trusted: the std::map model (15 lines), rapidcheck, ASan/UBSan. Keys are non-empty; alphabet of 4 bytes incl. one >= 0x80.",
  "property-based testing (rapidcheck), stateful model-based histories vs std::map reference, exhaustive bounded queries per state",
  "rapidcheck", "DESIGN.md §4 C28")
