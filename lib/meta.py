"""Per-property metadata for MANIFEST.json (tools/gen_manifest.py)."""
META = {}


def m(pid, level, text, note, technique, engine, ref):
    META[pid] = dict(level=level, text=text, note=note, technique=technique, engine=engine, ref=ref)


