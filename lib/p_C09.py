"""C09 — concurrent builds of the same kernels all succeed and agree (Hypothesis-generated schedules, real processes)."""
import json
import os
import re
import shutil
import subprocess
import sys
import time

import vlib
import v_cachefault as cf
from meta import m
from props import REGISTRY

PROP = "C09"
POLL = 0.002
MAX_POLLS = 300000        # watchdog only (10 min); never decides a verdict by itself
HOLD_POLLS = 20000        # how long the driver looks for the leader inside its held call before releasing the others anyway
SYSCALL_NR = {"mkdir": 83, "rename": 82, "fsync": 74}     # x86_64


class HarnessError(Exception):
    pass


# ------------------------------------------------------------------------------------------------
# generator
# ------------------------------------------------------------------------------------------------
def schedule_strategy():
    from hypothesis import strategies as st
    skew0 = lambda hi: st.one_of(st.just(0), st.just(0), st.integers(0, hi))
    # every mkdir / rename / fsync of a worker is a call on the cache directory: delay all of them.  openat / write / close
    # also serve the loader, the sanitizer runtime and pipes: delay every step-th call from a generated ordinal on (ranges
    # measured on traced cold builds: cache calls have ordinals 32-160 (openat), 22-194 (write), 69-458 (close)).
    def every(sc, us, where):
        return dict(syscall=sc, us=us, where=where, when=None)

    def stepped(sc, us, where, first, step):
        return dict(syscall=sc, us=us, where=where, when="%d+%d" % (first, step))
    where = st.sampled_from(["enter", "exit"])

    def injections(us_all, us_step):
        return [
            st.builds(every, st.sampled_from(["mkdir", "rename", "fsync"]), st.integers(1000, us_all), where),
            st.builds(stepped, st.just("openat"), st.integers(1000, us_step), where, st.integers(30, 150), st.integers(1, 3)),
            st.builds(stepped, st.just("write"), st.integers(500, us_step), where, st.integers(20, 190), st.integers(1, 3)),
            st.builds(stepped, st.just("close"), st.integers(500, us_step // 2), where, st.integers(60, 400), st.integers(1, 4))]
    inject = st.one_of(st.none(), st.none(), *injections(30000, 12000))
    # process 0 is the "leader": it usually holds some of its calls for long.  With leader_first (and a hold at the entry
    # of every mkdir / rename / fsync) the driver releases the leader alone, watches /proc/<pid>/syscall until the leader
    # sits at the entry of its first held call, and only then releases everybody else: the others run through the
    # window (directory seen missing and not yet created; temp file complete and not yet published) by construction,
    # not by luck and not by the machine's speed.
    # One class per window kind, each frequent enough to occur several times in a quick run:
    #   mkdir held at entry    - the directory was seen missing, somebody else creates it meanwhile
    #   openat held at exit / write held at entry - a file has just been created (empty) and is not written yet
    #   fsync, rename held at entry - a complete temp file is not published yet
    lead_inject = st.one_of(
        st.none(),
        st.builds(every, st.just("mkdir"), st.integers(100000, 500000), st.just("enter")),
        st.builds(stepped, st.just("openat"), st.integers(5000, 40000), st.just("exit"), st.integers(30, 60), st.just(1)),
        st.builds(stepped, st.just("write"), st.integers(5000, 40000), st.just("enter"), st.integers(20, 40), st.just(1)),
        st.builds(every, st.sampled_from(["rename", "fsync"]), st.integers(100000, 500000), st.just("enter")),
        st.builds(every, st.just("mkdir"), st.integers(100000, 500000), st.just("enter")))

    def proc(inj):
        return st.fixed_dictionaries(dict(
            delay_us=skew0(50000),
            kernels=st.lists(st.sampled_from(sorted(cf.POOL)), min_size=1, max_size=3, unique=True),
            flip_mode=st.sampled_from([False, False, False, False, True]),
            cc_pre_ms=skew0(300),
            cc_post_ms=skew0(300),
            inject=inj))
    return st.fixed_dictionaries(dict(
        mode=st.sampled_from(list(cf.MODES)),
        leader_first=st.sampled_from([True, True, False]),
        leader=proc(lead_inject),
        others=st.lists(proc(inject), min_size=1, max_size=15))).map(
            lambda d: dict(mode=d["mode"], leader_first=d["leader_first"], procs=[d["leader"]] + d["others"]))


def proc_mode(sched, p):
    if p.get("flip_mode"):
        return cf.MODES[1 - cf.MODES.index(sched["mode"])]
    return sched["mode"]


# ------------------------------------------------------------------------------------------------
# one schedule
# ------------------------------------------------------------------------------------------------
def run_schedule(ctx, sched, sdir):
    """-> dict(ok, what, overlap, logs)"""
    shutil.rmtree(sdir, ignore_errors=True)
    os.makedirs(sdir)
    cache = os.path.join(sdir, "cache")          # one shared, empty cache directory (OCCA creates it)
    cclog = os.path.join(sdir, "cc.log")
    r_fd, w_fd = os.pipe()        # shared stdin of processes 1..N-1
    r0_fd, w0_fd = os.pipe()      # stdin of the leader
    fds = dict(r=r_fd, w=w_fd, r0=r0_fd, w0=w0_fd)

    def close(k):
        if fds.get(k) is not None:
            try:
                os.close(fds[k])
            except OSError:
                pass
            fds[k] = None
    procs = []
    held = None
    try:
        for i, p in enumerate(sched["procs"]):
            mode = proc_mode(sched, p)
            extra = {}
            if p.get("cc_pre_ms"):
                extra["W_CC_PRE"] = "%.3f" % (p["cc_pre_ms"] / 1000.0)
            if p.get("cc_post_ms"):
                extra["W_CC_POST"] = "%.3f" % (p["cc_post_ms"] / 1000.0)
            offset = int(p.get("delay_us", 0)) + (int(sched.get("head_start_us", 0)) if i > 0 else 0)
            cmd = [ctx.worker, mode, ",".join(p["kernels"]), "--gate", "--delay-us", str(offset)]
            inj = p.get("inject")
            if inj:
                spec = "%s:delay_%s=%d" % (inj["syscall"], inj["where"], int(inj["us"]))
                if inj.get("when"):
                    spec += ":when=" + inj["when"]
                cmd = ["strace", "-o", os.path.join(sdir, "strace%d.log" % i), "-e", "trace=" + inj["syscall"],
                       "-e", "inject=" + spec] + cmd
            so, se = os.path.join(sdir, "out%d.txt" % i), os.path.join(sdir, "err%d.txt" % i)
            fo, fe = open(so, "w"), open(se, "w")
            pp = subprocess.Popen(cmd, env=ctx.env(cache, cclog, traced=bool(inj), extra=extra),
                                  stdin=(fds["r0"] if i == 0 else fds["r"]), stdout=fo, stderr=fe, start_new_session=True)
            fo.close()
            fe.close()
            procs.append((pp, so, se, mode, p))
        close("r")
        close("r0")
        # wait until every process has set up its device and sits at the gate
        pids = []
        for (pp, so, se, mode, p) in procs:
            pid = None
            for _ in range(MAX_POLLS):
                try:
                    mm = re.search(r"READY (\d+)", open(so, errors="replace").read())
                    if mm:
                        pid = int(mm.group(1))
                        break
                except OSError:
                    pass
                if pp.poll() is not None:
                    break
                time.sleep(POLL)
            if pid is None:
                raise HarnessError("worker did not reach the gate: rc=%s %s" % (pp.poll(), open(se, errors="replace").read()[-500:]))
            pids.append(pid)
        inj0 = sched["procs"][0].get("inject")
        two_stage = bool(sched.get("leader_first") and inj0 and inj0["syscall"] in SYSCALL_NR
                         and inj0["where"] == "enter" and not inj0.get("when"))
        close("w0")             # EOF on its stdin releases the leader
        if two_stage:
            held = False
            want = "%d " % SYSCALL_NR[inj0["syscall"]]
            for _ in range(HOLD_POLLS):
                try:
                    if open("/proc/%d/syscall" % pids[0]).read().startswith(want):
                        held = True
                        break
                except OSError:
                    break
                if procs[0][0].poll() is not None:
                    break
                time.sleep(0.001)
        close("w")              # EOF on the shared stdin releases all the others at once
        rcs = []
        for (pp, so, se, mode, p) in procs:
            try:
                rcs.append(pp.wait(timeout=1800))
            except subprocess.TimeoutExpired:
                rcs.append("timeout")
    finally:
        for k in list(fds):
            close(k)
        for (pp, so, se, mode, p) in procs:
            if pp.poll() is None:
                cf.kill_group(pp.pid)
                pp.wait()

    res = dict(ok=True, what="", overlap=cf.overlapping_kernel_compiles(cclog), logs="", held=held)
    bad = []
    for i, ((pp, so, se, mode, p), rc) in enumerate(zip(procs, rcs)):
        out = open(so, errors="replace").read()
        err = open(se, errors="replace").read()
        if rc != 0:
            bad.append("process %d (%s %s) exited %s: %s" % (i, mode, ",".join(p["kernels"]), rc, cf.err_summary(err)))
            continue
        d = cf.check_outputs(p["kernels"], out)
        if d:
            bad.append("process %d (%s %s) ran wrong code: %s" % (i, mode, ",".join(p["kernels"]), d))
    if not bad:
        # follow-up: one process per mode builds every kernel that was built in that mode: nothing may be recompiled
        for mode in cf.MODES:
            kids = sorted(set(k for (pp, so, se, md, p) in procs if md == mode for k in p["kernels"]))
            if not kids:
                continue
            cc2 = os.path.join(sdir, "cc_follow_%s.log" % mode)
            rc, out, err = ctx.run(mode, kids, cache, cc2)
            if rc != 0:
                bad.append("follow-up process (%s %s) exited %s: %s" % (mode, ",".join(kids), rc, cf.err_summary(err)))
                continue
            d = cf.check_outputs(kids, out)
            if d:
                bad.append("follow-up process (%s) ran wrong code: %s" % (mode, d))
            inv = [e for e in cf.read_cclog(cc2) if e[0] == "S"]
            if inv:
                bad.append("follow-up process (%s %s) recompiled: %d compiler invocations %s" % (mode, ",".join(kids), len(inv), inv[:3]))
    if not bad:
        probs = cf.cache_state_problems(cache)
        if probs:
            bad.append("cache holds an incomplete file under a final name: " + "; ".join(probs[:3]))
    if bad:
        res["ok"] = False
        res["what"] = " | ".join(bad[:3]) + (" (+%d more)" % (len(bad) - 3) if len(bad) > 3 else "")
        logs = ["== schedule ==", json.dumps(sched, sort_keys=True), "== failures =="] + bad
        logs += ["== compiler wrapper log =="] + [" ".join(e) for e in cf.read_cclog(cclog)][:200]
        logs += ["== cache =="] + cf.list_cache(cache)
        for i, (pp, so, se, mode, p) in enumerate(procs):
            e = open(se, errors="replace").read().strip()
            if e:
                logs += ["== stderr of process %d ==" % i, e[-1500:]]
        res["logs"] = "\n".join(logs)
    return res


def save_case(sched, name, observed=None, logs=None):
    d = os.path.join(vlib.VERIF, "replays", PROP)
    os.makedirs(d, exist_ok=True)
    p = os.path.join(d, name)
    c = dict(sched)
    if observed:
        c["observed"] = observed
    with open(p, "w") as f:
        json.dump(c, f, indent=1, sort_keys=True)
    if logs:
        with open(p + ".log", "w") as f:
            f.write(logs)
    return p


def replay_file(ctx, path, wd, tag, times=3):
    sched = json.load(open(path))
    sched.pop("observed", None)
    outcomes = []
    first_bad = None
    for j in range(times):
        r = run_schedule(ctx, sched, os.path.join(wd, "replay_%s_%d" % (tag, j)))
        outcomes.append(r)
        if not r["ok"] and first_bad is None:
            first_bad = r
        shutil.rmtree(os.path.join(wd, "replay_%s_%d" % (tag, j)), ignore_errors=True)
    return first_bad, outcomes


RULE = ("case = schedule generated by Hypothesis: 2-16 worker processes, each with a start offset after a common release "
        "(0-50 ms, skewed to 0), 1-3 kernels out of {s0, s1 (string-built), f2, f3 (file-built, f3 with #include)}, a mode "
        "(schedule mode, flipped for 1 in 5), generated sleeps before/after the real compiler, and optionally a strace "
        "delay injected at entry/exit of its mkdir/rename/fsync/openat/write/close calls; all share one empty cache directory and "
        "are released at the same instant - or, for 2 schedules in 3, process 0 (the leader, which holds every mkdir / rename / "
        "fsync at entry for 0.1-0.5 s, or its openat/write calls for 5-40 ms) is released first and the others only when "
        "/proc/<pid>/syscall shows the leader inside its first held call. Oracle: every process exits 0 with the model outputs; a follow-up process per "
        "mode rebuilds everything with 0 compiler invocations; no final-named file in the cache is incomplete. "
        "Non-trivial = at least two kernel compiles were open at the same time (order of start/end lines in the compiler "
        "wrapper log). Distinct = distinct schedule.")


def run(prop, tier, replay, t0):
    vlib.ensure_build("asan")
    wd = vlib.workdir(prop)
    try:
        ctx = cf.Ctx(wd)
        if replay:
            bad, outcomes = replay_file(ctx, os.path.abspath(replay), wd, "user")
            print("replayed 3x: %s" % ["pass" if o["ok"] else "fail" for o in outcomes])
            if bad:
                print(bad["logs"][-4000:])
                print("VIOLATION property=%s replay=%s" % (prop, os.path.abspath(replay)))
                return 1
            return 0
        out = vlib.Outcome()
        findings = vlib.known_findings(prop)
        known_files = set(os.path.normpath(os.path.join(vlib.VERIF, f.replay)) for f in findings if f.replay != "-")
        for f in findings:
            path = os.path.normpath(os.path.join(vlib.VERIF, f.replay))
            if f.replay == "-" or not os.path.exists(path):
                continue
            bad, _ = replay_file(ctx, path, wd, "k_" + f.id)
            if bad:
                print("KNOWN-FINDING: property=%s %s [%s]" % (prop, f.text, f.id), flush=True)
                out.known_printed.append(f.id)
            else:
                out.notes.append("known finding %s did not reproduce in 3 runs" % f.id)
        rd = os.path.join(vlib.VERIF, "replays", prop)
        nreg = 0
        if os.path.isdir(rd):
            for fn in sorted(os.listdir(rd)):
                path = os.path.normpath(os.path.join(rd, fn))
                if not fn.endswith(".case") or fn.startswith("violation_") or path in known_files:
                    continue
                nreg += 1
                bad, _ = replay_file(ctx, path, wd, "g%d" % nreg, times=2)
                if bad:
                    lp = save_case(json.load(open(path)), "violation_regression_%s" % fn, logs=bad["logs"])
                    out.violations.append((path, "regression input fails: " + bad["what"][:700]))
        out.extra["regression_replays"] = nreg

        from hypothesis import HealthCheck, Phase, given, seed, settings
        n_examples = 25 if tier == "quick" else 600
        state = dict(n=0, viol=0, overlaps={}, nprocs={}, injected=0)

        @settings(max_examples=n_examples, database=None, deadline=None, phases=[Phase.generate],
                  suppress_health_check=list(HealthCheck), derandomize=False, report_multiple_bugs=False)
        @seed(vlib.derive(vlib.seed(), PROP))
        @given(schedule_strategy())
        def explore(sched):
            if state["viol"] >= 2:
                return
            state["n"] += 1
            i = state["n"]
            sdir = os.path.join(wd, "s%d" % i)
            try:
                r = run_schedule(ctx, sched, sdir)
            except HarnessError as ex:
                out.notes.append("harness error in schedule %d: %s" % (i, str(ex)[:300]))
                shutil.rmtree(sdir, ignore_errors=True)
                return
            out.evaluations += 1
            key = json.dumps(sched, sort_keys=True)
            ov = min(r["overlap"], 4)
            out.classes["max_overlapping_kernel_compiles=%s%s" % (ov, "+" if ov == 4 else "")] = \
                out.classes.get("max_overlapping_kernel_compiles=%s%s" % (ov, "+" if ov == 4 else ""), 0) + 1
            npk = "procs=%s" % ("2-4" if len(sched["procs"]) <= 4 else "5-8" if len(sched["procs"]) <= 8 else "9-16")
            out.classes[npk] = out.classes.get(npk, 0) + 1
            if any(p.get("inject") for p in sched["procs"]):
                out.classes["with_syscall_delay"] = out.classes.get("with_syscall_delay", 0) + 1
            if r.get("held") is not None:
                inj0 = sched["procs"][0]["inject"]
                hk = "leader_%s_in_%s_when_others_start" % ("held" if r["held"] else "NOT_held", inj0["syscall"])
                out.classes[hk] = out.classes.get(hk, 0) + 1
            if r["overlap"] >= 2:
                out.nontrivial.add(key)
            if len(out.samples) < 5 and (r["overlap"] >= 2 or i == 1):
                out.samples.append(dict(schedule=sched, max_overlapping_kernel_compiles=r["overlap"]))
            if not r["ok"]:
                state["viol"] += 1
                name = "violation_seed%d_%d.case" % (vlib.seed(), i)
                p = save_case(sched, name, observed=r["what"], logs=r["logs"])
                # schedule-dependent: re-run 3x, keep the logs of every failing run
                again = []
                for j in range(3):
                    try:
                        rr = run_schedule(ctx, sched, os.path.join(wd, "v%d_%d" % (i, j)))
                        again.append("fail" if not rr["ok"] else "pass")
                        if not rr["ok"]:
                            with open(p + ".log", "a") as f:
                                f.write("\n\n===== re-run %d =====\n%s" % (j, rr["logs"]))
                    except HarnessError:
                        again.append("harness-error")
                    shutil.rmtree(os.path.join(wd, "v%d_%d" % (i, j)), ignore_errors=True)
                out.violations.append((p, r["what"][:900] + "  [re-run 3x: %s; logs: %s.log]" % (",".join(again), p)))
            shutil.rmtree(sdir, ignore_errors=True)

        explore()
        out.extra["schedules_requested"] = n_examples
        out.extra["engine"] = "Hypothesis %s (seed derived from VERIF_SEED), real processes, strace delay injection" % __import__("hypothesis").__version__
        return vlib.finish(prop, tier, "exploration", out, RULE, t0,
                           ["libocca built from the working tree with clang ASan+UBSan",
                            "schedules are sampled, not enumerated: interleavings inside the kernel scheduler are not controlled; the harness widens "
                            "windows with generated compiler sleeps and syscall delays, and releases all processes from a common gate",
                            "wall-clock never decides a verdict: the oracle is exit status, printed outputs, compiler invocation count and cache contents",
                            "a violation is re-run 3x and reported with its logs whether or not it reproduces (a failed process is evidence by itself)"])
    finally:
        vlib.cleanup(wd)


REGISTRY[PROP] = run

m(PROP, "exploration",
  "Hypothesis generates schedules of 2-16 real worker processes (start offsets after a common release gate, 1-3 kernels each "
  "out of a pool of two string-built and two file-built kernels, one with an #include, Serial/OpenMP, sleeps before/after the "
  "real compiler, optional strace-injected delays at entry/exit of mkdir/rename/fsync/openat/write/close) that build against one "
  "shared empty cache directory. Every process must exit 0 and print the model outputs; a follow-up process must rebuild "
  "everything with zero compiler invocations; no final-named cache file may be incomplete. Sampled search over schedules: it "
  "cannot exhaust interleavings; violations are re-run three times and reported with logs.",
  "Trusted: the reference model of the four kernels, the bash compiler wrapper, strace's delay injection, Hypothesis. The OS "
  "scheduler is not controlled; generated delays only widen windows.",
  "property-based testing (Hypothesis) of multi-process schedules with harness-owned delays (compiler wrapper sleeps, strace delay injection), follow-up-process oracle",
  "hypothesis", "DESIGN.md §4 C09")
