"""Process-level Hypothesis checks (C06, C07): every build is a *fresh* `w_build` process.

Pieces
------
Runner(root, binary)          fixed process environment + logging compiler wrappers + one call of harness/w_build.cpp
    .build(req, cache, cwd)   -> Build (exit code, RESULT json, kernel-compile invocations seen by the wrappers)
run_check(...)                complete `bin/check` entry for a property: libocca + worker build, known findings,
                              regression replays, <=16 shard processes (one Hypothesis run each, seed =
                              vlib.derive(VERIF_SEED, prop, shard)), 3x confirmation of a failing (shrunk) item,
                              replay file, evidence, verdict.
A property supplies
    shard(ctx)                runs its Hypothesis test inside a shard process and returns a result dict
                              (use ShardStats) -- executed examples are real builds, so shrinking re-executes;
    replay(ctx, item)         evaluates one stored item without Hypothesis -> {"status": "ok"|"fail", "what": str}
    text(item)                one-line rendering.

Environment ("held fixed" in the property statements): the worker gets a *constructed* environment, not the
caller's: PATH = <wrappers>:/usr/local/bin:/usr/bin:/bin, HOME = a scratch directory (so ~/.occa can never be
touched), LANG=C, OCCA_CACHE_DIR = the case's cache directory, sanitizer options.  None of OCCA_CXX, CXX, OCCA_CXXFLAGS,
CXXFLAGS, OCCA_LDFLAGS, OCCA_COMPILER_SHARED_FLAGS, OCCA_COMPILER_LANGUAGE, OCCA_INCLUDE_PATH, OCCA_KERNEL_PATH,
CPATH, ... exist in it.  W_CC_LOG (wrapper log file) is the only variable that differs between two calls.

Nothing here reads the wall clock for a decision; time-outs are watchdogs 100x above the typical case and a
time-out is reported as `hang` only after it is reproduced by the 3x confirmation like every other failure.
"""
import hashlib
import json
import multiprocessing
import os
import shutil
import stat
import subprocess
import sys
import traceback

import vlib

MAX_SHARDS = 16
SHRINK_BUDGET = 16             # real evaluations Hypothesis may spend on shrinking a failing example (per shard)
WORKER_TIMEOUT = 1800          # seconds; a JIT build takes 0.2-0.5 s (several seconds on a loaded machine)

_WRAPPER = """#!/bin/sh
# logging compiler wrapper (lib/v_hypproc.py): one line per invocation, then the real compiler
%(noarg)s
if [ -n "$W_CC_LOG" ]; then printf '%%s\\n' "%(name)s $*" >> "$W_CC_LOG"; fi
exec %(real)s "$@"
"""

# wrapper name -> real compiler.  tool_g / tool_c additionally exit 0 when called without arguments, so the same
# string is a valid `compiler` *and* a valid `compiler_env_script` (used by C06's equal-value mutations).
WRAPPED = {"g++": "g++", "clang++": "clang++", "gcc": "gcc", "clang": "clang", "tool_g": "g++", "tool_c": "clang++"}


def make_wrappers(bindir):
    os.makedirs(bindir, exist_ok=True)
    for name, real in WRAPPED.items():
        rp = None
        for d in ("/usr/bin", "/usr/local/bin", "/bin"):
            if os.access(os.path.join(d, real), os.X_OK):
                rp = os.path.join(d, real)
                break
        if rp is None:
            raise SystemExit("HARNESS-ERROR: compiler %s not found" % real)
        p = os.path.join(bindir, name)
        with open(p, "w") as f:
            f.write(_WRAPPER % {"name": name, "real": rp,
                                "noarg": 'if [ "$#" -eq 0 ]; then exit 0; fi' if name.startswith("tool_") else ""})
        os.chmod(p, 0o755)
    return bindir


class Build:
    """Outcome of one worker process."""

    def __init__(self):
        self.rc = None            # int exit code, negative = signal, "timeout"
        self.res = None           # parsed RESULT object or None
        self.compiles = []        # wrapper log lines that compile the kernel itself
        self.cc_all = []          # every wrapper log line (vendor / OpenMP-flag probes included)
        self.err = ""             # tail of stderr
        self.inode = None         # (st_ino, st_mtime_ns, st_size) of the binary after the run

    @property
    def ok(self):
        return self.rc == 0 and self.res is not None and self.res.get("ok") is True

    def brief(self):
        if self.ok:
            return "out=%s hash=%s binary=%s compiles=%d" % (self.res["out"], self.res["hash"][:16],
                                                             "/".join(self.res["binary"].split("/")[-2:]), len(self.compiles))
        if self.rc == "timeout":
            return "no answer within %d s (killed)" % WORKER_TIMEOUT
        sig = vlib.crash_signature(self.err) if self.err else ""
        msg = (self.res or {}).get("error", "")
        return "worker exit %s %s %s" % (self.rc, sig, msg[-700:].replace("\n", " | "))


class Runner:
    def __init__(self, root, binary, bindir):
        self.root, self.binary, self.bindir = root, binary, bindir
        self.home = os.path.join(root, "home")
        os.makedirs(self.home, exist_ok=True)
        self.n = 0

    def env(self, cache, cclog):
        e = {
            "PATH": self.bindir + ":/usr/local/bin:/usr/bin:/bin",
            "HOME": self.home,
            "LANG": "C", "LC_ALL": "C",
            "OCCA_CACHE_DIR": cache,
            "OCCA_VERBOSE": "0",
            "OCCA_COLOR_ENABLED": "0",
            "W_CC_LOG": cclog,
            # leaks are not the subject of C06/C07; stack overflow / segv must give a report and a non-zero exit
            "ASAN_OPTIONS": "detect_leaks=0:abort_on_error=0:handle_segv=1:detect_stack_use_after_return=0:symbolize=1",
            "UBSAN_OPTIONS": "print_stacktrace=1:halt_on_error=1",
            "ASAN_SYMBOLIZER_PATH": "/usr/bin/llvm-symbolizer-14",
        }
        if os.environ.get("LD_LIBRARY_PATH"):
            e["LD_LIBRARY_PATH"] = os.environ["LD_LIBRARY_PATH"]
        return e

    def build(self, req, cache, cwd):
        self.n += 1
        tag = "b%d" % self.n
        reqp = os.path.join(self.root, tag + ".req.json")
        cclog = os.path.join(self.root, tag + ".cc.log")
        errp = os.path.join(self.root, tag + ".err")
        with open(reqp, "w") as f:
            json.dump(req, f)
        os.makedirs(cache, exist_ok=True)
        b = Build()
        with open(errp, "w") as ef:
            try:
                p = subprocess.run([self.binary, reqp], env=self.env(cache, cclog), cwd=cwd, stdin=subprocess.DEVNULL,
                                   stdout=subprocess.PIPE, stderr=ef, timeout=WORKER_TIMEOUT)
                b.rc = p.returncode
                out = p.stdout.decode("utf-8", "replace")
            except subprocess.TimeoutExpired as te:
                b.rc = "timeout"
                out = (te.stdout or b"").decode("utf-8", "replace")
        for line in out.split("\n"):
            if line.startswith("RESULT "):
                try:
                    b.res = json.loads(line[7:])
                except ValueError:
                    b.res = None
        try:
            b.err = open(errp, errors="replace").read()[-6000:]
        except OSError:
            b.err = ""
        if os.path.exists(cclog):
            b.cc_all = [l for l in open(cclog, errors="replace").read().split("\n") if l.strip()]
        b.compiles = [l for l in b.cc_all if is_kernel_compile(l)]
        if b.ok:
            try:
                s = os.stat(b.res["binary"])
                b.inode = (s.st_ino, s.st_mtime_ns, s.st_size)
            except OSError:
                b.inode = None
        for pth in (reqp, cclog, errp):
            try:
                os.unlink(pth)
            except OSError:
                pass
        return b


def is_kernel_compile(line):
    """A wrapper invocation that produces a kernel binary: OCCA compiles <hashdir>/<name>.source.cpp (OKL output) or
    <hashdir>/<name>.raw_source.{cpp,c} (okl disabled) into a staged name of <hashdir>/binary.  The compiler-vendor
    probe (findCompilerVendor.cpp) and the OpenMP-flag probe (compilerSupportsOpenMP.cpp) are not kernel builds."""
    if "findCompilerVendor" in line or "compilerSupportsOpenMP" in line:
        return False
    toks = line.split()
    return any(t.endswith(".source.cpp") or t.endswith(".raw_source.cpp") or t.endswith(".raw_source.c") for t in toks)


# --------------------------------------------------------------------------------------------------
# shard bookkeeping
# --------------------------------------------------------------------------------------------------
class ShardStats:
    def __init__(self):
        self.res = {"evaluations": 0, "nontrivial": [], "classes": {}, "excluded": {}, "samples": [], "violation": None,
                    "notes": [], "builds": 0}
        self.frozen = False       # set at the first failure: shrinking re-executions are not counted as coverage
        self._nt_sample = False

    def key(self, text):
        return hashlib.sha1(text.encode("utf-8", "replace")).hexdigest()[:20]

    def record(self, text, classes, nontrivial, builds):
        if self.frozen:
            return
        r = self.res
        r["evaluations"] += 1
        r["builds"] += builds
        for c in classes:
            r["classes"][c] = r["classes"].get(c, 0) + 1
        if nontrivial:
            k = self.key(text)
            if k not in r["nontrivial"]:
                r["nontrivial"].append(k)
        if len(r["samples"]) < 2 or (nontrivial and not self._nt_sample and len(r["samples"]) < 3):
            r["samples"].append(text[:1500])
            self._nt_sample = self._nt_sample or nontrivial

    def exclude(self, slug):
        if not self.frozen:
            self.res["excluded"][slug] = self.res["excluded"].get(slug, 0) + 1


class Ctx:
    pass


def hyp_settings(n, **kw):
    from hypothesis import HealthCheck, Phase, settings
    return settings(max_examples=n, database=None, deadline=None, derandomize=False, report_multiple_bugs=False,
                    suppress_health_check=list(HealthCheck), print_blob=False,
                    phases=[Phase.generate, Phase.shrink], **kw)


def _shard_proc(spec, prop, shard, n, wd, binary, bindir, known_ids, tier, respath):
    try:
        os.setpgrp()
    except OSError:
        pass
    try:
        ctx = Ctx()
        ctx.prop, ctx.shard, ctx.n, ctx.binary, ctx.known_ids, ctx.tier = prop, shard, n, binary, known_ids, tier
        ctx.root = os.path.join(wd, "s%d" % shard)
        os.makedirs(ctx.root, exist_ok=True)
        ctx.runner = Runner(ctx.root, binary, bindir)
        ctx.seed = vlib.derive(vlib.seed(), prop, shard)
        res = spec.shard(ctx)
        v = res.get("violation")
        if v and v.get("item") is not None:
            # confirmation: the (shrunk) item is evaluated three more times from scratch
            outcomes, keep = [], None
            for _ in range(3):
                vv = spec.replay(ctx, v["item"])
                outcomes.append(vv["status"])
                if vv["status"] == "fail":
                    keep = vv
            v["outcomes"] = outcomes
            if keep is not None:
                v["what"] = keep["what"]
    except BaseException as e:  # noqa
        res = {"error": "%s: %s\n%s" % (type(e).__name__, e, traceback.format_exc()[-3000:])}
    with open(respath + ".tmp", "w") as f:
        json.dump(res, f, default=str)
    os.replace(respath + ".tmp", respath)


def write_replay(path, prop, item, text, what):
    with open(path, "w") as f:
        json.dump({"property": prop, "item": item, "text": text, "what": what}, f, indent=1, sort_keys=True)
        f.write("\n")


def _replay_file(spec, prop, wd, binary, bindir, path, tag, known_ids=()):
    item = json.load(open(path))["item"]
    ctx = Ctx()
    ctx.prop, ctx.shard, ctx.n, ctx.binary, ctx.known_ids, ctx.tier = prop, tag, 0, binary, list(known_ids), "replay"
    ctx.root = os.path.join(wd, "r_%s" % tag)
    os.makedirs(ctx.root, exist_ok=True)
    ctx.runner = Runner(ctx.root, binary, bindir)
    ctx.seed = 0
    v = spec.replay(ctx, item)
    shutil.rmtree(ctx.root, ignore_errors=True)
    return item, v


def run_check(spec, prop, tier, replay, t0, quick, thorough, level, rule, assumptions, shards=MAX_SHARDS):
    """quick/thorough = total number of Hypothesis examples for the tier (split over the shards)."""
    vlib.ensure_build("asan")
    # several checks (C06, C07, different seeds) may start at the same time: only one of them (re)compiles the worker
    import fcntl
    os.makedirs(vlib.HB, exist_ok=True)
    with open(os.path.join(vlib.HB, ".w_build.lock"), "w") as lockf:
        fcntl.flock(lockf, fcntl.LOCK_EX)
        binary = vlib.build_harness("w_build", kind="plain")
    wd = vlib.workdir(prop)
    try:
        bindir = make_wrappers(os.path.join(wd, "ccbin"))
        if replay:
            item, v = _replay_file(spec, prop, wd, binary, bindir, os.path.abspath(replay), "user")
            print(spec.text(item))
            print("replay verdict: %s %s" % (v["status"], v.get("what", "")))
            if v["status"] != "ok":
                print("VIOLATION property=%s replay=%s" % (prop, os.path.abspath(replay)))
                return 1
            return 0

        out = vlib.Outcome()
        findings = vlib.known_findings(prop)
        known_ids = sorted(f.id for f in findings)
        rdir = os.path.join(vlib.VERIF, "replays", prop)
        known_files = set()
        jobs = []            # (kind, finding or file name, path, tag)
        for f in findings:
            if f.replay == "-":
                continue
            path = os.path.normpath(os.path.join(vlib.VERIF, f.replay))
            known_files.add(path)
            if not os.path.exists(path):
                out.notes.append("known finding %s: replay file missing" % f.id)
                continue
            jobs.append(("known", f, path, "k_" + f.id))
        nreg = 0
        if os.path.isdir(rdir):
            for fn in sorted(os.listdir(rdir)):
                path = os.path.normpath(os.path.join(rdir, fn))
                if not fn.endswith(".case") or path in known_files or fn.startswith("violation_") or fn.startswith("known_"):
                    continue
                nreg += 1
                jobs.append(("regression", fn, path, "g%d" % nreg))
        # the stored inputs are independent of each other (own scratch and cache directories): replay them concurrently
        from concurrent.futures import ThreadPoolExecutor
        with ThreadPoolExecutor(max_workers=8) as ex:
            verdicts = list(ex.map(lambda j: _replay_file(spec, prop, wd, binary, bindir, j[2], j[3], known_ids)[1], jobs))
        for (kind, what, path, _), v in zip(jobs, verdicts):
            if kind == "known":
                if v["status"] == "fail":
                    print("KNOWN-FINDING: property=%s %s [%s]" % (prop, what.text, what.id), flush=True)
                    out.known_printed.append(what.id)
                else:
                    out.notes.append("known finding %s no longer reproduces (replay verdict %s)" % (what.id, v["status"]))
            elif v["status"] != "ok":
                out.violations.append((path, "regression input fails: " + v.get("what", "")[:600]))
        out.extra["regression_replays"] = nreg

        total = quick if tier == "quick" else thorough
        shards = max(1, min(shards, MAX_SHARDS, vlib.NCPU))
        per = (total + shards - 1) // shards
        ctxm = multiprocessing.get_context("fork")
        procs = []
        for i in range(shards):
            rp = os.path.join(wd, "shard%d.json" % i)
            p = ctxm.Process(target=_shard_proc, args=(spec, prop, i, per, wd, binary, bindir, known_ids, tier, rp))
            p.start()
            procs.append((i, p, rp))
        # Scheduling only (no verdict depends on it): once a shard has reported a violation the verdict of the run is
        # fixed, so the shards that are still searching are stopped instead of being waited for.
        import time as _time
        stopped = False
        while any(p.is_alive() for _, p, _ in procs):
            for i, p, rp in procs:
                if not stopped and os.path.exists(rp):
                    try:
                        if json.load(open(rp)).get("violation"):
                            stopped = True
                    except ValueError:
                        pass
            if stopped:
                import signal
                for _, p, _ in procs:
                    if p.is_alive():
                        try:
                            os.killpg(p.pid, signal.SIGKILL)   # the shard, its worker and the compiler it may be running
                        except OSError:
                            p.terminate()
                break
            _time.sleep(0.5)
        seen_v = set()
        builds = 0
        for i, p, rp in procs:
            p.join()
            if stopped and not os.path.exists(rp):
                out.notes.append("shard %d stopped early: another shard had already found a violation" % i)
                continue
            if not os.path.exists(rp):
                raise SystemExit("HARNESS-ERROR: shard %d of %s died without a result (exit code %s)" % (i, prop, p.exitcode))
            res = json.load(open(rp))
            if res.get("error"):
                raise SystemExit("HARNESS-ERROR: shard %d of %s: %s" % (i, prop, res["error"]))
            out.merge_stats(res)
            builds += res.get("builds", 0)
            out.notes += ["shard %d: %s" % (i, n) for n in res.get("notes", [])]
            viol = res.get("violation")
            if viol:
                if viol["text"] in seen_v:
                    continue
                seen_v.add(viol["text"])
                os.makedirs(rdir, exist_ok=True)
                dst = os.path.join(rdir, "violation_seed%d_shard%d.case" % (vlib.seed(), i))
                write_replay(dst, prop, viol["item"], viol["text"], viol["what"])
                what = viol["what"]
                oc = viol.get("outcomes", [])
                if not all(s == "fail" for s in oc):
                    what += "  [3 isolated re-runs gave %s: not reproduced every time]" % oc
                out.violations.append((dst, what + "  | input: " + viol["text"][:900].replace("\n", "\\n")))
        out.extra["worker_processes_started"] = builds
        out.extra["shards"] = shards
        out.extra["examples_per_shard"] = per
        out.extra["engine"] = ("Hypothesis %s, %d shard processes, seeds vlib.derive(VERIF_SEED, %s, shard); every build is a "
                               "fresh w_build process" % (__import__("hypothesis").__version__, shards, prop))
        return vlib.finish(prop, tier, level, out, rule, t0,
                           assumptions + ["libocca built from the repo working tree with clang ASan+UBSan (asan variant); "
                                          "JIT compilers: /usr/bin/g++, /usr/bin/clang++ (gcc, clang for C) behind logging wrappers"])
    finally:
        vlib.cleanup(wd)
