"""C23 — functional arrays, ranges and forLoop match sequential semantics (JIT kernels on Serial and OpenMP)."""
import os

import vlib
from meta import m
from props import REGISTRY, rc_property


def _with_switches(make):
    """rc_property plus (a) a per-tier shard watchdog (a defect that turns a loop into a 2^31-iteration loop must end as a
    `hang` violation, not as an endless run) and (b) one switch for sensitivity experiments: VERIF_SKIP_REPLAYS=1 runs the
    generated search without the saved regression inputs (so a revert mutant has to be found by the generator, not by its
    own replay file)."""
    inners = {"quick": make(3000), "thorough": make(43200)}

    def run(prop, tier, replay, t0):
        inner = inners.get(tier, inners["quick"])
        if replay or not os.environ.get("VERIF_SKIP_REPLAYS"):
            return inner(prop, tier, replay, t0)
        saved = vlib.run_saved_replays
        vlib.run_saved_replays = lambda prop_, binary, wd, out, findings, extra_env=None: out.notes.append(
            "VERIF_SKIP_REPLAYS=1: saved regression inputs not replayed in this run")
        try:
            return inner(prop, tier, replay, t0)
        finally:
            vlib.run_saved_replays = saved
    return run


REGISTRY["C23"] = _with_switches(lambda shard_timeout: rc_property(
    "C23", quick=(12, 40), thorough=(500, 60),
    rule="case = one object and a list of operations from a fixed menu of OCCA_FUNCTIONs: (a) occa::array<int|float|double> of "
         "length 0..70 (biased to 0,1,2 and tile*k-1, tile*k, tile*k+1, 2*tile*k+1) with setTileSize(s) / setTileSize(s,k), "
         "s in {1,2,3,4,7,16}, k in 1..4, then 1-6 of map (5 functions, all 3 overloads), mapTo (shorter/equal/longer output), "
         "forEach, every, some, findIndex, reduce (19 recipes: every built-in reduction, custom functions, with and without "
         "localInit, result types int/float/double/bool), min, max, slice, concat, fill, dotProduct, includes/indexOf/"
         "lastIndexOf/reverse/shiftLeft/shiftRight/clamp*/cast/clone/operator[] and setTileSize again, all on the same array "
         "object; (b) occa::range(start,end,step) through its three constructors, steps of both signs, with length, toArray, map, "
         "mapTo, every, some, findIndex, forEach, reduce; (c) occa::forLoop with 1-3 outer x 0-3 inner iterations (int N, "
         "range of either sign and |step|<=5, index arrays), outer(...) or tile({...,size}). Oracle = the std:: algorithm on a "
         "host copy, exact comparison (data are small integers or multiples of 1/4, so sums are exact in any order); forLoop "
         "bodies increment a per-tuple counter in a guarded box, every tuple must end at exactly 1 and nothing outside. "
         "Non-trivial = tile iterations k>1, or length not a multiple of the tile, or a negative range step, or a length of "
         "0/1 (for forLoop: a dimension of length 0/1, tile not dividing the length, tiled range with step != 1). "
         "Distinct = distinct serialised case.",
    assumptions=["reduce without localInit is called with the natural function of the reduction (min/max/bitAnd/boolAnd start "
                 "from the first element); custom functions with those reductions pass a localInit that is neutral or idempotent",
                 "reduce<multiply> is only compared when no partial product can overflow / round",
                 "min/max-type reductions without localInit are not called on empty ranges (std::min_element has no value there)",
                 "index arrays given to forLoop hold distinct values (an index tuple is identified by its values)",
                 "JIT kernels are compiled with -O0 into the per-shard OCCA_CACHE_DIR; OpenMP kernels run with 3 threads"],
    # leak detection off: the OKL parser leaks expression nodes on every kernel build (not this property's subject)
    extra_env={"OMP_NUM_THREADS": "3",
               "ASAN_OPTIONS": "detect_leaks=0:abort_on_error=0:detect_stack_use_after_return=0:handle_segv=1:"
                               "allocator_may_return_null=1:symbolize=1"},
    timeout=shard_timeout))

m("C23", "exploration",
  "Property-based differential test of the functional API against sequential std:: algorithms: generated arrays, ranges and "
  "loop nests (lengths, contents, tile sizes, tile iteration counts, range bounds and steps of both signs, outer/inner "
  "combinations) are run through real JIT-compiled kernels on Serial and OpenMP devices, several operations in sequence on the "
  "same object, and every returned value / output array is compared exactly with the host computation; forLoop bodies are "
  "counted per index tuple. Sampled search with shrinking: it found five defects (tile with step != 1 skips iterations, "
  "negative-step ranges in forLoop run the wrong way, SIGFPE on empty ranges, stale reduction buffer, findIndex returning the "
  "last match) and cannot show absence.",
  "Trusted: the host std:: oracles, rapidcheck, the host compiler used for JIT (g++ -O0). OCCA_FUNCTION lambdas are compile-time "
  "strings, so the function menu is fixed and the generator varies everything else. GPU code paths of the same classes are not run.",
  "property-based differential testing (rapidcheck) of JIT-compiled kernels against std:: algorithms; exactly-once counters for loops",
  "rapidcheck", "DESIGN.md §4 C23")
