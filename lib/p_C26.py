"""C26 — mode-specific properties override generic ones only for the device's own mode."""
from meta import m
from props import REGISTRY, rc_property

REGISTRY["C26"] = rc_property(
    "C26", quick=(1200, 40), thorough=(60000, 60),
    rule="case = a mode spelling (Serial, OpenMP, serial, SERIAL, openmp, OPENMP, a mode that is not enabled, no mode) plus a list "
         "of origin-tagged entries over keys {a,b,c,grp/x,grp/y} placed in occa::settings() (<object>/k, <object>/modes/<M>/k, "
         "modes/<M>/<object>/k for device/kernel/memory/stream), in the device properties (k, modes/<M>/k, <object>/k, "
         "<object>/modes/<M>/k, modes/<M>/<object>/k) and in per-call properties (k, modes/<M>/k), M = own mode or another mode "
         "(the other real mode, CUDA, HIP); optionally a second setup() over a device that had other properties. Compared with the "
         "layered model settings-generic < settings-own-mode < user-generic < user-own-mode < per-call generic < per-call own-mode "
         "on device.properties() (top level and kernel/memory/stream), kernel/memory/streamProperties() with and without extra, "
         "and the properties() of memory, wrapped memory, memory pool and streams actually created. "
         "Non-trivial = some observed key is defined in >=3 distinct layers of which at least one is an other-mode layer. "
         "Distinct = distinct serialised case.",
    assumptions=["the two own-mode spellings <object>/modes/<mode>/k and modes/<mode>/<object>/k of one key are never both "
                 "present (the statement does not order them)",
                 "keys under modes/ use the canonical mode names; only the value of \"mode\" is spelled in other cases",
                 "settings entries that are not under device/kernel/memory/stream are generated as noise without any claim",
                 "occa::settings() is restored after every case"])

m("C26", "exploration",
  "Property-based test of the property layering: generated trees put a distinct origin tag at every layer the statement names "
  "(global settings, device properties, per-call properties; generic, own-mode in both spellings, other modes) for Serial and "
  "OpenMP devices, and every observable property set (device.properties(), its kernel/memory/stream sub-trees, the per-call "
  "variants and the properties of memory, memory pools and streams really created) is compared with a 40-line layered-dict "
  "model written from the statement. Sampled search with shrinking; it found that setup() used the spelling of \"mode\" "
  "instead of the resolved mode. It cannot show absence.",
  "Trusted: the layered model, rapidcheck, ASan/UBSan. No JIT: kernel properties are observed through kernelProperties(extra), "
  "the function buildKernel itself uses. The mutual order of the two own-mode spellings is deliberately not asserted.",
  "property-based testing (rapidcheck) against a layered-dictionary reference model, origin-tagged values",
  "rapidcheck", "DESIGN.md §4 C26")
