"""C12 — the tokenizer never crashes and re-reads its own token spellings (libFuzzer + rapidcheck, one evidence file)."""
import glob
import os
import sys

import v_fuzz
import vlib
from meta import m
from props import REGISTRY

# tier -> (libFuzzer runs in total, max_len, jobs, rapidcheck cases per shard, rapidcheck max_size, time cap for libFuzzer)
TIERS = {
    "quick": (1000000, 192, 16, 2000, 24, None),
    "thorough": (48000000, 512, 16, 80000, 40, 3600),
}

RULE = (
    "Two engines, one verdict. (1) libFuzzer on tokenizer_t: arbitrary bytes without interior NUL in an exact-size heap "
    "buffer (string source, getHeader() as the preprocessor calls it, and file_t source), fresh tokenizer per input, half of "
    "the processes start from an empty corpus and half from the string literals of tests/src/internal/lang/tokenizer/*.cpp "
    "+ corpus/C12; in-target oracle: when the input tokenizes without error into lexically well-formed C/OKL tokens, the "
    "tokens printed with their own print() separated by one space tokenize again to the same kinds and values. "
    "(2) rapidcheck token sequences (identifiers, keywords, dec/hex/bin/octal integers with every u/l/ll suffix spelling, "
    "floats, char and string literals with every encoding prefix, escapes, leading escaped quote, trailing backslash pairs, "
    "raw strings with delimiters, every operator of getOperators alone and in white-space-free runs, line and block "
    "comments) with random white space: (a) first tokenization = intended kinds/values, (b) print + retokenize = same "
    "kinds/values, (c) operator runs split by longest match (model: brute-force longest prefix over the operator strings). "
    "evaluations = libFuzzer executed units + rapidcheck cases. Non-trivial = rapidcheck sequence containing a literal with "
    "an escape or an encoding prefix, or two adjacent (no white space) multi-character operators; or fuzz input on which the "
    "round-trip oracle was evaluated and that contains a string/char literal with prefix or backslash or two consecutive "
    "multi-character operator tokens. Distinct = distinct serialised sequence / distinct input bytes (FNV-1a 64)."
)

ASSUMPTIONS = [
    "inputs contain no interior NUL (the tokenizer API is const char*): a fuzz input is cut at its first NUL",
    "the fuzz round-trip oracle is asserted only when every token is a lexically well-formed C/OKL token "
    "(identifier regex, valid integer/float literal spelling, terminated block comment, no unknownToken); "
    "other inputs are checked for crashes / sanitizer reports only",
    "newline tokens are white space and are not compared; after a line comment the separator is the newline itself",
    "intended integer values are asserted only when the literal is representable in the type its suffix selects "
    "(int32/uint32/int64/uint64); floating values within 2^-22 (float) / 2^-51 (double) relative of strtod",
    "libFuzzer inputs are limited to max_len bytes (primitive::load calls strlen per token: quadratic)",
    "libocca built from the working tree with clang ASan+UBSan (-fno-sanitize-recover=undefined), fuzzer-no-link",
]


def _seed_dirs(wd):
    lits = v_fuzz.cpp_string_literals(sorted(glob.glob(os.path.join(vlib.REPO, "tests/src/internal/lang/tokenizer/*.cpp"))))
    d1 = v_fuzz.write_corpus(os.path.join(wd, "seeds_tests"), lits)
    dirs = [d1]
    d2 = os.path.join(vlib.VERIF, "corpus", "C12")
    if os.path.isdir(d2):
        dirs.append(d2)
    return dirs, len(lits)


def _dict(wd):
    words = ["u8", "u", "U", "L", "R", "R\"(", ")\"", "\\\"", "\\'", "\\\\", "'", "\"", "//", "/*", "*/", "\n", "\\\n",
             "0x", "0b", "e+", "e-", "f", "ull", "LL", "true", "false", "sizeof", "sizeof...", "new", "delete", "throw",
             "typeid", "noexcept", "alignof", "<<<", ">>>", "<<=", ">>=", "->*", "...", "::", "##", ".*", "->", "++", "--",
             "&&", "||", "==", "!=", "<=", ">=", "+=", "-=", "*=", "/=", "%=", "&=", "|=", "^=", "<<", ">>", "@", "#", "_km"]
    return v_fuzz.write_dict(os.path.join(wd, "c12.dict"), words)


def run(prop, tier, replay, t0):
    vlib.ensure_build("asan")
    rcbin = vlib.build_harness("C12", "rc")
    fzbin = vlib.build_harness("fuzz_C12", kind="fuzz")
    wd = vlib.workdir(prop)
    try:
        if replay:
            path = os.path.abspath(replay)
            if path.endswith(".case"):
                st, o = vlib.replay_case(rcbin, path, wd, known="", tag="user")
            else:
                st, o = v_fuzz.run_input(fzbin, path, wd, known="", tag="user")
            sys.stdout.write(o[-4000:])
            if st != "pass":
                print("VIOLATION property=%s replay=%s" % (prop, path))
                return 1
            return 0

        out = vlib.Outcome()
        findings = vlib.known_findings(prop)
        f_bin = [f for f in findings if f.replay.endswith(".bin")]
        f_case = [f for f in findings if not f.replay.endswith(".bin")]
        ids = [f.id for f in findings]
        runs, max_len, jobs, per_shard, max_size, cap = TIERS["quick" if tier == "quick" else "thorough"]
        scale = float(os.environ.get("VERIF_C12_SCALE", "1"))     # development aid (loaded machine); recorded below
        if scale != 1:
            runs, per_shard = max(jobs, int(runs * scale)), max(1, int(per_shard * scale))
            out.notes.append("VERIF_C12_SCALE=%s: budgets scaled (development run, not the registered tier)" % scale)

        # small quarantine: 32 processes, allocation-heavy target (measured 2x throughput against the 256 MB default)
        asan = {"ASAN_OPTIONS": vlib.base_env(wd)["ASAN_OPTIONS"] + ":quarantine_size_mb=16"}

        # 1. saved inputs: known findings (printed while they still fail) and regression inputs (must pass)
        vlib.run_saved_replays(prop, rcbin, wd, out, f_case)
        v_fuzz.run_saved_inputs(prop, fzbin, wd, out, findings)

        # 2. libFuzzer campaign
        seed_dirs, nlits = _seed_dirs(wd)
        v_fuzz.run_fuzzer(prop, fzbin, wd, out, runs, max_len, seed_dirs, dict_file=_dict(wd), jobs=jobs,
                          thorough_time=cap, findings=f_bin, known_ids=ids, extra_env=asan)
        out.extra["fuzz"]["seed_literals_from_tests"] = nlits
        fuzz_execs = out.evaluations

        # 3. rapidcheck token sequences
        vlib.run_rc(prop, rcbin, wd, out, per_shard, max_size, shards=vlib.NCPU, known_ids=ids, tier=tier, timeout=7200,
                    extra_env=asan)
        out.extra["rapidcheck"] = {"shards": vlib.NCPU, "cases_per_shard": per_shard, "max_size": max_size,
                                   "cases": out.evaluations - fuzz_execs}
        out.extra["libfuzzer_executions"] = fuzz_execs
        out.extra["engine"] = "libFuzzer (%d processes) + rapidcheck (%d processes), seeds derived from VERIF_SEED" % (jobs, vlib.NCPU)
        return vlib.finish(prop, tier, "exploration", out, RULE, t0, ASSUMPTIONS)
    finally:
        vlib.cleanup(wd)


REGISTRY["C12"] = run

m("C12", "exploration",
  "Coverage-guided fuzzing (libFuzzer, ASan+UBSan, exact-size input buffers) of occa::lang::tokenizer_t through its three "
  "entry points (string source, getHeader, file source) for totality, with an in-target print-and-retokenize oracle on "
  "inputs that lex into well-formed tokens; plus rapidcheck-generated token sequences over the whole C/OKL lexical grammar "
  "checked for intended kind/value, print-retokenize identity and longest-match operator splitting against a brute-force "
  "model. Search, not proof: bounded input length and sequence size; finds shallow and medium-depth lexer defects "
  "(end-of-input over-reads, escaping asymmetries, prefix/white-space confusions) within a minute.",
  "Trusted: ASan/UBSan/libFuzzer runtime, rapidcheck, the 20-line longest-prefix model, strtod. No interior NUL. Values of "
  "integer literals are asserted only when representable in the suffix-selected type (wider literals belong to C13/C14).",
  "coverage-guided fuzzing (libFuzzer) with in-target round-trip oracle + property-based testing (rapidcheck) with model oracle",
  "libFuzzer + rapidcheck", "DESIGN.md §4 C12")
