"""C08 — a crash at any point of a kernel build never poisons the cache (fault enumeration with strace kill points)."""
import json
import os
import re
import shutil
import signal
import subprocess
import sys
import time
from concurrent.futures import ThreadPoolExecutor

import vlib
import v_cachefault as cf
from meta import m
from props import REGISTRY

PROP = "C08"
WARM_WITH = {"s0": "s1", "f3": "f2"}      # the "different kernel" the warm cache already holds
POLL = 0.005
MAX_POLLS = 120000                         # watchdog for gates (a count, not a deadline decision)


def scenarios():
    out = []
    for kid in ("s0", "f3"):
        for mode in cf.MODES:
            for warm in (False, True):
                out.append(dict(kernel=kid, mode=mode, warm=warm))
    return out


def sc_key(sc):
    return "%s/%s/%s" % (sc["kernel"], sc["mode"], "warm" if sc["warm"] else "cold")


class HarnessError(Exception):
    pass


# ------------------------------------------------------------------------------------------------
# one scenario: preparation and dry run
# ------------------------------------------------------------------------------------------------
_TEMPLATES = {}
_TLOCK = __import__("threading").Lock()


def warm_template(ctx, sc):
    """A cache that already holds a *different* kernel (and therefore the compiler probes), built once per
    (mode, kernel) by a plain uninjected run."""
    key = (sc["mode"], WARM_WITH[sc["kernel"]])
    with _TLOCK:
        if key not in _TEMPLATES:
            tdir = os.path.join(ctx.wd, "tmpl_%s_%s" % key)
            shutil.rmtree(tdir, ignore_errors=True)
            os.makedirs(tdir)
            cache = os.path.join(tdir, "cache")
            rc, out, err = ctx.run(key[0], [key[1]], cache, os.path.join(tdir, "cc_warm.log"))
            if rc != 0 or cf.check_outputs([key[1]], out):
                raise HarnessError("warm-up build failed rc=%s: %s" % (rc, err[-600:]))
            _TEMPLATES[key] = cache
        return _TEMPLATES[key]


def prepare(ctx, sc, cdir):
    """Fresh cache directory for one case.  A warm cache is a copy of the template: the entries of the other kernel
    and of the compiler probes are keyed by content hashes and hold no path of the cache itself; the dry run uses a
    copy as well, and every killed run is compared call by call with the dry run (kill_landed_elsewhere_than_planned)."""
    shutil.rmtree(cdir, ignore_errors=True)
    os.makedirs(cdir)
    cache = os.path.join(cdir, "cache")
    if sc["warm"]:
        shutil.copytree(warm_template(ctx, sc), cache)
    return cache


def traced_run(ctx, sc, cdir, cache, tag, inject=None, extra=None):
    log = os.path.join(cdir, "strace_%s.log" % tag)
    cclog = os.path.join(cdir, "cc_%s.log" % tag)
    so, se = os.path.join(cdir, "out_%s.txt" % tag), os.path.join(cdir, "err_%s.txt" % tag)
    with open(so, "w") as fo, open(se, "w") as fe:
        p = subprocess.Popen(cf.strace_cmd(log, inject) + [ctx.worker, sc["mode"], sc["kernel"]],
                             env=ctx.env(cache, cclog, traced=True, extra=extra), stdout=fo, stderr=fe,
                             stdin=subprocess.DEVNULL, start_new_session=True)
        try:
            rc = p.wait(timeout=900)
        except subprocess.TimeoutExpired:
            cf.kill_group(p.pid)
            p.wait()
            rc = "timeout"
    return rc, open(so, errors="replace").read(), open(se, errors="replace").read(), log, cclog


def dry_run(ctx, sc, cdir):
    cache = prepare(ctx, sc, cdir)
    rc, out, err, log, cclog = traced_run(ctx, sc, cdir, cache, "dry")
    if rc != 0 or cf.check_outputs([sc["kernel"]], out):
        raise HarnessError("dry run of %s failed rc=%s out=%r err=%s" % (sc_key(sc), rc, out[-200:], err[-800:]))
    calls = cf.normalise(cf.parse_strace(log, cache), cache)
    return calls


def kill_points(calls):
    """-> (points, first_temp_open_idx, last_rename_idx).  A point is a Call touching the cache directory (or the
    wait4 that collects the compiler).  Killing *before* call k == after call k-1."""
    pts = [c for c in calls if c.cache or c.name == "wait4"]
    first_open = None
    last_rename = None
    for c in calls:
        if c.name in ("openat", "creat") and c.cache and "O_CREAT" in c.line and cf.temp_path_of(c.line) and first_open is None:
            first_open = c.idx
        if c.name in ("rename", "renameat2") and c.cache:
            last_rename = c.idx
    return pts, first_open, last_rename


def occurrence(calls, c):
    return sum(1 for d in calls if d.idx <= c.idx and d.norm == c.norm)


def resolve(calls, kill):
    """find the call addressed by a kill spec (regex on the normalised line + occurrence) in a dry run"""
    rx = re.compile(kill["match"])
    n = 0
    for c in calls:
        if rx.search(c.norm):
            n += 1
            if n == int(kill.get("occurrence", 1)):
                return c
    return None


# ------------------------------------------------------------------------------------------------
# one case
# ------------------------------------------------------------------------------------------------
def wait_for(pattern_dir, prefix, proc):
    for _ in range(MAX_POLLS):
        try:
            if any(fn.startswith(prefix) for fn in os.listdir(pattern_dir)):
                return True
        except OSError:
            pass
        if proc is not None and proc.poll() is not None:
            # one more look: the marker may have appeared just before the exit
            return any(fn.startswith(prefix) for fn in os.listdir(pattern_dir))
        time.sleep(POLL)
    return False


def touch(p):
    open(p, "w").close()


def run_case(ctx, case, cdir, calls=None):
    """Execute one kill case.  -> dict(ok, what, klass, nontrivial, killed, detail)"""
    sc, kill = case["scenario"], case["kill"]
    res = dict(ok=True, what="", klass="", nontrivial=False, killed=False, detail={})
    typ = kill["type"]
    release_late = None
    gate = None

    if typ in ("syscall", "torn_text"):
        if calls is None:
            calls = dry_run(ctx, sc, os.path.join(cdir, "dry"))
        target = resolve(calls, kill)
        if target is None:
            res["what"] = "kill point %r does not occur in this tree's build (case skipped)" % kill["match"]
            res["klass"] = "unresolved"
            res["detail"]["unresolved"] = True
            return res
        pts, first_open, last_rename = kill_points(calls)
        cache = prepare(ctx, sc, os.path.join(cdir, "k"))
        kd = os.path.join(cdir, "k")
        rc, out, err, log, cclog = traced_run(ctx, sc, kd, cache, "kill",
                                              inject="%s:signal=KILL:when=%d" % (target.name, target.nth))
        got = cf.normalise(cf.parse_strace(log, cache), cache)
        killed = rc in (-9, 137) and got and got[-1].line.rstrip().endswith("= ?")
        res["killed"] = bool(killed)
        res["detail"]["builder_rc"] = rc
        if killed:
            last = got[-1]
            res["klass"] = "%s:%s" % (typ, last.norm)
            res["detail"]["killed_at"] = last.norm
            res["detail"]["as_planned"] = (last.norm == target.norm and occurrence(got, last) == occurrence(calls, target))
            if not res["detail"]["as_planned"]:
                res["detail"]["planned"] = "#%d %s" % (target.idx, target.norm)
                res["detail"]["landed"] = "#%d %s" % (last.idx, last.norm)
            # non-trivial by the position actually reached in *this* run
            fo = next((c.idx for c in got if c.name in ("openat", "creat") and c.cache and "O_CREAT" in c.line
                       and cf.temp_path_of(c.line)), None)
            res["nontrivial"] = (fo is not None and last.idx > fo and last_rename is not None and
                                 target.idx <= last_rename)
            if typ == "torn_text":
                tp = cf.temp_path_of(last.line) or _fd_path(last.line)
                if tp and os.path.isfile(tp):
                    sz = os.path.getsize(tp)
                    newsz = sz * int(kill["prefix_permille"]) // 1000
                    with open(tp, "r+b") as f:
                        f.truncate(newsz)
                    res["detail"]["torn"] = "%s: %d -> %d bytes" % (os.path.basename(tp), sz, newsz)
                    res["klass"] += " torn"
                else:
                    res["detail"]["torn"] = "no file to tear"
        else:
            res["klass"] = "%s:not-killed" % typ
            res["detail"]["note"] = "builder was not killed (rc=%s): %s" % (rc, err[-300:])
            if rc != 0:
                # the builder failed by itself although nothing was injected before the failure
                res["ok"] = False
                res["what"] = "builder exited %s before reaching the kill point: %s" % (rc, err[-400:])
                return res

    elif typ == "gate":
        cache = prepare(ctx, sc, os.path.join(cdir, "k"))
        kd = os.path.join(cdir, "k")
        gate = os.path.join(kd, "gate")
        os.makedirs(gate)
        cclog = os.path.join(kd, "cc_kill.log")
        extra = {"W_CC_GATE": gate}
        if kill.get("trunc_permille") is not None:
            extra["W_CC_TRUNC"] = str(int(kill["trunc_permille"]))
        with open(os.path.join(kd, "out_kill.txt"), "w") as fo, open(os.path.join(kd, "err_kill.txt"), "w") as fe:
            p = subprocess.Popen([ctx.worker, sc["mode"], sc["kernel"]], env=ctx.env(cache, cclog, extra=extra),
                                 stdout=fo, stderr=fe, stdin=subprocess.DEVNULL, start_new_session=True)
        reached = wait_for(gate, "pre.", p)
        if reached and kill["phase"] == "post":
            touch(os.path.join(gate, "go_pre"))
            reached = wait_for(gate, "post.", p)
        if not reached:
            cf.kill_group(p.pid)
            p.wait()
            raise HarnessError("gate %s never reached in %s: %s" % (kill["phase"], sc_key(sc),
                                                                    open(os.path.join(kd, "err_kill.txt")).read()[-400:]))
        if kill["victim"] == "group":
            cf.kill_group(p.pid)
        else:
            os.kill(p.pid, signal.SIGKILL)
        p.wait()
        res["killed"] = True
        res["nontrivial"] = True      # the compiler runs strictly between the staging of the binary and its rename
        res["klass"] = "gate:%s:%s:%s" % (kill["phase"], kill["victim"],
                                          "torn" if kill.get("trunc_permille") is not None else "whole")
        if kill["victim"] == "builder" and kill.get("release") == "after_followup":
            release_late = gate
        else:
            touch(os.path.join(gate, "go_pre"))
            touch(os.path.join(gate, "go_post"))
            if not cf.wait_orphans(cclog):
                raise HarnessError("orphan compiler did not finish")

    elif typ == "timed":
        cache = prepare(ctx, sc, os.path.join(cdir, "k"))
        kd = os.path.join(cdir, "k")
        cclog = os.path.join(kd, "cc_kill.log")
        with open(os.path.join(kd, "out_kill.txt"), "w") as fo, open(os.path.join(kd, "err_kill.txt"), "w") as fe:
            p = subprocess.Popen([ctx.worker, sc["mode"], sc["kernel"]], env=ctx.env(cache, cclog),
                                 stdout=fo, stderr=fe, stdin=subprocess.DEVNULL, start_new_session=True)
        try:
            p.wait(timeout=int(kill["delay_ms"]) / 1000.0)
            res["killed"] = False
            res["klass"] = "timed:finished-before-kill"
            if p.returncode != 0:
                res["ok"] = False
                res["what"] = "uninjected builder exited %s" % p.returncode
                return res
        except subprocess.TimeoutExpired:
            cf.kill_group(p.pid)
            p.wait()
            res["killed"] = True
            ev = cf.read_cclog(cclog)
            running = [e for e in ev if e[0] == "S" and e[2] == "K"] and not [e for e in ev if e[0] == "E" and e[2] == "K"]
            res["nontrivial"] = bool(running)
            res["klass"] = "timed:%s" % ("compiler-running" if running else
                                        ("after-compile" if any(e[2] == "K" for e in ev) else "before-compile"))
    else:
        raise HarnessError("unknown kill type %r" % typ)

    # ---- oracle: a fresh process builds the same kernel with the same cache directory
    cc1 = os.path.join(kd, "cc_follow.log")
    rc, out, err = ctx.run(sc["mode"], [sc["kernel"]], cache, cc1)
    bad = None
    if rc != 0:
        bad = "follow-up build exited %s: %s" % (rc, cf.err_summary(err, 700))
    else:
        d = cf.check_outputs([sc["kernel"]], out)
        if d:
            bad = "follow-up build ran wrong code: " + d
    if release_late:
        touch(os.path.join(release_late, "go_pre"))
        touch(os.path.join(release_late, "go_post"))
    if not cf.wait_orphans(os.path.join(kd, "cc_kill.log")):
        raise HarnessError("orphan compiler did not finish")
    if bad is None:
        cc2 = os.path.join(kd, "cc_third.log")
        rc, out, err = ctx.run(sc["mode"], [sc["kernel"]], cache, cc2)
        if rc != 0:
            bad = "third process (reuse) exited %s: %s" % (rc, cf.err_summary(err, 700))
        else:
            d = cf.check_outputs([sc["kernel"]], out)
            if d:
                bad = "third process ran wrong code: " + d
            else:
                inv = [e for e in cf.read_cclog(cc2) if e[0] == "S"]
                if inv:
                    bad = "third process recompiled (%d compiler invocations: %s)" % (len(inv), inv[:2])
    if bad is None:
        probs = cf.cache_state_problems(cache)
        if probs:
            bad = "cache holds an incomplete file under a final name: " + "; ".join(probs[:3])
    if bad:
        res["ok"] = False
        res["what"] = "%s, kill=%s: %s" % (sc_key(sc), res["klass"], bad)
        res["detail"]["cache"] = cf.list_cache(cache)
    return res


def _fd_path(line):
    mm = re.search(r"\(\d+<([^>]+)>", line)
    return mm.group(1) if mm else None


# ------------------------------------------------------------------------------------------------
# case generation
# ------------------------------------------------------------------------------------------------
QUICK_STRIDE = 6


def exposed_points(calls, pts):
    """indices of kill points lying between the open-for-writing of a final-named cache file and its close"""
    out = set()
    open_final = None
    for c in calls:
        if c.name in ("openat", "creat") and c.cache and ("O_WRONLY" in c.line or "O_RDWR" in c.line) \
                and not cf.temp_path_of(c.line) and ") = -1" not in c.line:
            open_final = _opened_path(c.line)
            continue
        if open_final is not None and c.cache:
            out.add(c.idx)
            if c.name == "close" and open_final in c.line:
                open_final = None
    return out


def _opened_path(line):
    mm = re.search(r"= \d+<([^>]+)>\s*$", line)
    return mm.group(1) if mm else "\0"


def spec_of(calls, c, typ="syscall", **kw):
    k = dict(type=typ, match="^" + re.escape(c.norm) + "$", occurrence=occurrence(calls, c), syscall=c.name, nth=c.nth)
    k.update(kw)
    return k


def gen_cases(sc, calls, tier):
    pts, first_open, last_rename = kill_points(calls)
    key = sc_key(sc)
    cases = []
    # calls made while a file with a *final* (non-temp) name is open for writing: the window in which a kill leaves a
    # half-written file under a name that later builds trust.  Correct staging makes this set empty.
    exposed = exposed_points(calls, pts)
    if tier == "quick":
        off = vlib.derive(vlib.seed(), PROP, key, "stride") % QUICK_STRIDE
        chosen = [c for i, c in enumerate(pts) if i % QUICK_STRIDE == off or c.name in ("rename", "renameat2")
                  or c.idx in exposed]
    else:
        chosen = pts
    for c in chosen:
        cases.append(dict(scenario=sc, kill=spec_of(calls, c)))
    # torn writes of text files: kill right after the write (before the next call on the cache), file cut to a prefix
    writes = [c for c in pts if c.name == "write" and c.cache]
    after = []
    for w in writes:
        nxt = next((c for c in pts if c.idx > w.idx), None)
        if nxt is not None:
            after.append((w, nxt))
    if tier == "quick":
        pick = []
        if after:
            pick = [a for a in after if a[0].idx in exposed]
            for j in range(2):
                pick.append(after[vlib.derive(vlib.seed(), PROP, key, "tornpick", j) % len(after)])
        reps = 1
    else:
        pick, reps = after, 3
    seen = set()
    for (w, nxt) in pick:
        for j in range(reps):
            pm = vlib.derive(vlib.seed(), PROP, key, "torn", w.idx, j) % 1000
            if (nxt.idx, pm) in seen:
                continue
            seen.add((nxt.idx, pm))
            cases.append(dict(scenario=sc, kill=spec_of(calls, nxt, "torn_text", prefix_permille=pm,
                                                        written=w.norm)))
    # gates around the compiler child
    gates = [dict(type="gate", phase="pre", victim="builder", release="after_followup"),
             dict(type="gate", phase="post", victim="group",
                  trunc_permille=vlib.derive(vlib.seed(), PROP, key, "trunc") % 1000)]
    if tier != "quick":
        gates += [dict(type="gate", phase="pre", victim="builder", release="before_followup"),
                  dict(type="gate", phase="pre", victim="group"),
                  dict(type="gate", phase="post", victim="builder", release="before_followup"),
                  dict(type="gate", phase="post", victim="group")]
        for j in range(6):
            gates.append(dict(type="gate", phase="post", victim="group",
                              trunc_permille=vlib.derive(vlib.seed(), PROP, key, "trunc", j) % 1000))
        for j in range(40):
            gates.append(dict(type="timed", delay_ms=vlib.derive(vlib.seed(), PROP, key, "timed", j) % 1600))
    for g in gates:
        cases.append(dict(scenario=sc, kill=g))
    return cases


# ------------------------------------------------------------------------------------------------
# known findings (class selectors decided on the case) — none at present
# ------------------------------------------------------------------------------------------------
KNOWN_SELECTORS = {}


def excluded_by(case_result_klass, known_ids):
    for slug in known_ids:
        sel = KNOWN_SELECTORS.get(slug)
        if sel and sel(case_result_klass):
            return slug
    return None


# ------------------------------------------------------------------------------------------------
# replays
# ------------------------------------------------------------------------------------------------
def replay_file(ctx, path, wd, tag):
    case = json.load(open(path))
    cdir = os.path.join(wd, "replay_" + tag)
    try:
        r = run_case(ctx, case, cdir)
    finally:
        pass
    return r


def save_violation(case, res, name, cdir=None):
    d = os.path.join(vlib.VERIF, "replays", PROP)
    os.makedirs(d, exist_ok=True)
    p = os.path.join(d, name)
    c = dict(case)
    c["observed"] = dict(what=res["what"], detail=res["detail"])
    with open(p, "w") as f:
        json.dump(c, f, indent=1, sort_keys=True)
    return p


RULE = ("case = (scenario, kill): scenario in {string kernel s0, file kernel f3 with #include} x {Serial, OpenMP} x {cold cache, "
        "cache holding another kernel}; a dry run under strace numbers the builder's file-system calls; kill = SIGKILL at "
        "entry of a call that touches the cache directory (strace inject, builder only), or the same plus the file just "
        "written cut to a generated prefix (torn write), or a kill while the compiler child is held at a gate before / after "
        "compiling (builder only with the compiler surviving as an orphan, or the whole process group, optionally with the "
        "compiler output cut to a generated prefix), thorough: SIGKILL of the group after a generated delay. After each "
        "kill: a fresh process must build and run the kernel correctly with the same cache, a third must reuse the entry with "
        "0 compiler invocations, no final-named file may be incomplete. Non-trivial = the kill landed after the first open "
        "of a staged temp file and not after the last rename of the build (gates: the compiler runs inside that window; "
        "timed: the compiler was running). Distinct = distinct (scenario, normalised killed call, variant).")


def run(prop, tier, replay, t0):
    vlib.ensure_build("asan")
    wd = vlib.workdir(prop)
    try:
        ctx = cf.Ctx(wd)
        if replay:
            r = replay_file(ctx, os.path.abspath(replay), wd, "user")
            print(json.dumps(dict(ok=r["ok"], what=r["what"], klass=r["klass"], detail=r["detail"]), indent=1)[:3000])
            if not r["ok"]:
                print("VIOLATION property=%s replay=%s" % (prop, os.path.abspath(replay)))
                return 1
            return 0
        out = vlib.Outcome()
        findings = vlib.known_findings(prop)
        known_ids = [f.id for f in findings]
        known_files = set(os.path.normpath(os.path.join(vlib.VERIF, f.replay)) for f in findings if f.replay != "-")

        # ---- known findings and regression inputs
        for f in findings:
            path = os.path.normpath(os.path.join(vlib.VERIF, f.replay))
            if f.replay == "-" or not os.path.exists(path):
                continue
            r = replay_file(ctx, path, wd, "k_" + f.id)
            if not r["ok"]:
                print("KNOWN-FINDING: property=%s %s [%s]" % (prop, f.text, f.id), flush=True)
                out.known_printed.append(f.id)
            else:
                out.notes.append("known finding %s no longer reproduces" % f.id)
        rd = os.path.join(vlib.VERIF, "replays", prop)
        nreg = 0
        unresolved = 0
        if os.path.isdir(rd):
            regs = [os.path.join(rd, fn) for fn in sorted(os.listdir(rd))
                    if fn.endswith(".case") and not fn.startswith("violation_")
                    and os.path.normpath(os.path.join(rd, fn)) not in known_files]
            with ThreadPoolExecutor(max_workers=vlib.NCPU) as ex:
                rr = list(ex.map(lambda a: replay_file(ctx, a[1], wd, "g%d" % a[0]), enumerate(regs)))
            for path, r in zip(regs, rr):
                nreg += 1
                if r["detail"].get("unresolved"):
                    unresolved += 1
                    out.notes.append("regression input %s: %s" % (os.path.basename(path), r["what"]))
                if not r["ok"]:
                    out.violations.append((path, "regression input fails: " + r["what"][:600]))
        out.extra["regression_replays"] = nreg

        # ---- dry runs (one per scenario, in parallel)
        scs = scenarios()
        with ThreadPoolExecutor(max_workers=vlib.NCPU) as ex:
            drys = list(ex.map(lambda a: dry_run(ctx, a[1], os.path.join(wd, "dry%d" % a[0])), enumerate(scs)))
        cases = []
        per_sc = {}
        for sc, calls in zip(scs, drys):
            pts, fo, lr = kill_points(calls)
            cs = gen_cases(sc, calls, tier)
            per_sc[sc_key(sc)] = dict(traced_calls=len(calls), kill_points=len(pts),
                                      nontrivial_points=sum(1 for c in pts if fo is not None and lr is not None and fo < c.idx <= lr),
                                      cases=len(cs))
            for c in cs:
                cases.append((c, calls))
        out.extra["scenarios"] = per_sc

        stop = dict(viol=0)

        def one(a):
            i, (case, calls) = a
            cdir = os.path.join(wd, "c%d" % i)
            if stop["viol"] >= 4:
                # the verdict is already "violated": do not spend the remaining budget
                return dict(ok=True, what="", klass="skipped", nontrivial=False, killed=False, detail=dict(skipped=True))
            try:
                r = run_case(ctx, case, cdir, calls)
            except HarnessError as ex:
                r = dict(ok=True, what="", klass="harness-error", nontrivial=False, killed=False,
                         detail=dict(harness_error=str(ex)))
            if r["ok"]:
                shutil.rmtree(cdir, ignore_errors=True)
            else:
                stop["viol"] += 1
            return r

        with ThreadPoolExecutor(max_workers=vlib.NCPU) as ex:
            results = list(ex.map(one, enumerate(cases)))

        nviol = 0
        mismatch = 0
        for i, ((case, calls), r) in enumerate(zip(cases, results)):
            if r["klass"] == "skipped":
                out.classes["skipped-after-violations"] = out.classes.get("skipped-after-violations", 0) + 1
                continue
            out.evaluations += 1
            kk = case["kill"]["type"] + (":" + case["kill"].get("syscall", "") if "syscall" in case["kill"] else "")
            kk += ":nontrivial" if r["nontrivial"] else ":trivial"
            out.classes[kk] = out.classes.get(kk, 0) + 1
            if r["klass"] == "harness-error":
                out.notes.append("harness error in case %d: %s" % (i, r["detail"]["harness_error"][:300]))
                out.classes["harness-error"] = out.classes.get("harness-error", 0) + 1
                continue
            if r["detail"].get("as_planned") is False:
                mismatch += 1
                if mismatch <= 6:
                    out.notes.append("kill landed elsewhere: %s planned %s landed %s" % (
                        sc_key(case["scenario"]), r["detail"].get("planned"), r["detail"].get("landed")))
            if r["nontrivial"]:
                key = sc_key(case["scenario"]) + "|" + r["klass"]
                if case["kill"]["type"] == "torn_text":
                    key += "|%d" % case["kill"]["prefix_permille"]
                if case["kill"].get("trunc_permille") is not None:
                    key += "|%d" % case["kill"]["trunc_permille"]
                out.nontrivial.add(key)
            if len(out.samples) < 8 and (r["nontrivial"] or i % 40 == 0):
                out.samples.append(dict(scenario=case["scenario"], kill=case["kill"], killed_at=r["detail"].get("killed_at"),
                                        torn=r["detail"].get("torn")))
            if not r["ok"]:
                slug = excluded_by(r["klass"], known_ids)
                if slug:
                    out.excluded[slug] = out.excluded.get(slug, 0) + 1
                    continue
                nviol += 1
                if nviol <= 5:
                    name = "violation_seed%d_%d.case" % (vlib.seed(), i)
                    p = save_violation(case, r, name)
                    # confirm in isolation (3x) — the kill is deterministic, the rest of the machine is not
                    again = []
                    for j in range(3):
                        try:
                            rr = run_case(ctx, case, os.path.join(wd, "v%d_%d" % (i, j)))
                            again.append("fail" if not rr["ok"] else "pass")
                        except HarnessError as ex:
                            again.append("harness-error")
                    out.violations.append((p, r["what"][:900] + "  [re-run in isolation: %s]" % ",".join(again)))
        if nviol > 5:
            out.notes.append("%d further violating cases not saved" % (nviol - 5))
        out.extra["violating_cases"] = nviol
        out.extra["kill_landed_elsewhere_than_planned"] = mismatch
        out.extra["exhaustive"] = (tier != "quick")
        out.extra["engine"] = "strace 6.1 syscall fault injection (signal=KILL:when=k) + gated compiler wrapper; prefixes and the quick-tier stride offset derived from VERIF_SEED"
        return vlib.finish(prop, tier, "fault_enumeration", out, RULE, t0,
                           ["libocca built from the working tree with clang ASan+UBSan; the traced builder runs with detect_leaks=0 (LeakSanitizer cannot run under ptrace)",
                            "only the builder is traced (no -f): an injected kill never hits the compiler child; children of a killed builder keep running as orphans unless the whole group is killed",
                            "a torn compiler output is modelled as a prefix of the complete file",
                            "kill = SIGKILL (no power loss: durability of fsync is not part of the property)",
                            "kill points are system-call boundaries of the builder; the syscall sequence of the dry run is re-checked against the killed run (kill_landed_elsewhere_than_planned)"])
    finally:
        vlib.cleanup(wd)


REGISTRY[PROP] = run

m(PROP, "fault_enumeration",
  "Fault enumeration at system-call granularity: a dry run under strace numbers every file-system call the building process "
  "makes on the cache directory; for each such call (quick: every 6th plus all renames plus every call made while a final-named file is open for writing; thorough: all) the build is "
  "repeated on a fresh cache with SIGKILL injected at the entry of that call, plus torn-write variants (file cut to a "
  "generated prefix), kills while the compiler child is held before/after compiling (builder alone or whole group, compiler "
  "output optionally torn) and, thorough only, group kills after generated delays. After every kill a fresh process must "
  "build and run the kernel correctly from the same cache directory, a third process must reuse the entry with zero compiler "
  "invocations, and no file under a final name may be incomplete. 8 scenarios: {string kernel, file kernel with include} x "
  "{Serial, OpenMP} x {cold cache, cache holding another kernel}.",
  "Trusted: strace's inject (verified on a trivial program: the k-th call is not performed), the compiler wrapper (bash), g++. "
  "Kill points are syscall boundaries of the builder only; a torn compiler output is modelled as a prefix. Power loss is not covered.",
  "fault injection by enumeration of system-call kill points (strace inject), torn-write and orphan/group-kill variants, follow-up-process oracle",
  "strace-inject", "DESIGN.md §4 C08")
