"""Generator + reference interpreter for small, well-defined C functions (used by C15).

A program is a JSON-serialisable *descriptor*:
  {"helpers": [func...], "main": func, "calls": [[arg values]...]}
  func = {"name", "ret": type, "params": [[type, spelled type, name]...], "body": [stmt...]}
Expressions and statements are nested lists (see render_expr / render_stmt for the node kinds).  The interpreter
implements the C++ semantics of the generated subset on LP64 (int/unsigned 32 bit, long/unsigned long 64 bit, IEEE
double, char, bool) and raises Undefined for everything the language leaves undefined or that the generator does not
want (signed overflow, division by zero, shift range, out-of-range conversions, out-of-bounds access, unsequenced side
effects are excluded by construction, non-termination via a step budget).  The generator executes every top-level
statement it creates on all argument tuples and keeps only statements that are well defined for all of them, so a
generated program is well defined *by construction*; the interpreter's final values are a prediction that the check
cross-checks against g++ (a mismatch is a generator problem: inconclusive, never a violation).
"""
import copy

# ------------------------------------------------------------------------------------------------
# types
# ------------------------------------------------------------------------------------------------
BITS = {"int": 32, "uint": 32, "long": 64, "ulong": 64, "char": 8, "bool": 1}
SIGNED = {"int", "long", "char"}
SIZEOF = {"int": 4, "uint": 4, "long": 8, "ulong": 8, "double": 8, "char": 1, "bool": 1}
SPELL = {
    "int": ["int"],
    "long": ["long", "long int"],
    "uint": ["unsigned int"],
    "ulong": ["unsigned long", "unsigned long int", "long unsigned int"],
    "double": ["double"],
    "char": ["char"],
}
INTS = ("int", "long", "uint", "ulong")


class Undefined(Exception):
    pass


class Invalid(Exception):
    """ill-typed for the subset (generator must not produce it)"""


def promote(t):
    return "int" if t in ("bool", "char") else t


def common(t1, t2):
    t1, t2 = promote(t1), promote(t2)
    if "double" in (t1, t2):
        return "double"
    if t1 == t2:
        return t1
    pair = (t1, t2)
    if "ulong" in pair:
        return "ulong"
    if "long" in pair:
        return "long"
    if "uint" in pair:
        return "uint"
    return "int"


def in_range(v, t):
    b = BITS[t]
    if t in SIGNED:
        return -(1 << (b - 1)) <= v < (1 << (b - 1))
    return 0 <= v < (1 << b)


def conv(v, tfrom, tto):
    if tto == tfrom:
        return v
    if tto == "double":
        if tfrom == "double":
            return v
        if abs(v) >= (1 << 53):
            raise Undefined("inexact int->double")
        return float(v)
    if tto == "bool":
        return 1 if v != 0 else 0
    if tfrom == "double":
        if v != v or abs(v) >= 2.0 ** 62:
            raise Undefined("double->int out of range")
        iv = int(v)
        if not in_range(iv, tto):
            raise Undefined("double->int out of range")
        return iv
    if tto in SIGNED:
        if not in_range(v, tto):
            raise Undefined("narrowing to signed")   # implementation-defined before C++20: not relied upon
        return v
    return v & ((1 << BITS[tto]) - 1)


def arith(op, t, a, b):
    """both operands already converted to the common type t"""
    if t == "double":
        if op == "+":
            r = a + b
        elif op == "-":
            r = a - b
        elif op == "*":
            r = a * b
        elif op == "/":
            if b == 0:
                raise Undefined("fp division by zero")
            r = a / b
        else:
            raise Invalid("double operand of " + op)
        if r != r or abs(r) > 1e12:
            raise Undefined("double too large")
        return r
    if op == "+":
        r = a + b
    elif op == "-":
        r = a - b
    elif op == "*":
        r = a * b
    elif op in ("/", "%"):
        if b == 0:
            raise Undefined("division by zero")
        q = abs(a) // abs(b)
        if (a < 0) != (b < 0):
            q = -q
        r = q if op == "/" else a - q * b
    elif op == "&":
        r = a & b
    elif op == "|":
        r = a | b
    elif op == "^":
        r = a ^ b
    else:
        raise Invalid(op)
    if t in SIGNED:
        if not in_range(r, t):
            raise Undefined("signed overflow")
        return r
    return r & ((1 << BITS[t]) - 1)


# ------------------------------------------------------------------------------------------------
# rendering
# ------------------------------------------------------------------------------------------------
PREC = {"*": 13, "/": 13, "%": 13, "+": 12, "-": 12, "<<": 11, ">>": 11, "<": 10, "<=": 10, ">": 10, ">=": 10,
        "==": 9, "!=": 9, "&": 8, "^": 7, "|": 6, "&&": 5, "||": 4}


def prec(e):
    k = e[0]
    if k in ("lit", "chr", "var", "par", "call", "idx", "stridx", "str"):
        return 16
    if k == "sizeof":
        return 16 if (e[2] == "p" or e[1][0] == "cast") else 14
    if k == "post":
        return 15
    if k in ("un", "pre", "cast", "deref"):
        return 14
    if k == "bin":
        return PREC[e[1]]
    if k == "ter":
        return 3
    if k == "asg":
        return 2
    if k == "comma":
        return 1
    raise Invalid("prec " + k)


def render_str(pieces, prefix=""):
    if prefix == "R":
        return 'R"(' + "".join(p[0] for p in pieces) + ')"'
    return prefix + '"' + "".join(p[0] for p in pieces) + '"'


def str_prefix(e):
    """encoding prefix of a ["stridx", pieces, index, prefix] / ["str", pieces, prefix] node"""
    n = 3 if e[0] == "stridx" else 2
    return e[n] if len(e) > n else ""


STR_ELEM = {"": ("char", 1), "u8": ("char", 1), "R": ("char", 1), "L": ("int", 4)}


def rx(e, minprec):
    s = render_expr(e)
    return "(" + s + ")" if prec(e) < minprec else s


def render_expr(e):
    k = e[0]
    if k == "lit":
        return e[1]
    if k == "chr":
        return (e[3] if len(e) > 3 else "") + "'" + e[1] + "'"
    if k == "var":
        return e[1]
    if k == "par":
        return "(" + render_expr(e[1]) + ")"
    if k == "un":
        s = rx(e[2], 14)
        # C tokenisation: "- -a" must not become "--a"
        sep = " " if (s[:1] == e[1] and e[1] in "+-&") or e[3:4] == ["sp"] else ""
        return e[1] + sep + s
    if k == "pre":
        return e[1] + rx(e[2], 14)
    if k == "post":
        return rx(e[2], 15) + e[1]
    if k == "bin":
        p = PREC[e[1]]
        return rx(e[2], p) + " " + e[1] + " " + rx(e[3], p + 1)
    if k == "asg":
        return rx(e[2], 14) + " " + e[1] + " " + rx(e[3], 2)
    if k == "ter":
        # OCCA rejects an unparenthesised ?: as the middle operand ("a ? b ? 1 : 2 : 3"): it is always parenthesised
        return rx(e[1], 4) + " ? " + rx(e[2], 4) + " : " + rx(e[3], 3)
    if k == "comma":
        return rx(e[1], 1) + ", " + rx(e[2], 2)
    if k == "cast":
        return "(" + e[2] + ") " + rx(e[3], 14)
    if k == "call":
        return e[1] + "(" + ", ".join(rx(a, 2) for a in e[2]) + ")"
    if k == "idx":
        return e[1] + "[" + rx(e[2], 1) + "]"
    if k == "deref":
        if e[2] is None:
            return "*" + e[1]
        return "*(" + e[1] + " + " + rx(e[2], 13) + ")"
    if k == "stridx":
        return render_str(e[1], str_prefix(e)) + "[" + rx(e[2], 1) + "]"
    if k == "str":
        return render_str(e[1], str_prefix(e))
    if k == "sizeof":
        if e[2] == "p" or e[1][0] == "cast":       # `sizeof (T) x` is not C: a cast is no unary-expression
            return "sizeof(" + render_expr(e[1]) + ")"
        return "sizeof " + rx(e[1], 14)
    raise Invalid("render " + k)


def render_block(stmts, ind):
    out = []
    for s in stmts:
        out.extend(render_stmt(s, ind))
    return out


def body_lines(body, ind, braces):
    """body = list of statements; braces False only for a single simple statement"""
    pad = "  " * ind
    if braces or len(body) != 1:
        return [" {"], render_block(body, ind + 1), [pad + "}"]
    return [""], render_block(body, ind + 1), []


def render_stmt(s, ind):
    pad = "  " * ind
    k = s[0]
    if k == "decl":                       # ["decl", qual, type, spelled, [[name, init]...]]
        q = (s[1] + " ") if s[1] else ""
        if s[1] == "post-const":
            return [pad + s[3] + " const " + ", ".join(n + " = " + rx(i, 2) for n, i in s[4]) + ";"]
        return [pad + q + s[3] + " " + ", ".join(n + " = " + rx(i, 2) for n, i in s[4]) + ";"]
    if k == "arr":                        # ["arr", qual, type, spelled, name, n, sized, [inits]]
        q = (s[1] + " ") if s[1] else ""
        return [pad + q + s[3] + " " + s[4] + "[" + (str(s[5]) if s[6] else "") + "] = {" +
                ", ".join(rx(i, 2) for i in s[7]) + "};"]
    if k == "pdecl":                      # ["pdecl", form, type, spelled, name, target]
        t = s[5]
        if t[0] == "arrbase":
            tx = t[1] if t[2] is None else t[1] + " + " + rx(t[2], 13)
        elif t[0] == "addrof":
            tx = "&" + t[1] + "[" + rx(t[2], 1) + "]"
        else:
            tx = "&" + t[1]
        form = {"": "%s *%s", "pc": "const %s *%s", "cp": "%s * const %s", "cpc": "const %s * const %s",
                "pc2": "%s const *%s"}[s[1]]
        return [pad + form % (s[3], s[4]) + " = " + tx + ";"]
    if k == "sdecl":                      # ["sdecl", form, name, pieces]
        if s[1] == "ptr":
            return [pad + "const char *" + s[2] + " = " + render_str(s[3]) + ";"]
        return [pad + "char " + s[2] + "[] = " + render_str(s[3]) + ";"]
    if k == "svar":                       # ["svar", spelled struct type, name, [[field, type, init]...]]
        q = s[4] if len(s) > 4 else ""
        ty = ("const " + s[1]) if q == "const" else ((s[1] + " const") if q == "post-const" else s[1])
        return [pad + ty + " " + s[2] + " = {" + ", ".join(rx(f[2], 2) for f in s[3]) + "};"]
    if k == "spdecl":                     # ["spdecl", form, spelled struct type, pointer name, struct var, fields]
        form = {"": "%s *%s", "pc": "const %s *%s", "pc2": "%s const *%s", "cp": "%s * const %s"}[s[1]]
        return [pad + form % (s[2], s[3]) + " = &" + s[4] + ";"]
    if k == "expr":
        return [pad + render_expr(s[1]) + ";"]
    if k == "empty":
        return [pad + ";"]
    if k == "block":
        return [pad + "{"] + render_block(s[1], ind + 1) + [pad + "}"]
    if k == "if":                         # ["if", [[cond, body, braces]...], else_body|None, else_braces]
        out = []
        for i, (c, body, br) in enumerate(s[1]):
            head = ("if (" if i == 0 else "else if (") + render_expr(c) + ")"
            a, b, cl = body_lines(body, ind, br)
            out.append(pad + head + a[0])
            out.extend(b)
            out.extend(cl)
        if s[2] is not None:
            a, b, cl = body_lines(s[2], ind, s[3])
            out.append(pad + "else" + a[0])
            out.extend(b)
            out.extend(cl)
        return out
    if k == "for":                        # ["for", init_stmt|None, cond|None, update|None, body, braces]
        init = render_stmt(s[1], 0)[0] if s[1] is not None else ";"
        head = "for (" + init + " " + (render_expr(s[2]) if s[2] is not None else "") + "; " + \
               (render_expr(s[3]) if s[3] is not None else "") + ")"
        a, b, cl = body_lines(s[4], ind, s[5])
        return [pad + head + a[0]] + b + cl
    if k == "while":                      # ["while", cond, body, braces]
        a, b, cl = body_lines(s[2], ind, s[3])
        return [pad + "while (" + render_expr(s[1]) + ")" + a[0]] + b + cl
    if k == "do":                         # ["do", body, cond, braces]
        a, b, cl = body_lines(s[1], ind, s[3])
        if cl:
            return [pad + "do" + a[0]] + b + [cl[0] + " while (" + render_expr(s[2]) + ");"]
        return [pad + "do"] + b + [pad + "while (" + render_expr(s[2]) + ");"]
    if k == "switch":                     # ["switch", expr, [[labels, stmts]...]]   label = expr | "default"
        out = [pad + "switch (" + render_expr(s[1]) + ") {"]
        for labels, stmts in s[2]:
            for lb in labels:
                out.append(pad + ("default:" if lb == "default" else "case " + render_expr(lb) + ":"))
            out.extend(render_block(stmts, ind + 1))
        out.append(pad + "}")
        return out
    if k == "break":
        return [pad + "break;"]
    if k == "continue":
        return [pad + "continue;"]
    if k == "return":
        return [pad + "return " + render_expr(s[1]) + ";"]
    raise Invalid("render stmt " + k)


def render_func(f):
    ps = ", ".join(sp + " " + nm for _, sp, nm in f["params"]) or "void"
    lines = [f.get("retsp", SPELL[f["ret"]][0]) + " " + f["name"] + "(" + ps + ") {"]
    lines += render_block(f["body"], 1)
    lines.append("}")
    return "\n".join(lines)


def render_top(t):
    k = t[0]
    if k == "typedef":                    # ["typedef", name, spelled base]
        return "typedef %s %s;" % (t[2], t[1])
    if k == "struct":                     # ["struct", form, tag, typedef name, [[type, spelled, field]...]]
        body = "{\n" + "".join("  %s %s%s;\n" % (f[1], f[2], (" : %d" % f[3]) if len(f) > 3 and f[3] else "") for f in t[4]) + "}"
        if t[1] == "plain":
            return "struct %s %s;" % (t[2], body)
        if t[1] == "typedef-tag":
            return "typedef struct %s %s %s;" % (t[2], body, t[3])
        return "typedef struct %s %s;" % (body, t[3])
    if k == "enum":                       # ["enum", tag, [[name, value, explicit]...]]
        return "enum %s { %s };" % (t[1], ", ".join(n + (" = %d" % v if ex else "") for n, v, ex in t[2]))
    if k == "gvar":                       # ["gvar", qual, type, spelled, name, init expr]
        return "%s %s %s = %s;" % (t[1], t[3], t[4], rx(t[5], 2))
    raise Invalid("top " + k)


def render_program(d):
    tops = [render_top(t) for t in d.get("tops", [])]
    return "\n".join(tops + [render_func(f) for f in d["helpers"] + [d["main"]]]) + "\n"


# ------------------------------------------------------------------------------------------------
# interpreter
# ------------------------------------------------------------------------------------------------
class Obj:
    """a variable: scalar (n == 1, scalar=True) or array; a pointer variable has kind == 'ptr'"""

    def __init__(self, t, vals, scalar=True, const=False, bits=0):
        self.t, self.vals, self.scalar, self.const = t, vals, scalar, const
        self.ptr = None        # (target Obj, offset, pointee_const) for pointer variables
        self.bits = bits       # width of a bit field (0 = ordinary object)

    def store(self, i, v):
        if self.bits:
            lo, hi = (-(1 << (self.bits - 1)), (1 << (self.bits - 1))) if self.t in SIGNED else (0, 1 << self.bits)
            if not (lo <= v < hi):
                raise Undefined("value does not fit the bit field")   # implementation-defined / wraps: not relied upon
        self.vals[i] = v


class _Break(Exception):
    pass


class _Continue(Exception):
    pass


class _Return(Exception):
    def __init__(self, v):
        self.v = v


class Interp:
    BUDGET = 4000

    def __init__(self, funcs):
        self.funcs = funcs          # name -> func descriptor
        self.scopes = [{}]
        self.globals = {}
        self.steps = 0
        self.depth = 0

    def __deepcopy__(self, memo):
        c = Interp(self.funcs)
        c.globals = self.globals
        c.scopes = copy.deepcopy(self.scopes, memo)
        c.steps, c.depth = self.steps, self.depth
        return c

    # -- environment
    def lookup(self, name):
        for sc in reversed(self.scopes):
            if name in sc:
                return sc[name]
        if name in self.globals:
            return self.globals[name]
        raise Invalid("unknown variable " + name)

    def declare(self, name, obj):
        self.scopes[-1][name] = obj

    def tick(self, n=1):
        self.steps += n
        if self.steps > self.BUDGET:
            raise Undefined("step budget")

    # -- static typing (no evaluation; needed for sizeof)
    def stype(self, e):
        k = e[0]
        if k == "lit":
            return e[2]
        if k == "chr":
            return "int" if len(e) > 3 and e[3] == "L" else "char"
        if k == "var":
            o = self.lookup(e[1])
            if not o.scalar or o.ptr is not None:
                raise Invalid("non-scalar in expression")
            return o.t
        if k == "par":
            return self.stype(e[1])
        if k == "un":
            if e[1] == "!":
                return "bool"
            return promote(self.stype(e[2]))
        if k in ("pre", "post"):
            return self.stype(e[2])
        if k == "bin":
            op = e[1]
            if op in ("<", "<=", ">", ">=", "==", "!=", "&&", "||"):
                return "bool"
            if op in ("<<", ">>"):
                return promote(self.stype(e[2]))
            return common(self.stype(e[2]), self.stype(e[3]))
        if k == "asg":
            return self.stype(e[2])
        if k == "ter":
            ta, tb = self.stype(e[2]), self.stype(e[3])
            return ta if ta == tb else common(ta, tb)
        if k == "comma":
            return self.stype(e[2])
        if k == "cast":
            return e[1]
        if k == "call":
            return self.funcs[e[1]]["ret"]
        if k in ("idx", "deref"):
            o = self.lookup(e[1])
            return o.ptr[0].t if o.ptr is not None else o.t
        if k == "stridx":
            return STR_ELEM[str_prefix(e)][0]
        if k == "sizeof":
            return "ulong"
        raise Invalid("stype " + k)

    def sizeof(self, e):
        k = e[0]
        if k == "par":
            return self.sizeof(e[1])
        if k == "str":
            return (len(e[1]) + 1) * STR_ELEM[str_prefix(e)][1]
        if k == "var":
            o = self.lookup(e[1])
            if o.ptr is not None:
                return 8
            if not o.scalar:
                return SIZEOF[o.t] * len(o.vals)
            return SIZEOF[o.t]
        return SIZEOF[self.stype(e)]

    # -- lvalues
    def lval(self, e):
        """-> (Obj, index, type)"""
        k = e[0]
        if k == "par":
            return self.lval(e[1])
        if k == "var":
            o = self.lookup(e[1])
            if not o.scalar or o.ptr is not None:
                raise Invalid("non-scalar lvalue")
            return o, 0, o.t
        if k in ("idx", "deref"):
            o = self.lookup(e[1])
            off = 0
            if e[2] is not None:
                it, iv = self.ev(e[2])
                if it == "double":
                    raise Invalid("double index")
                off = iv
            if o.ptr is not None:
                tgt, base, _ = o.ptr
                i = base + off
                if not (0 <= i < len(tgt.vals)):
                    raise Undefined("pointer access out of bounds")
                return tgt, i, tgt.t
            if o.scalar:
                raise Invalid("subscript of a scalar")
            if not (0 <= off < len(o.vals)):
                raise Undefined("array access out of bounds")
            return o, off, o.t
        raise Invalid("not an lvalue: " + k)

    def writable(self, e):
        k = e[0]
        if k == "par":
            return self.writable(e[1])
        o = self.lookup(e[1])
        if o.ptr is not None and k in ("idx", "deref"):
            return not o.ptr[2] and not o.ptr[0].const
        return not o.const

    # -- expressions
    def ev(self, e):
        """-> (type, value)"""
        self.tick()
        k = e[0]
        if k == "lit":
            return e[2], e[3]
        if k == "chr":
            return ("int" if len(e) > 3 and e[3] == "L" else "char"), e[2]
        if k == "par":
            return self.ev(e[1])
        if k in ("var", "idx", "deref"):
            o, i, t = self.lval(e)
            return t, o.vals[i]
        if k == "stridx":
            it, iv = self.ev(e[2])
            if it == "double":
                raise Invalid("double index")
            if not (0 <= iv <= len(e[1])):
                raise Undefined("string index out of bounds")
            return STR_ELEM[str_prefix(e)][0], (e[1][iv][1] if iv < len(e[1]) else 0)
        if k == "sizeof":
            return "ulong", self.sizeof(e[1])
        if k == "un":
            t, v = self.ev(e[2])
            op = e[1]
            if op == "!":
                return "bool", 0 if v != 0 else 1
            t2 = promote(t)
            if op == "+":
                return t2, v
            if op == "-":
                if t2 == "double":
                    return t2, -v
                return t2, arith("-", t2, 0, v)
            if op == "~":
                if t2 == "double":
                    raise Invalid("~double")
                r = ~v
                return t2, (r if t2 in SIGNED else r & ((1 << BITS[t2]) - 1))
            raise Invalid("unary " + op)
        if k in ("pre", "post"):
            if not self.writable(e[2]):
                raise Invalid("increment of const")
            o, i, t = self.lval(e[2])
            old = o.vals[i]
            if t == "double":
                new = arith("+" if e[1] == "++" else "-", "double", old, 1.0)
            elif t in ("char", "bool"):
                raise Invalid("increment of char")
            else:
                new = arith("+" if e[1] == "++" else "-", t, old, 1)
            o.store(i, new)
            return t, (new if k == "pre" else old)
        if k == "bin":
            op = e[1]
            if op == "&&":
                _, a = self.ev(e[2])
                if a == 0:
                    return "bool", 0
                _, b = self.ev(e[3])
                return "bool", 1 if b != 0 else 0
            if op == "||":
                _, a = self.ev(e[2])
                if a != 0:
                    return "bool", 1
                _, b = self.ev(e[3])
                return "bool", 1 if b != 0 else 0
            ta, a = self.ev(e[2])
            tb, b = self.ev(e[3])
            if op in ("<<", ">>"):
                ta2, tb2 = promote(ta), promote(tb)
                if "double" in (ta2, tb2):
                    raise Invalid("shift of double")
                if not (0 <= b < BITS[ta2]):
                    raise Undefined("shift count")
                if op == "<<":
                    if ta2 in SIGNED:
                        if a < 0:
                            raise Undefined("shift of negative")
                        r = a << b
                        if not in_range(r, ta2):
                            raise Undefined("shift overflow")
                        return ta2, r
                    return ta2, (a << b) & ((1 << BITS[ta2]) - 1)
                return ta2, a >> b
            t = common(ta, tb)
            a, b = conv(a, promote(ta), t), conv(b, promote(tb), t)
            if op in ("<", "<=", ">", ">=", "==", "!="):
                r = {"<": a < b, "<=": a <= b, ">": a > b, ">=": a >= b, "==": a == b, "!=": a != b}[op]
                return "bool", 1 if r else 0
            if op in ("%", "&", "|", "^") and t == "double":
                raise Invalid("double operand of " + op)
            return t, arith(op, t, a, b)
        if k == "asg":
            if not self.writable(e[2]):
                raise Invalid("assignment to const")
            # C++17: the right operand is sequenced before the left operand
            tv, v = self.ev(e[3])
            o, i, t = self.lval(e[2])
            if t in ("char", "bool"):
                raise Invalid("assignment to char")
            if e[1] == "=":
                nv = conv(v, promote(tv), t)
            else:
                op = e[1][:-1]
                old = o.vals[i]
                if op in ("<<", ">>"):
                    _, nv0 = self._shift(op, t, old, tv, v)
                    nv = conv(nv0, promote(t), t)
                else:
                    ct = common(t, tv)
                    if op in ("%", "&", "|", "^") and ct == "double":
                        raise Invalid("double operand of " + op)
                    nv = conv(arith(op, ct, conv(old, promote(t), ct), conv(v, promote(tv), ct)), ct, t)
            o.store(i, nv)
            return t, nv
        if k == "ter":
            _, c = self.ev(e[1])
            ta, tb = self.stype(e[2]), self.stype(e[3])
            t = ta if ta == tb else common(ta, tb)
            tv, v = self.ev(e[2] if c != 0 else e[3])
            return t, conv(v, promote(tv) if t != tv else tv, t)
        if k == "comma":
            self.ev(e[1])
            return self.ev(e[2])
        if k == "cast":
            tv, v = self.ev(e[3])
            return e[1], conv(v, promote(tv) if e[1] != tv else tv, e[1])
        if k == "call":
            f = self.funcs[e[1]]
            args = []
            for (pt, _, _), a in zip(f["params"], e[2]):
                tv, v = self.ev(a)
                args.append(conv(v, promote(tv) if pt != tv else tv, pt))
            return f["ret"], self.call(f, args)
        raise Invalid("ev " + k)

    def _shift(self, op, ta, a, tb, b):
        ta2, tb2 = promote(ta), promote(tb)
        if "double" in (ta2, tb2):
            raise Invalid("shift of double")
        if not (0 <= b < BITS[ta2]):
            raise Undefined("shift count")
        if op == "<<":
            if ta2 in SIGNED:
                if a < 0:
                    raise Undefined("shift of negative")
                r = a << b
                if not in_range(r, ta2):
                    raise Undefined("shift overflow")
                return ta2, r
            return ta2, (a << b) & ((1 << BITS[ta2]) - 1)
        return ta2, a >> b

    def call(self, f, args):
        self.depth += 1
        if self.depth > 8:
            raise Undefined("call depth")
        saved = self.scopes
        self.scopes = [{}]
        for (pt, _, nm), v in zip(f["params"], args):
            self.declare(nm, Obj(pt, [v]))
        try:
            self.block(f["body"], new_scope=False)
            raise Undefined("function without return")
        except _Return as r:
            return r.v[1] if r.v[0] == f["ret"] else conv(r.v[1], promote(r.v[0]), f["ret"])
        finally:
            self.scopes = saved
            self.depth -= 1

    # -- statements
    def block(self, stmts, new_scope=True):
        if new_scope:
            self.scopes.append({})
        try:
            for s in stmts:
                self.stmt(s)
        finally:
            if new_scope:
                self.scopes.pop()

    def truth(self, e):
        return self.ev(e)[1] != 0

    def stmt(self, s):
        self.tick()
        k = s[0]
        if k == "decl":
            t = s[2]
            for nm, init in s[4]:
                tv, v = self.ev(init)
                self.declare(nm, Obj(t, [conv(v, promote(tv) if tv != t else tv, t)], const=("const" in s[1])))
        elif k == "arr":
            t = s[2]
            vals = []
            for init in s[7]:
                tv, v = self.ev(init)
                if promote(tv) != t and not (init[0] == "lit" and t == "double" and tv == "int"):
                    raise Invalid("narrowing in a braced initialiser")
                vals.append(conv(v, promote(tv) if tv != t else tv, t))
            vals += [0.0 if t == "double" else 0] * (s[5] - len(vals))
            self.declare(s[4], Obj(t, vals, scalar=False, const=("const" in s[1])))
        elif k == "pdecl":
            tg = s[5]
            o = self.lookup(tg[1])
            if o.ptr is not None:
                raise Invalid("pointer to pointer")
            off = 0
            if tg[0] in ("addrof", "arrbase") and tg[2] is not None:
                it, off = self.ev(tg[2])
                if it == "double":
                    raise Invalid("double index")
            if tg[0] == "addrvar":
                if not o.scalar:
                    raise Invalid("&array")
            elif o.scalar:
                raise Invalid("subscript of scalar")
            if not (0 <= off < len(o.vals)):
                raise Undefined("address out of bounds")
            pointee_const = s[1] in ("pc", "cpc", "pc2")
            if o.const and not pointee_const:
                raise Invalid("dropping const")
            if o.t != s[2]:
                raise Invalid("pointer type mismatch")
            p = Obj(s[2], [0])
            p.ptr = (o, off, pointee_const)
            self.declare(s[4], p)
        elif k == "sdecl":
            vals = [p[1] for p in s[3]] + [0]
            self.declare(s[2], Obj("char", vals, scalar=False, const=True))
        elif k == "svar":
            for f in s[3]:
                fn, ft, init = f[0], f[1], f[2]
                tv, v = self.ev(init)
                if promote(tv) != ft and not (init[0] == "lit" and ft == "double" and tv == "int"):
                    raise Invalid("narrowing in a braced initialiser")
                o = Obj(ft, [0], const=bool(s[4] if len(s) > 4 else ""), bits=(f[3] if len(f) > 3 else 0))
                o.store(0, conv(v, promote(tv) if tv != ft else tv, ft))
                self.declare(s[2] + "." + fn, o)
        elif k == "spdecl":
            for fn in s[5]:
                o = self.lookup(s[4] + "." + fn)
                if s[1] in ("pc", "pc2"):
                    o2 = Obj(o.t, o.vals, const=True, bits=o.bits)      # same storage, read-only view
                    self.declare(s[3] + "->" + fn, o2)
                    self.declare("(*" + s[3] + ")." + fn, o2)
                else:
                    self.declare(s[3] + "->" + fn, o)
                    self.declare("(*" + s[3] + ")." + fn, o)
        elif k == "expr":
            self.ev(s[1])
        elif k == "empty":
            pass
        elif k == "block":
            self.block(s[1])
        elif k == "if":
            for c, body, _ in s[1]:
                if self.truth(c):
                    self.block(body)
                    return
            if s[2] is not None:
                self.block(s[2])
        elif k == "for":
            self.scopes.append({})
            try:
                if s[1] is not None:
                    self.stmt(s[1])
                while s[2] is None or self.truth(s[2]):
                    self.tick()
                    try:
                        self.block(s[4])
                    except _Break:
                        break
                    except _Continue:
                        pass
                    if s[3] is not None:
                        self.ev(s[3])
            finally:
                self.scopes.pop()
        elif k == "while":
            while self.truth(s[1]):
                self.tick()
                try:
                    self.block(s[2])
                except _Break:
                    break
                except _Continue:
                    pass
        elif k == "do":
            while True:
                self.tick()
                try:
                    self.block(s[1])
                except _Break:
                    break
                except _Continue:
                    pass
                if not self.truth(s[2]):
                    break
        elif k == "switch":
            tv, v = self.ev(s[1])
            if promote(tv) == "double":
                raise Invalid("switch on double")
            start = None
            for i, (labels, _) in enumerate(s[2]):
                for lb in labels:
                    if lb != "default" and self.ev(lb)[1] == v:
                        start = i
                        break
                if start is not None:
                    break
            if start is None:
                for i, (labels, _) in enumerate(s[2]):
                    if "default" in labels:
                        start = i
                        break
            if start is not None:
                self.scopes.append({})
                try:
                    for labels, stmts in s[2][start:]:
                        for st in stmts:
                            self.stmt(st)
                except _Break:
                    pass
                finally:
                    self.scopes.pop()
        elif k == "break":
            raise _Break()
        elif k == "continue":
            raise _Continue()
        elif k == "return":
            raise _Return(self.ev(s[1]))
        else:
            raise Invalid("stmt " + k)


def run_program(d, args):
    """-> final return value of main for one argument tuple (raises Undefined/Invalid)"""
    funcs = {f["name"]: f for f in d["helpers"] + [d["main"]]}
    it = Interp(funcs)
    it.globals = eval_globals(d, funcs)
    m = d["main"]
    vals = []
    for (pt, _, _), v in zip(m["params"], args):
        vals.append(float(v) if pt == "double" else v)
    return it.call(m, vals)


def eval_globals(d, funcs):
    g = {}
    it = Interp(funcs)
    for t in d.get("tops", []):
        if t[0] == "gvar":
            tv, v = it.ev(t[5])
            g[t[4]] = Obj(t[2], [conv(v, promote(tv) if tv != t[2] else tv, t[2])], const=True)
            it.globals = g
    return g


def check_program(d):
    """-> list of predicted results (one per call) or raises"""
    return [run_program(d, c) for c in d["calls"]]


# ------------------------------------------------------------------------------------------------
# generator
# ------------------------------------------------------------------------------------------------
CHARS = [("a", 97), ("Z", 90), ("0", 48), (" ", 32), ("\\n", 10), ("\\t", 9), ("\\\\", 92), ("\\'", 39), ('"', 34),
         ("\\0", 0), ("\\x41", 65), ("\\101", 65), ("\\\"", 34), ("?", 63), ("%", 37), ("/", 47), ("*", 42)]
# (source text inside a string literal, byte value)
SCHARS = [("a", 97), ("b", 98), ("Q", 81), ("7", 55), (" ", 32), ("\\n", 10), ("\\t", 9), ("\\\\", 92), ("\\\"", 34),
          ("'", 39), ("\\'", 39), ("\\x41", 65), ("\\101", 65), ("%", 37), ("/", 47), ("*", 42), ("\\?", 63), ("\\a", 7),
          ("{", 123), (";", 59), ("\\0", 0)]
HEXDIGITS = "0123456789abcdefABCDEF"


class Gen:
    """one program; `r` is the random source (Hypothesis st.randoms)"""

    def __init__(self, r, avoid=()):
        self.r = r
        self.avoid = set(avoid)
        self.feat = set()
        self.n = 0
        self.funcs = {}
        self.helpers = []
        # per full-expression bookkeeping for unsequenced-side-effect freedom
        self.reads = set()
        self.locked = set()
        self.no_embed = 0
        self.spell = {t: list(v) for t, v in SPELL.items()}
        self.structs = []
        self.excluded = {}          # avoided construct class -> how often the generator turned away from it

    # -- helpers for the random source
    def u(self):
        """uniform in [0, 1) with 8 bits of resolution: one byte of the Hypothesis entropy budget per decision"""
        return self.r.randint(0, 255) / 256.0

    def p(self, x):
        return self.u() < x

    def pick(self, xs):
        return xs[self.r.randint(0, len(xs) - 1)]

    def fresh(self, prefix):
        self.n += 1
        return "%s%d" % (prefix, self.n)

    # -- literals
    def int_lit(self, lo=0, hi=9, t=None):
        v = self.r.randint(lo, hi)
        t = t or self.pick(["int"] * 8 + ["uint", "long", "ulong"])
        if v < 0:
            return ["par", ["un", "-", self.int_lit(-v, -v, t)]] if self.p(0.5) else ["un", "-", self.int_lit(-v, -v, t)]
        style = self.pick(["d"] * 6 + ["x", "o", "b", "X"])
        if style == "d":
            txt = str(v)
        elif style == "x":
            txt = "0x%x" % v
        elif style == "X":
            txt = "0X%X" % v
        elif style == "o":
            txt = "0%o" % v if v else "0"
        else:
            txt = "0b" + bin(v)[2:]
        suf = {"int": [""], "uint": ["u", "U"], "long": ["l", "L"], "ulong": ["ul", "UL", "lu", "uL"]}[t]
        txt += self.pick(suf)
        if style != "d":
            self.feat.add("lit:" + style)
        if t != "int":
            self.feat.add("lit:suffix")
        return ["lit", txt, t, v]

    def dbl_lit(self):
        q = self.r.randint(0, 24)
        v = q / 4.0
        style = self.pick(["f", "f", "e", "dot"])
        if style == "e":
            txt = ("%de-2" % (q * 25)) if self.p(0.5) else ("%.2fe0" % v)
        elif style == "dot" and q % 4 == 0:
            txt = "%d." % (q // 4)
        elif style == "dot" and q < 4:
            txt = ("%.2f" % v)[1:]          # .25 .5 .75
            txt = txt.rstrip("0") if txt != ".00" else ".0"
        else:
            txt = repr(v)
        self.feat.add("lit:double")
        return ["lit", txt, "double", float(txt)]

    def chr_lit(self):
        t, v = self.pick(CHARS)
        if t.startswith("\\"):
            self.feat.add("escape:char")
        if self.p(0.1) and "literal-prefix" not in self.avoid:
            self.feat.add("literal-prefix")
            return ["chr", t, v, "L"]
        return ["chr", t, v]

    def str_lit(self):
        """-> (pieces, prefix)"""
        if self.p(0.2) and "literal-prefix" not in self.avoid:
            self.feat.add("literal-prefix")
            pre = self.pick(["L", "u8", "R", "L"])
            if pre == "R":
                # raw string: no escape processing, backslash and quote are ordinary characters
                n = self.r.randint(1, 5)
                ps = [list(self.pick([("a", 97), ("\\", 92), ('"', 34), ("n", 110), ("'", 39), ("(", 40), ("x", 120)])) for _ in range(n)]
                self.feat.add("raw-string")
                return ps, "R"
            return self.str_pieces(), pre
        return self.str_pieces(), ""

    def str_pieces(self):
        n = self.r.randint(1, 6)
        out = []
        lead = self.p(0.25)
        for i in range(n):
            t, v = ("\\\"", 34) if (i == 0 and lead) else self.pick(SCHARS)
            if v == 0 and i < n:          # keep embedded NULs out (sizeof/strlen semantics stay obvious)
                t, v = "z", 122
            if out:
                prev = out[-1][0]
                # a hex/octal escape must not swallow the next character
                if prev.startswith("\\x") and t[0] in HEXDIGITS:
                    t, v = "-", 45
                if prev.startswith("\\1") and t[0] in "01234567":
                    t, v = "-", 45
                if prev == "\\0" and t[0] in "01234567":
                    t, v = "-", 45
                if prev == "?" and t == "?":
                    t, v = "-", 45
            out.append([t, v])
        if any(p[0].startswith("\\") for p in out):
            self.feat.add("escape:string")
        if out[0][0] == "\\\"":
            self.feat.add("escape:leading-quote")
        return out

    # -- scope
    def visible(self, scope, pred):
        return [v for v in scope if pred(v)]

    # -- expression generation.  scope = list of dicts {name, kind: scalar|arr|ptr|str, t, n, const, pconst, noembed}
    def leaf(self, scope, want):
        """want: 'int' (integer typed), 'num' (integer or double), 'dbl'"""
        r = self.r
        for _ in range(6):
            c = self.u()
            if c < 0.45:
                vs = [v for v in scope if v["kind"] == "scalar" and v["name"] not in self.locked and
                      (v["t"] != "double" if want == "int" else (v["t"] == "double" if want == "dbl" else True))]
                if vs:
                    v = self.pick(vs)
                    self.reads.add(v["name"])
                    return ["var", v["name"]]
            elif c < 0.60:
                if want == "dbl" or (want == "num" and self.p(0.3)):
                    return self.dbl_lit()
                if getattr(self, "enums", None) and self.p(0.25):
                    en = self.pick(self.enums)
                    return ["lit", en[0], "int", en[1]]
                return self.int_lit(0, 12)
            elif c < 0.66:
                if want != "dbl":
                    return self.chr_lit()
            elif c < 0.80:
                vs = [v for v in scope if v["kind"] in ("arr", "ptr", "str") and
                      (v["t"] != "double" if want == "int" else (v["t"] == "double" if want == "dbl" else True))]
                if vs:
                    v = self.pick(vs)
                    self.feat.add("subscript")
                    n = v["n"]
                    form = self.u()
                    if v["kind"] != "str" and form < 0.2:
                        self.feat.add("deref")
                        return ["deref", v["name"], None if self.p(0.5) else self.small_index(scope, n)]
                    return ["idx", v["name"], self.small_index(scope, n)]
            elif c < 0.86:
                if want != "dbl":
                    return self.sizeof_expr(scope)
            elif c < 0.90:
                if want != "dbl":
                    self.feat.add("string-subscript")
                    ps, pre = self.str_lit()
                    return ["stridx", ps, self.int_lit(0, len(ps) - 1, "int"), pre]
            else:
                hs = [h for h in self.helpers if (h["ret"] != "double" if want == "int" else
                                                  (h["ret"] == "double" if want == "dbl" else True))]
                if hs and self.no_embed < 3:
                    h = self.pick(hs)
                    self.feat.add("call")
                    self.no_embed += 1
                    try:
                        args = [self.expr(scope, "dbl" if pt == "double" else "int", 1) for pt, _, _ in h["params"]]
                    finally:
                        self.no_embed -= 1
                    return ["call", h["name"], args]
        return self.dbl_lit() if want == "dbl" else self.int_lit(0, 9, "int")

    def small_index(self, scope, n):
        """index expression that is (mostly) within [0, n)"""
        c = self.u()
        if c < 0.5 or n <= 1:
            return self.int_lit(0, max(0, n - 1), "int")
        vs = [v for v in scope if v["kind"] == "scalar" and v["t"] in ("int", "uint", "long") and v["name"] not in self.locked]
        if not vs:
            return self.int_lit(0, n - 1, "int")
        v = self.pick(vs)
        self.reads.add(v["name"])
        if n & (n - 1) == 0 and c < 0.8:
            return ["bin", "&", ["var", v["name"]], self.int_lit(n - 1, n - 1, "int")]
        if v["t"] == "uint":
            return ["bin", "%", ["var", v["name"]], self.int_lit(n, n, "int")]
        return ["bin", "&", ["var", v["name"]], self.int_lit(1, 1, "int")] if n >= 2 else self.int_lit(0, 0, "int")

    def sizeof_expr(self, scope):
        self.feat.add("sizeof")
        vs = [v for v in scope if v["kind"] in ("scalar", "arr", "ptr") and not v.get("nosizeof")]
        c = self.u()
        nopar = "sizeof-noparen" not in self.avoid
        if vs and c < 0.6:
            v = self.pick(vs)
            form = self.pick(["p", "p", "n"])
            if form == "n" and not nopar:
                self.excluded["sizeof-noparen"] = self.excluded.get("sizeof-noparen", 0) + 1
                form = "p"
            if form == "n":
                self.feat.add("sizeof-noparen")
            return ["sizeof", ["var", v["name"]], form]
        if c < 0.75:
            ps, pre = self.str_lit()
            return ["sizeof", ["str", ps, pre], "p"]
        # an unevaluated operand: may be anything, even undefined when evaluated
        save = (set(self.reads), set(self.locked))
        self.no_embed += 5
        try:
            e = self.expr(scope, "num", 1)
        finally:
            self.no_embed -= 5
            self.reads, self.locked = save
        core = e
        while core[0] == "par":
            core = core[1]
        if core[0] == "var" and any(v["name"] == core[1] and v.get("nosizeof") for v in scope):
            e = ["un", "+", e]              # sizeof of a bit field is not C; sizeof(+bitfield) is
        if self.p(0.2):
            if nopar:
                self.feat.add("sizeof-noparen")
                return ["sizeof", e, "n"]
            self.excluded["sizeof-noparen"] = self.excluded.get("sizeof-noparen", 0) + 1
        return ["sizeof", e, "p"]

    def maybe_par(self, e, p=0.12):
        if self.p(p):
            self.feat.add("redundant-parens")
            return ["par", e]
        return e

    def expr(self, scope, want="int", depth=3):
        r = self.r
        if depth <= 0 or self.u() < 0.18:
            return self.maybe_par(self.leaf(scope, want), 0.06)
        c = self.u()
        sub = lambda w=want, d=depth - 1: self.expr(scope, w, d)
        if want == "dbl":
            if c < 0.6:
                op = self.pick(["+", "-", "*", "/", "+", "-"])
                b = sub() if op != "/" else self.pick([self.dbl_lit, lambda: self.int_lit(1, 8, "int")])()
                if op == "/" and b[3] == 0:
                    b = self.int_lit(2, 2, "int")
                e = ["bin", op, sub("num") if self.p(0.3) else sub(), b]
            elif c < 0.7:
                e = ["un", "-", sub()]
            elif c < 0.8 and "cast" not in self.avoid:
                self.feat.add("cast")
                e = ["cast", "double", "double", sub("int")]
            elif c < 0.9:
                e = ["ter", self.cond(scope, depth - 1), sub(), sub()]
            else:
                e = self.leaf(scope, want)
            return self.maybe_par(e)
        # integer / numeric
        if c < 0.30:
            op = self.pick(["+", "-", "*", "+", "-"])
            e = ["bin", op, sub(), sub()]
        elif c < 0.38:
            op = self.pick(["/", "%"])
            d = self.u()
            w = "int"
            if d < 0.5:
                b = self.int_lit(1, 9)
            elif d < 0.8:
                b = ["par", ["bin", "|", self.expr(scope, "int", depth - 2), self.int_lit(1, 1, "int")]]
            else:
                b = self.expr(scope, "int", depth - 1)
            e = ["bin", op, self.expr(scope, w, depth - 1), b]
        elif c < 0.46:
            op = self.pick(["<<", ">>"])
            a = self.expr(scope, "int", depth - 1)
            b = self.int_lit(0, 4, "int") if self.p(0.6) else ["par", ["bin", "&", self.expr(scope, "int", depth - 2), self.int_lit(3, 3, "int")]]
            if op == "<<" and self.p(0.7):
                a = ["par", ["bin", "&", a, self.int_lit(15, 15, "int")]] if a[0] != "lit" else a
            e = ["bin", op, a, b]
        elif c < 0.56:
            op = self.pick(["&", "|", "^"])
            e = ["bin", op, self.expr(scope, "int", depth - 1), self.expr(scope, "int", depth - 1)]
        elif c < 0.66:
            op = self.pick(["<", "<=", ">", ">=", "==", "!="])
            e = ["bin", op, sub("num"), sub("num")]
        elif c < 0.72:
            op = self.pick(["&&", "||"])
            e = ["bin", op, sub("num"), sub("num")]
        elif c < 0.80:
            op = self.pick(["-", "-", "+", "~", "!"])
            if op in "+-" and self.p(0.3) and "unary-chain" not in self.avoid:
                # - -x, + +x, - --x, -(-x): the blank / parentheses between the two operators matter
                inner = self.leaf(scope, "int")
                c2 = self.u()
                if c2 < 0.5:
                    e = ["un", op, ["un", op, inner]]
                elif c2 < 0.7 and inner[0] == "var" and self.no_embed == 0 and inner[1] not in self.locked:
                    vs = [v for v in scope if v["name"] == inner[1] and v["kind"] == "scalar" and not v["const"] and
                          not v.get("noembed") and v["t"] in ("int", "long")]
                    if vs:
                        self.locked.add(inner[1])
                        e = ["bin", "+", ["un", op, ["pre", op + op, inner]], self.int_lit(0, 5, "int")]
                    else:
                        e = ["un", op, ["par", ["un", op, inner]]]
                else:
                    e = ["un", op, ["par", ["un", op, inner]]]
                self.feat.add("unary-chain")
            else:
                e = ["un", op, sub("num" if op == "!" else "int")]
                if op in "+-" and e[2][0] == "un" and e[2][1] == op:
                    self.feat.add("unary-chain")
        elif c < 0.86:
            e = ["ter", self.cond(scope, depth - 1), sub(), sub()]
            if e[2][0] == "ter" or e[3][0] == "ter":
                self.feat.add("ternary-chain")
        elif c < 0.91 and "cast" not in self.avoid:
            self.feat.add("cast")
            t = self.pick(["int", "long", "uint", "int", "long"])
            inner = self.expr(scope, "num" if t != "uint" else "int", depth - 1)
            e = ["cast", t, self.pick(self.spell[t]), inner]
        elif c < 0.96 and self.no_embed == 0:
            e = self.embedded_side_effect(scope, depth - 1)
        else:
            e = self.leaf(scope, "int" if want == "int" else "num")
        return self.maybe_par(e)

    def cond(self, scope, depth):
        c = self.u()
        if c < 0.6:
            op = self.pick(["<", "<=", ">", ">=", "==", "!="])
            return ["bin", op, self.expr(scope, "num", depth), self.expr(scope, "num", depth)]
        if c < 0.8:
            return ["bin", self.pick(["&&", "||"]), self.cond(scope, depth - 1), self.cond(scope, depth - 1)] \
                if depth > 0 else self.expr(scope, "int", 0)
        if c < 0.9:
            return ["un", "!", self.expr(scope, "num", depth)]
        return self.expr(scope, "int", depth)

    def embedded_side_effect(self, scope, depth):
        """(x = e), (x += e), x++, --x inside a larger expression; x is a plain local nobody else touches in this
        full expression (no unsequenced modification/read)"""
        vs = [v for v in scope if v["kind"] == "scalar" and not v["const"] and not v.get("noembed") and
              v["t"] in ("int", "long") and v["name"] not in self.reads and v["name"] not in self.locked]
        if not vs:
            return self.leaf(scope, "int")
        v = self.pick(vs)
        self.locked.add(v["name"])
        self.feat.add("embedded-side-effect")
        c = self.u()
        if c < 0.3:
            # OCCA rejects x++ / x-- directly in front of ) or ] ("Ambiguous operator"): an embedded postfix operator is
            # always the left operand of a binary operator
            post = ["post", self.pick(["++", "--"]), ["var", v["name"]]]
            return ["bin", self.pick(["+", "-", "*", "<", "=="]), post, self.expr(scope, "int", max(0, depth - 1))]
        if c < 0.5:
            return ["pre", self.pick(["++", "--"]), ["var", v["name"]]]
        if c < 0.8:
            return ["par", ["asg", "=", ["var", v["name"]], self.expr(scope, "int", depth)]]
        if c < 0.9:
            self.feat.add("comma")
            return ["par", ["comma", ["asg", self.pick(["+=", "-=", "="]), ["var", v["name"]], self.expr(scope, "int", depth - 1)],
                            self.expr(scope, "int", depth - 1)]]
        return ["par", ["asg", self.pick(["+=", "-=", "*=", "^=", "|="]), ["var", v["name"]], self.expr(scope, "int", depth)]]

    def full(self, fn, *a, **kw):
        """generate one full expression (fresh sequencing bookkeeping)"""
        self.reads, self.locked = set(), set()
        return fn(*a, **kw)

    # -- statements
    def decl_stmt(self, scope):
        r = self.r
        t = self.pick(["int", "int", "long", "uint", "double", "ulong", "long"])
        qual = self.pick(["", "", "", "const", "post-const"])
        if qual == "post-const" and "post-const" in self.avoid:
            qual = "const"
        if qual:
            self.feat.add("decl:const")
        n = 1 if self.p(0.75) else 2
        items = []
        for _ in range(n):
            nm = self.fresh("v")
            init = self.full(self.expr, scope, "dbl" if t == "double" else ("int" if t in ("uint", "ulong") else "num"), 2)
            items.append([nm, init])
        if n > 1:
            self.feat.add("decl:multi")
        new = [{"name": nm, "kind": "scalar", "t": t, "const": bool(qual)} for nm, _ in items]
        return ["decl", qual, t, self.pick(self.spell[t]), items], new

    def arr_stmt(self, scope):
        t = self.pick(["int", "int", "long", "double", "uint"])
        n = self.pick([2, 3, 4, 4, 8])
        k = n if self.p(0.7) else self.r.randint(1, n)
        sized = True if k < n else self.p(0.7)
        inits = []
        for _ in range(k):
            if t == "double":
                inits.append(self.full(self.expr, scope, "dbl", 1))
            else:
                self.reads, self.locked = set(), set()
                inits.append(self.typed_int(scope, t))
        nm = self.fresh("arr")
        qual = "const" if self.p(0.15) else ""
        self.feat.add("decl:array")
        return ["arr", qual, t, self.pick(self.spell[t]), nm, n, sized, inits], \
               [{"name": nm, "kind": "arr", "t": t, "n": n, "const": bool(qual)}]

    def typed_int(self, scope, t):
        """an expression whose static type is exactly t (no narrowing inside braces)"""
        vs = [v for v in scope if v["kind"] == "scalar" and v["t"] == t]
        c = self.u()
        lit = lambda: self.int_lit(0, 9, t)
        if t == "int":
            lit = lambda: self.pick([self.int_lit(0, 20, "int"), self.chr_lit()])
        if vs and c < 0.4:
            return ["bin", self.pick(["+", "-", "*"]), ["var", self.pick(vs)["name"]], lit()]
        if vs and c < 0.6:
            return ["var", self.pick(vs)["name"]]
        if c < 0.75:
            return ["bin", self.pick(["+", "*", "|"]), lit(), lit()]
        return lit()

    def ptr_stmt(self, scope):
        arrs = [v for v in scope if v["kind"] == "arr"]
        scal = [v for v in scope if v["kind"] == "scalar" and v["t"] in ("int", "long", "double", "uint") and not v.get("noaddr")]
        if not arrs and not scal:
            return None, []
        nm = self.fresh("p")
        if arrs and self.p(0.75):
            a = self.pick(arrs)
            c = self.u()
            k = self.r.randint(0, a["n"] - 1)
            if c < 0.4:
                tg, off = ["arrbase", a["name"], None], 0
            elif c < 0.6:
                tg, off = ["arrbase", a["name"], self.int_lit(k, k, "int")], k
            else:
                tg, off = ["addrof", a["name"], self.int_lit(k, k, "int")], k
            t, n, tconst = a["t"], a["n"] - off, a["const"]
        else:
            s = self.pick(scal)
            s["noembed"] = True
            tg, t, n, tconst = ["addrvar", s["name"]], s["t"], 1, s["const"]
        forms = ["pc", "cpc"] if tconst else ["", "", "pc", "cp", "cpc"]
        if "ptr-post-const" not in self.avoid and self.p(0.15):
            forms = ["pc2"]
        form = self.pick(forms)
        self.feat.add("decl:pointer" + ("-const" if form else ""))
        return ["pdecl", form, t, self.pick(self.spell[t]), nm, tg], \
               [{"name": nm, "kind": "ptr", "t": t, "n": n, "const": form in ("pc", "cpc", "pc2"), "alias": tg[1]}]

    def str_stmt(self, scope):
        ps = self.str_pieces()
        nm = self.fresh("s")
        self.feat.add("decl:string")
        return ["sdecl", self.pick(["ptr", "ptr", "arr"]), nm, ps], \
               [{"name": nm, "kind": "str", "t": "char", "n": len(ps) + 1, "const": True}]

    def lvalue(self, scope):
        """assignable location -> (expr, type) or None"""
        vs = [v for v in scope if (v["kind"] == "scalar" and not v["const"]) or
              (v["kind"] in ("arr", "ptr") and not v["const"])]
        if not vs:
            return None
        v = self.pick(vs)
        if v["kind"] == "scalar":
            return ["var", v["name"]], v["t"]
        if self.p(0.25):
            self.feat.add("deref")
            return ["deref", v["name"], None if self.p(0.6) else self.small_index(scope, v["n"])], v["t"]
        self.feat.add("subscript")
        return ["idx", v["name"], self.small_index(scope, v["n"])], v["t"]

    def assign_stmt(self, scope):
        self.reads, self.locked = set(), set()
        lv = self.lvalue(scope)
        if lv is None:
            return None
        e, t = lv
        c = self.u()
        if c < 0.15 and t != "double":
            self.feat.add("incdec")
            return ["expr", [self.pick(["pre", "post"]), self.pick(["++", "--"]), e]]
        if t == "double":
            op = self.pick(["=", "=", "+=", "-=", "*="])
            return ["expr", ["asg", op, e, self.expr(scope, "dbl", 2)]]
        if e[0] == "var":
            self.reads.add(e[1])
        if c < 0.25 and e[0] == "var":
            # chained assignment x = y = e (right associative)
            vs = [v for v in scope if v["kind"] == "scalar" and not v["const"] and v["t"] in ("int", "long") and
                  v["name"] != e[1] and not v.get("noembed")]
            if vs:
                y = self.pick(vs)
                self.reads.add(y["name"])
                self.feat.add("assign-chain")
                return ["expr", ["asg", self.pick(["=", "+="]), e, ["asg", self.pick(["=", "+=", "-="]), ["var", y["name"]],
                                                                   self.expr(scope, "int", 2)]]]
        op = self.pick(["=", "=", "=", "+=", "-=", "*=", "/=", "%=", "&=", "|=", "^=", "<<=", ">>="])
        if op in ("/=", "%="):
            rhs = self.int_lit(1, 7, "int")
        elif op in ("<<=", ">>="):
            rhs = self.int_lit(0, 3, "int")
        elif op == "=":
            rhs = self.expr(scope, "num" if t in ("int", "long") else "int", 3)
        else:
            rhs = self.expr(scope, "int", 2)
        if op != "=":
            self.feat.add("compound-assign")
        return ["expr", ["asg", op, e, rhs]]

    def acc_stmt(self, scope):
        """fold a value into the result accumulator r (long)"""
        self.reads, self.locked = {"r"}, set()
        c = self.u()
        if c < 0.25:
            e = self.expr(scope, "dbl", 2)
            inner = ["call", "h_fold", [e]]
        else:
            inner = self.expr(scope, "int", 3)
        if prec(inner) < 16 and self.p(0.8):
            inner = ["par", inner]
        body = ["bin", "+", ["bin", "*", ["var", "r"], ["lit", "7", "int", 7]], inner]
        return ["expr", ["asg", "=", ["var", "r"], ["bin", "%", ["par", body], ["lit", "1000003", "int", 1000003]]]]

    def body(self, scope, depth, in_loop, in_switch=False, nmax=3, loop_body=False):
        """list of statements for a nested body; declarations stay local to it"""
        local = list(scope)
        out = []
        for _ in range(self.r.randint(1, nmax)):
            s, new = self.statement(local, depth, in_loop, in_switch, nested=True)
            if s is not None:
                out.append(s)
                local.extend(new)
            if loop_body and self.p(0.2):
                # if (c) continue; / if (c) break; directly in a loop body
                self.feat.add("break/continue")
                cond = self.full(self.cond, local, 1)
                b = [[self.pick(["continue", "continue", "break"])]]
                out.append(["if", [[cond, b, self.braces_for(b)]], None, True])
        if not out:
            out.append(self.acc_stmt(local))
        return out

    def braces_for(self, body):
        if len(body) == 1 and body[0][0] in ("expr", "break", "continue", "return", "empty") and self.p(0.35):
            self.feat.add("braceless-body")
            return False
        return True

    def statement(self, scope, depth, in_loop=False, in_switch=False, nested=False):
        """-> (stmt, new scope entries)"""
        r = self.r
        c = self.u()
        if depth <= 0:
            c = c * 0.55
        if c < 0.20:
            return self.acc_stmt(scope), []
        if c < 0.36:
            s = self.assign_stmt(scope)
            return (s, []) if s is not None else (self.acc_stmt(scope), [])
        if c < 0.44:
            return self.decl_stmt(scope)
        if c < 0.48:
            return self.arr_stmt(scope)
        if c < 0.51:
            s, new = self.ptr_stmt(scope)
            return (s, new) if s is not None else self.decl_stmt(scope)
        if c < 0.53:
            if self.structs and self.p(0.6):
                if self.p(0.45):
                    s2, new = self.spdecl_stmt(scope)
                    if s2 is not None:
                        return s2, new
                return self.svar_stmt(scope)
            if getattr(self, "enums", None) and self.p(0.4):
                nm = self.fresh("e")
                en = self.pick(self.enums)
                self.feat.add("enum-var")
                return ["decl", "", "int", "enum E0", [[nm, ["lit", en[0], "int", en[1]]]]], \
                       [{"name": nm, "kind": "scalar", "t": "int", "const": True, "noaddr": True}]
            return self.str_stmt(scope)
        if c < 0.55:
            if in_loop and self.p(0.6):
                self.feat.add("break/continue")
                cond = self.full(self.cond, scope, 1)
                b = [[self.pick(["break"] if in_switch else ["break", "continue"])]]
                return ["if", [[cond, b, self.braces_for(b)]], None, True], []
            if nested and self.p(0.3):
                self.feat.add("early-return")
                cond = self.full(self.cond, scope, 1)
                self.reads, self.locked = set(), set()
                b = [["return", ["bin", "+", ["var", "r"], self.int_lit(0, 9, "int")]]]
                return ["if", [[cond, b, self.braces_for(b)]], None, True], []
            if self.p(0.3):
                self.feat.add("empty-statement")
                return ["empty"], []
            return self.acc_stmt(scope), []
        if c < 0.67:
            self.feat.add("if")
            arms = []
            for i in range(1 if self.p(0.7) else self.r.randint(2, 3)):
                cond = self.full(self.cond, scope, 2)
                b = self.body(scope, depth - 1, in_loop, in_switch)
                arms.append([cond, b, self.braces_for(b)])
            if len(arms) > 1:
                self.feat.add("else-if")
            els, eb = None, True
            if self.p(0.55):
                self.feat.add("else")
                els = self.body(scope, depth - 1, in_loop, in_switch)
                eb = self.braces_for(els)
            # dangling else: a brace-less inner if without else directly under an arm that has an else after it
            for a in arms:
                if not a[2] and a[1][0][0] == "if":
                    a[2] = True
            return ["if", arms, els, eb], []
        if c < 0.77:
            return self.for_stmt(scope, depth), []
        if c < 0.84:
            return self.while_stmt(scope, depth)
        if c < 0.90:
            return self.switch_stmt(scope, depth, in_loop), []
        if c < 0.95:
            self.feat.add("block")
            return ["block", self.body(scope, depth - 1, in_loop, in_switch)], []
        return self.acc_stmt(scope), []

    def for_stmt(self, scope, depth):
        self.feat.add("for")
        i = self.fresh("i")
        n = self.r.randint(1, 5)
        c = self.u()
        it = self.pick(["int", "int", "long", "uint"])
        iv = {"name": i, "kind": "scalar", "t": it, "const": True}      # const: the body must not assign it
        sp = self.pick(self.spell[it])
        lit = lambda v: self.int_lit(v, v, "int")
        var = ["var", i]
        if c < 0.4:
            init = ["decl", "", it, sp, [[i, lit(0)]]]
            cond = ["bin", self.pick(["<", "!="]), var, lit(n)]
            upd = self.pick([["pre", "++", var], ["post", "++", var], ["asg", "+=", var, lit(1)]])
        elif c < 0.6:
            init = ["decl", "", it, sp, [[i, lit(n)]]]
            cond = ["bin", ">", var, lit(0)]
            upd = self.pick([["pre", "--", var], ["post", "--", var], ["asg", "-=", var, lit(1)]])
        elif c < 0.75:
            init = ["decl", "", it, sp, [[i, lit(0)]]]
            cond = ["bin", "<=", ["bin", "*", var, lit(2)], lit(2 * n)] if self.p(0.5) else ["bin", "<", var, ["bin", "+", lit(n), lit(1)]]
            upd = ["asg", "+=", var, lit(2)]
        elif c < 0.9:
            # two induction variables, comma in init and update
            j = self.fresh("j")
            self.feat.add("for:comma")
            init = ["decl", "", it, sp, [[i, lit(0)], [j, lit(2 * n)]]]
            cond = ["bin", "<", var, ["var", j]]
            upd = ["comma", ["pre", "++", var], ["pre", "--", ["var", j]]]
            body = self.body(scope + [iv, {"name": j, "kind": "scalar", "t": it, "const": True}], depth - 1, True, loop_body=True)
            return ["for", init, cond, upd, body, self.braces_for(body)]
        else:
            # loop variable declared before the loop, init as expression statement, condition with && / ternary
            self.feat.add("for:expr-init")
            init = ["expr", ["asg", "=", var, lit(0)]]
            cond = ["bin", "&&", ["bin", "<", var, lit(n)], ["bin", "<", ["var", "r"], ["lit", "2000000", "int", 2000000]]]
            upd = ["post", "++", var]
            body = self.body(scope + [iv], depth - 1, True, loop_body=True)
            return ["block", [["decl", "", it, sp, [[i, lit(7)]]], ["for", init, cond, upd, body, self.braces_for(body)]]]
        body = self.body(scope + [iv], depth - 1, True, loop_body=True)
        return ["for", init, cond, upd, body, self.braces_for(body)]

    def while_stmt(self, scope, depth):
        w = self.fresh("w")
        n = self.r.randint(1, 4)
        wv = {"name": w, "kind": "scalar", "t": "int", "const": True}
        lit = lambda v: self.int_lit(v, v, "int")
        var = ["var", w]
        decl = ["decl", "", "int", "int", [[w, lit(0)]]]
        c = self.u()
        if c < 0.5:
            self.feat.add("while")
            if self.p(0.5):
                cond = ["bin", "<", ["post", "++", var], lit(n)]
                body = self.body(scope + [wv], depth - 1, True, loop_body=True)
            else:
                cond = ["bin", "<", var, lit(n)]
                body = [["expr", [self.pick(["pre", "post"]), "++", var]]] + self.body(scope + [wv], depth - 1, True, nmax=2, loop_body=True)
            st = ["while", cond, body, self.braces_for(body)]
        else:
            self.feat.add("do-while")
            if self.p(0.5):
                cond = ["bin", "<", ["pre", "++", var], lit(n)]
                body = self.body(scope + [wv], depth - 1, True, loop_body=True)
            else:
                cond = ["bin", self.pick(["<", "!="]), var, lit(n)]
                body = [["expr", ["asg", "+=", var, lit(1)]]] + self.body(scope + [wv], depth - 1, True, nmax=2, loop_body=True)
            st = ["do", body, cond, self.braces_for(body)]
        return ["block", [decl, st]], []

    def switch_stmt(self, scope, depth, in_loop):
        self.feat.add("switch")
        sel = self.full(self.expr, scope, "int", 1)
        sel = ["bin", "&", sel if prec(sel) >= 8 else ["par", sel], self.int_lit(3, 3, "int")]
        labels = [0, 1, 2, 3]
        groups = []
        used = 0
        ngroups = self.r.randint(1, 3)
        for g in range(ngroups):
            k = 1 if self.p(0.7) else 2
            ls = []
            for _ in range(k):
                if used < 4:
                    v = labels[used]
                    used += 1
                    ls.append(self.int_lit(v, v, "int") if self.p(0.8) else ["chr", "\\%o" % v, v])
            if not ls:
                break
            if self.p(0.25) and not any("default" in gl for gl, _ in groups):
                ls.insert(self.r.randint(0, len(ls)), "default")
            stmts = self.body(scope, depth - 1, in_loop, True, nmax=2)
            # declarations directly under a case label would be jumped over: wrap them
            if any(s[0] in ("decl", "arr", "pdecl", "sdecl", "svar", "spdecl") for s in stmts):
                stmts = [["block", stmts]]
            if self.p(0.7):
                stmts.append(["break"])
            else:
                self.feat.add("switch:fallthrough")
            groups.append([ls, stmts])
        if not any("default" in gl for gl, _ in groups) and self.p(0.5):
            stmts = self.body(scope, depth - 1, in_loop, True, nmax=1)
            if any(s[0] in ("decl", "arr", "pdecl", "sdecl", "svar", "spdecl") for s in stmts):
                stmts = [["block", stmts]]
            groups.append([["default"], stmts])
            self.feat.add("switch:default")
        return ["switch", sel, groups]

    # -- top-level declarations: typedefs, a struct, an enum, global constants
    def gen_tops(self):
        r = self.r
        tops = []
        self.enums = []
        for i in range(r.randint(0, 3)):
            t = self.pick(["int", "long", "uint", "double", "int", "long"])
            base = self.pick(self.spell[t])
            chained = [x for x in self.spell[t] if x.startswith("T")]
            if chained and self.p(0.6):
                base = self.pick(chained)
            if base.startswith("T") and "typedef-chain" in self.avoid:
                base = SPELL[t][0]
            name = "T%d" % i
            tops.append(["typedef", name, base])
            self.feat.add("typedef-chain" if base.startswith("T") else "typedef")
            self.spell[t].append(name)
        if self.p(0.4) and "struct" not in self.avoid:
            fields = []
            for j in range(r.randint(1, 3)):
                t = self.pick(["int", "long", "double", "uint", "int"])
                bits = 0
                # only (signed) int bit fields: an unsigned bit field narrower than int promotes to int, not to unsigned
                if t == "int" and self.p(0.3) and "bitfield" not in self.avoid:
                    bits = self.pick([5, 7, 9, 12])
                    self.feat.add("bitfield")
                fields.append([t, self.pick(self.spell[t]), "m%d" % j, bits])
            form = self.pick(["plain", "plain", "typedef-tag", "typedef-anon"])
            tops.append(["struct", form, "S0", "TS0", fields])
            spell = {"plain": ["struct S0"], "typedef-tag": ["struct S0", "TS0"], "typedef-anon": ["TS0"]}[form]
            self.feat.add("struct:" + form)
            if form == "plain" and self.p(0.4) and "typedef-struct-ref" not in self.avoid:
                tops.append(["typedef", "TS1", "struct S0"])
                spell.append("TS1")
                self.feat.add("typedef-struct-ref")
            self.structs.append({"spell": spell, "fields": fields})
        if self.p(0.3) and "enum" not in self.avoid:
            items, v = [], 0
            for j in range(r.randint(2, 4)):
                ex = self.p(0.4)
                if ex:
                    v += r.randint(0, 3)
                items.append(["E0%s" % "ABCD"[j], v, ex])
                v += 1
            tops.append(["enum", "E0", items])
            self.enums = [(n, v) for n, v, _ in items]
            self.feat.add("enum")
        for i in range(r.randint(0, 2) if self.p(0.5) else 0):
            t = self.pick(["int", "long", "double", "uint"])
            self.no_embed += 10
            try:
                init = self.full(self.expr, [], "dbl" if t == "double" else "int", 1)
            finally:
                self.no_embed -= 10
            tops.append(["gvar", self.pick(["const", "static const"]), t, self.pick(self.spell[t]), "g%d" % i, init])
            self.feat.add("global-const")
        return tops

    def svar_stmt(self, scope):
        st = self.pick(self.structs)
        nm = self.fresh("q")
        inits, new = [], []
        for ft, _, fn, bits in st["fields"]:
            self.reads, self.locked = set(), set()
            if bits:
                init = self.int_lit(0, 9, ft)
            else:
                init = self.expr(scope, "dbl", 1) if ft == "double" else self.typed_int(scope, ft)
            inits.append([fn, ft, init, bits])
            ent = {"name": nm + "." + fn, "kind": "scalar", "t": ft, "const": False, "noembed": True}
            if bits:
                ent["noaddr"] = ent["nosizeof"] = True
            new.append(ent)
        qual = self.pick(["", "", "", "const", "post-const"])
        if qual == "post-const" and "struct-post-const" in self.avoid:
            qual = "const"
        if qual:
            for v in new:
                v["const"] = True
            self.feat.add("struct-var-const")
            if qual == "post-const":
                self.feat.add("struct-post-const")
        new.append({"name": nm, "kind": "structvar", "t": None, "const": bool(qual), "struct": st})
        self.feat.add("struct-var")
        return ["svar", self.pick(st["spell"]), nm, inits, qual], new

    def spdecl_stmt(self, scope):
        svs = [v for v in scope if v["kind"] == "structvar"]
        if not svs:
            return None, []
        sv = self.pick(svs)
        st = sv["struct"]
        nm = self.fresh("ps")
        forms = ["pc"] if sv["const"] else ["", "", "pc", "cp"]
        if "struct-post-const" not in self.avoid:
            forms.append("pc2")
        form = self.pick(forms)
        new = []
        for ft, _, fn, bits in st["fields"]:
            for nme in (nm + "->" + fn, "(*" + nm + ")." + fn):
                ent = {"name": nme, "kind": "scalar", "t": ft, "const": form in ("pc", "pc2"), "noembed": True}
                if bits:
                    ent["noaddr"] = ent["nosizeof"] = True
                new.append(ent)
        self.feat.add("struct-pointer" + ("-const" if form in ("pc", "pc2") else ""))
        if form == "pc2":
            self.feat.add("struct-post-const")
        return ["spdecl", form, self.pick(st["spell"]), nm, sv["name"], [f[2] for f in st["fields"]]], new

    # -- helper functions
    def helper(self, idx):
        nm = "h%d" % idx
        ret = self.pick(["int", "long", "double", "int"])
        nparams = self.r.randint(1, 3)
        params, scope = [], []
        for i in range(nparams):
            t = self.pick(["int", "long", "double", "uint"]) if ret == "double" else self.pick(["int", "long", "uint", "int"])
            pn = "x%d" % i
            params.append([t, self.pick(self.spell[t]), pn])
            scope.append({"name": pn, "kind": "scalar", "t": t, "const": False, "noembed": True})
        self.no_embed += 10
        try:
            want = "dbl" if ret == "double" else "int"
            if self.p(0.35):
                cond = self.full(self.cond, scope, 1)
                b1 = [["return", self.full(self.expr, scope, want, 2)]]
                body = [["if", [[cond, b1, self.braces_for(b1)]], None, True],
                        ["return", self.full(self.expr, scope, want, 2)]]
            else:
                body = [["return", self.full(self.expr, scope, want, 3)]]
        finally:
            self.no_embed -= 10
        return {"name": nm, "ret": ret, "params": params, "body": body}


H_FOLD = {"name": "h_fold", "ret": "long", "params": [["double", "double", "x"]],
          "body": [["decl", "", "long", "long", [["t", ["bin", "*", ["var", "x"], ["lit", "8", "int", 8]]]]],
                   ["return", ["bin", "%", ["var", "t"], ["lit", "100003", "int", 100003]]]]}

PARAM_NAMES = ["a", "b", "c", "d"]


def gen_args(g, params):
    out = []
    for t, _, _ in params:
        if t == "double":
            out.append(g.r.randint(-12, 24) / 4.0)
        elif t in ("uint", "ulong"):
            out.append(g.r.randint(0, 12))
        else:
            out.append(g.r.randint(-9, 12))
    return out


def _try_stmt(states, d_main, stmt):
    """execute stmt on every live interpreter state; on any Undefined roll everything back"""
    backup = [copy.deepcopy(st) for st in states]
    try:
        for st in states:
            if st["done"]:
                continue
            try:
                st["it"].steps = 0
                st["it"].stmt(stmt)
            except _Return as r:
                st["done"] = True
                st["ret"] = r.v
        return states, True
    except (Undefined, Invalid, _Break, _Continue, RecursionError, OverflowError, ZeroDivisionError):
        return backup, False


def program(r, avoid=(), nstmts=(4, 9)):
    """-> descriptor (always valid: every statement was executed on all calls)"""
    g = Gen(r, avoid)
    d = {"helpers": [copy.deepcopy(H_FOLD)], "calls": []}
    g.helpers = [d["helpers"][0]]
    d["tops"] = g.gen_tops() if "tops" not in g.avoid else []
    gscope = [{"name": t[4], "kind": "scalar", "t": t[2], "const": True, "noembed": True} for t in d["tops"] if t[0] == "gvar"]
    # parameters
    np_ = r.randint(2, 4)
    types = [g.pick(["int", "long", "uint", "double"]) for _ in range(np_)]
    if "int" not in types and "long" not in types:
        types[0] = "int"
    params = [[t, g.pick(g.spell[t]), PARAM_NAMES[i]] for i, t in enumerate(types)]
    main = {"name": "f", "ret": "long", "params": params, "body": []}
    d["main"] = main
    d["calls"] = [gen_args(g, params) for _ in range(3)]
    # helpers: each one must be callable (well defined) for a few small arguments; otherwise it is dropped
    for hi in range(r.randint(0, 2)):
        h = g.helper(hi)
        funcs = {f["name"]: f for f in d["helpers"]}
        funcs[h["name"]] = h
        ok = True
        for probe in ([1] * 3, [0] * 3, [5, 2, 3], [-3, 7, 1], [12, 12, 12]):
            try:
                it = Interp(funcs)
                vals = [(float(v) if pt == "double" else (abs(v) if pt in ("uint", "ulong") else v))
                        for (pt, _, _), v in zip(h["params"], probe)]
                it.call(h, vals)
            except (Undefined, Invalid, RecursionError, OverflowError, ZeroDivisionError):
                ok = False
                break
        if ok:
            d["helpers"].append(h)
            g.helpers.append(h)
    funcs = {f["name"]: f for f in d["helpers"] + [main]}
    scope = gscope + [{"name": nm, "kind": "scalar", "t": t, "const": False} for t, _, nm in params]
    scope.append({"name": "r", "kind": "scalar", "t": "long", "const": False, "noembed": True})
    try:
        glob = eval_globals(d, funcs)
    except (Undefined, Invalid):
        d["tops"] = [t for t in d["tops"] if t[0] != "gvar"]
        scope = [v for v in scope if v not in gscope]
        glob = {}
    # live interpreter states, one per call
    states = []
    for call in d["calls"]:
        it = Interp(funcs)
        it.globals = glob
        for (pt, _, nm), v in zip(params, call):
            it.declare(nm, Obj(pt, [float(v) if pt == "double" else v]))
        states.append({"it": it, "done": False, "ret": None})
    first = ["decl", "", "long", "long", [["r", ["lit", "0", "int", 0]]]]
    states, _ = _try_stmt(states, main, first)
    main["body"].append(first)
    # a struct variable (and a pointer to it) / an enum variable early, so that the declared types are used
    early = []
    if g.structs and g.p(0.8):
        early.append(lambda: g.svar_stmt(scope))
        if g.p(0.6):
            early.append(lambda: g.spdecl_stmt(scope))
    if g.enums and g.p(0.5):
        def _ev():
            nm = g.fresh("e")
            en = g.pick(g.enums)
            g.feat.add("enum-var")
            form = g.pick(["enum E0", "enum E0", "const enum E0", "enum E0 const"])
            if form == "enum E0 const" and "struct-post-const" in g.avoid:
                form = "const enum E0"
            return ["decl", "", "int", form, [[nm, ["lit", en[0], "int", en[1]]]]], \
                   [{"name": nm, "kind": "scalar", "t": "int", "const": True, "noaddr": True}]
        early.append(_ev)
    for mk in early:
        stmt, new = mk()
        if stmt is None:
            continue
        states, ok = _try_stmt(states, main, stmt)
        if ok:
            main["body"].append(stmt)
            scope.extend(new)
    target = r.randint(*nstmts)
    tries = 0
    while len(main["body"]) - 1 < target and tries < target * 3:
        tries += 1
        save = (g.n, set(g.feat))
        stmt, new = g.statement(scope, 2)
        if stmt is None:
            continue
        states, ok = _try_stmt(states, main, stmt)
        if ok:
            main["body"].append(stmt)
            scope.extend(new)
        else:
            g.feat = save[1]
        if all(st["done"] for st in states):
            break
    # final fold of the scalar locals, then return
    for v in scope:
        if v["kind"] == "scalar" and v["name"] not in ("r",) and v not in gscope and g.u() < 0.5:
            if v["t"] == "double":
                inner = ["call", "h_fold", [["var", v["name"]]]]
            else:
                inner = ["var", v["name"]]
            stmt = ["expr", ["asg", "=", ["var", "r"], ["bin", "%", ["par", ["bin", "+", ["bin", "*", ["var", "r"], ["lit", "7", "int", 7]], inner]],
                                                        ["lit", "1000003", "int", 1000003]]]]
            states, ok = _try_stmt(states, main, stmt)
            if ok:
                main["body"].append(stmt)
    main["body"].append(["return", ["var", "r"]])
    d["feat"] = sorted(g.feat)
    d["excluded"] = dict(g.excluded)
    return d


# ------------------------------------------------------------------------------------------------
# classification (non-triviality rule of C15)
# ------------------------------------------------------------------------------------------------
def walk_exprs(node, fn):
    """call fn(expr) on every expression node (pre-order) inside a statement/expression/function"""
    if isinstance(node, dict):
        for s in node["body"]:
            walk_exprs(s, fn)
        return
    if not isinstance(node, list) or not node:
        return
    if isinstance(node[0], str) and node[0] in EXPR_KINDS and _is_expr(node):
        fn(node)
    for c in node:
        if isinstance(c, list):
            walk_exprs(c, fn)


EXPR_KINDS = {"lit", "chr", "var", "par", "un", "pre", "post", "bin", "asg", "ter", "comma", "cast", "call", "idx", "deref",
              "stridx", "str", "sizeof"}


def _is_expr(n):
    k = n[0]
    if k in ("lit",):
        return len(n) == 4 and isinstance(n[1], str)
    return True


def is_scaffold(e):
    """r = (r * 7 + E) % M : the fixed accumulator statement; only E is generated"""
    try:
        return (e[0] == "asg" and e[1] == "=" and e[2] == ["var", "r"] and e[3][0] == "bin" and e[3][1] == "%" and
                e[3][2][0] == "par" and e[3][2][1][0] == "bin" and e[3][2][1][1] == "+" and
                e[3][2][1][2] == ["bin", "*", ["var", "r"], ["lit", "7", "int", 7]])
    except (IndexError, TypeError):
        return False


OPK = ("bin", "ter", "asg", "un", "cast", "pre", "post", "comma")


def classify(d):
    """-> (set of class names, nontrivial flag).  The accumulator scaffold is not counted."""
    cls = set(d.get("feat", []))
    flags = {"mixed": False, "escape": False, "cast": False}

    def visit(e):
        k = e[0]
        if k == "cast":
            flags["cast"] = True
        if k == "chr" and e[1].startswith("\\"):
            flags["escape"] = True
        if k in ("stridx", "str") and any(p[0].startswith("\\") for p in e[1]):
            flags["escape"] = True
        if k in ("bin", "asg"):
            cls.add("op:" + e[1])
        elif k == "un":
            cls.add("op:unary" + e[1])
        elif k == "ter":
            cls.add("op:?:")
        elif k in ("pre", "post"):
            cls.add("op:" + k + e[1])
        elif k == "comma":
            cls.add("op:,")
        if k in OPK:
            pp = prec(e)
            kids = [c for c in e[1:] if isinstance(c, list) and c and isinstance(c[0], str) and c[0] in EXPR_KINDS]
            for c in kids:
                if c[0] not in OPK:
                    continue
                cp = prec(c)
                if cp > pp:
                    # rendered without parentheses: two operators of different precedence next to each other
                    flags["mixed"] = True
                    if k == "bin" and c[0] == "un":
                        cls.add("unary-after-binary")
                    elif k == "bin" and c[0] == "bin":
                        cls.add("mixed-precedence-binary")
                    elif k == "bin" and c[0] == "cast":
                        cls.add("cast-in-binary")
                elif cp < pp:
                    cls.add("needed-parens")
                elif k == "bin" and c is e[3]:
                    cls.add("needed-parens-assoc")

    def rec(node):
        if isinstance(node, dict):
            for s in node["body"]:
                rec(s)
            return
        if not isinstance(node, list) or not node:
            return
        if isinstance(node[0], str) and node[0] in EXPR_KINDS:
            if is_scaffold(node):
                rec(node[3][2][1][3])
                return
            visit(node)
        if isinstance(node[0], str) and node[0] == "sdecl" and any(p[0].startswith("\\") for p in node[3]):
            flags["escape"] = True
        for c in node:
            if isinstance(c, list):
                rec(c)

    for f in d["helpers"][1:] + [d["main"]]:
        rec(f)
    if flags["mixed"]:
        cls.add("NT:mixed-precedence")
    if flags["escape"]:
        cls.add("NT:escaped-literal")
    if flags["cast"]:
        cls.add("NT:cast")
    return cls, any(flags.values())
