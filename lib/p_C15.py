"""C15 — printing a parsed program preserves its meaning and re-parses identically.

Generator: lib/v_cgen.py (typed AST of small well-defined C functions; every statement is executed by a reference
interpreter on all argument tuples while the program is built).  Worker: harness/w_print.cpp (parse, print, re-parse,
print again, structural serialisation of both trees).
  O1 structural : S(parse(print(parse(p)))) == S(parse(p)), print(parse(print(parse(p)))) == print(parse(p)),
                  and the printed text must be accepted by OCCA's parser again.
  O2 semantic   : original text and printed text are compiled by g++ in one TU per batch (one namespace per text) and
                  evaluated on 3 argument tuples; the results must be equal.  The interpreter's prediction is only a
                  cross-check of the generator (disagreement with g++ on the ORIGINAL text = inconclusive).
A program OCCA rejects is outside the property's quantifier ("that OCCA parses successfully"): counted as rejected.
"""
import json
import os
import re
import time
import select
import subprocess
import threading
import copy
from concurrent.futures import ThreadPoolExecutor

from hypothesis import given, seed, settings, strategies as st, HealthCheck, Phase

import vlib
import v_cgen as G
from meta import m
from props import REGISTRY

PROP = "C15"

# construct classes the generator avoids: known-finding id -> generator class names (v_cgen.Gen.avoid)
KNOWN_AVOID = {
    "sizeof-unparenthesized": ["sizeof-noparen"],
    # outside the generator's grammar (never generated): listed with their replay only
    "short-int-declarator": [],
    "function-pointer-declarator": [],
}
# construct classes OCCA's parser rejects (outside the property's quantifier); kept out of the generator so that the
# check is not vacuous.  Listed in the evidence.
REJECTED_CLASSES = {
    "sizeof-type": "sizeof(<type name>) is rejected ('Unable to apply operator'): int q = sizeof(int);",
    "bare-unsigned": "`unsigned x` without int/long/char is rejected ('Expected a type')",
    "short-int": "`short int x` is rejected as a declaration statement ('Expected a [;]')",
    "assign-in-ternary": "`a ? b = 1 : 2` is rejected (?: operands with an unparenthesised assignment)",
    "ternary-in-ternary-middle": "`a ? b ? 1 : 2 : 3` is rejected ('Unable to form an expression'); the generator parenthesises it",
    "postfix-before-close": "`(a++)`, `p[a--]`, `(1 + a++) * 2`: x++ / x-- directly before ) or ] is rejected ('Ambiguous operator')",
}


def hx(s):
    return s.encode("utf-8", "surrogateescape").hex() if s else "-"


def unhx(h):
    return "" if h == "-" else bytes.fromhex(h).decode("utf-8", "replace")


def strip_ansi(s):
    return re.sub(r"\x1b\[[0-9;]*m", "", s)


# ------------------------------------------------------------------------------------------------
# worker
# ------------------------------------------------------------------------------------------------
class PrintWorker:
    """one w_print process; requests are pipelined; restarts after a crash and names the crashing request"""
    CRASH_BUDGET = 6

    def __init__(self, binary, wd, tag, fresh=False):
        self.binary, self.wd, self.tag, self.fresh = binary, wd, str(tag), fresh
        self.cur = os.path.join(wd, "w_print_%s.cur" % self.tag)
        self.errlog = os.path.join(wd, "w_print_%s.err" % self.tag)
        self.p = None
        self.restarts = 0

    def _start(self):
        env = vlib.base_env(self.wd, "w" + self.tag)
        env["W_PRINT_CUR"] = self.cur
        if self.fresh:
            env["W_PRINT_FRESH"] = "1"
        # leaks on OCCA's error paths are not part of this property
        env["ASAN_OPTIONS"] = env["ASAN_OPTIONS"].replace("detect_leaks=1", "detect_leaks=0") + ":hard_rss_limit_mb=3072"
        self.errf = open(self.errlog, "w")
        self.p = subprocess.Popen([self.binary], stdin=subprocess.PIPE, stdout=subprocess.PIPE, stderr=self.errf,
                                  env=env, bufsize=0)
        self.buf = b""

    def _reap(self, kill=False):
        if self.p is None:
            return None
        if kill:
            self.p.kill()
        try:
            self.p.stdin.close()
        except OSError:
            pass
        try:
            rc = self.p.wait(timeout=120)
        except subprocess.TimeoutExpired:
            self.p.kill()
            rc = self.p.wait()
        self.p.stdout.close()
        self.errf.close()
        self.p = None
        return rc

    def batch(self, cases, timeout=600):
        """cases = [(id, source text)] -> list of answers (dict) in order"""
        answers = []
        todo = list(cases)
        while todo:
            if self.restarts >= self.CRASH_BUDGET and len(cases) > 1:
                answers += [{"crash": "not executed: crash budget of this worker exhausted", "kind": "skipped"} for _ in todo]
                break
            got, why = self._pump(todo, timeout)
            answers += got
            todo = todo[len(got):]
            if why is None:
                continue
            cid = todo[0][0]
            if why == "timeout":
                self._reap(kill=True)
                self.restarts += 1
                answers.append({"crash": "no answer within %ds (watchdog)" % timeout, "kind": "hang"})
            elif why == "eof":
                rc = self._reap()
                self.restarts += 1
                try:
                    cur = open(self.cur).read().strip()
                except OSError:
                    cur = "?"
                err = open(self.errlog, errors="replace").read()
                sig = vlib.crash_signature(err)
                if rc is not None and rc < 0:
                    sig = "signal %d; %s" % (-rc, sig)
                cf = cur.split()
                phase = cf[1] if len(cf) > 1 and cf[0] == cid else "?"
                answers.append({"crash": sig + ("" if cf[:1] == [cid] else " [side file names request %s]" % cur),
                                "kind": "crash", "phase": phase})
            else:
                self._reap(kill=True)
                self.restarts += 1
                answers.append({"crash": why, "kind": "crash"})
            todo = todo[1:]
        return answers

    def _pump(self, todo, timeout):
        if self.p is None:
            self._start()
        data = b"".join(("%s %s\n" % (cid, hx(text))).encode() for cid, text in todo)
        wfd, rfd = self.p.stdin.fileno(), self.p.stdout.fileno()
        os.set_blocking(wfd, False)
        got, sent = [], 0
        while len(got) < len(todo):
            wl = [wfd] if sent < len(data) else []
            r, w_, _ = select.select([rfd], wl, [], timeout)
            if not r and not w_:
                return got, "timeout"
            if w_:
                try:
                    sent += os.write(wfd, data[sent:sent + (1 << 16)])
                except BlockingIOError:
                    pass
                except (BrokenPipeError, OSError):
                    sent = len(data)
            if r:
                chunk = os.read(rfd, 1 << 16)
                if not chunk:
                    return got, "eof"
                self.buf += chunk
                while b"\n" in self.buf and len(got) < len(todo):
                    line, self.buf = self.buf.split(b"\n", 1)
                    f = line.decode().split()
                    want = todo[len(got)][0]
                    if len(f) != 8 or f[0] != want:
                        return got, "unparsable answer %r" % line[:120]
                    got.append({"ok0": f[1] == "1", "ok1": f[2] == "1", "P1": unhx(f[3]), "P2": unhx(f[4]),
                                "S0": unhx(f[5]), "S1": unhx(f[6]), "diag": strip_ansi(unhx(f[7]))})
        return got, None

    def close(self):
        if self.p is None:
            return
        try:
            self.p.stdin.write(b"quit -\n")
        except (BrokenPipeError, OSError):
            pass
        self._reap()


# ------------------------------------------------------------------------------------------------
# items
# ------------------------------------------------------------------------------------------------
def make_item(d):
    """descriptor -> item (what the oracles need; JSON-serialisable)"""
    return {"src": G.render_program(d), "sig": [p[0] for p in d["main"]["params"]], "calls": d["calls"],
            "expect": d.get("expect"), "desc": d}


def fmt_arg(t, v):
    if t == "double":
        return repr(float(v))
    if t in ("uint", "ulong"):
        return "%du" % v
    return str(v)


def first_diff(a, b):
    n = min(len(a), len(b))
    i = 0
    while i < n and a[i] == b[i]:
        i += 1
    lo = max(0, i - 60)
    return "...%s <<>> %s..." % (a[lo:i + 60].replace("\n", "\\n"), b[lo:i + 60].replace("\n", "\\n"))


def reject_class(diag):
    first = ""
    for line in diag.splitlines():
        mm = re.search(r"Error: (.*)", line)
        if mm:
            first = mm.group(1).strip()
            break
    return first[:60] or "no diagnostic"


# ------------------------------------------------------------------------------------------------
# host compiler (O2)
# ------------------------------------------------------------------------------------------------
def build_tu(entries):
    """entries = [(k, item, printed text)] -> C++ text.  Output lines: '<k> <tuple> o|p <value>'"""
    tu = ["#include <cstdio>", "#include <cstdlib>", "#include <cstring>"]
    for k, it, printed in entries:
        tu.append("namespace o_%d {\n%s\n}" % (k, it["src"]))
        tu.append("namespace p_%d {\n%s\n}" % (k, printed))
    tu.append("int main(int argc, char **argv) {\n  int from = argc > 1 ? atoi(argv[1]) : -1;")
    for k, it, _ in entries:
        tu.append("  if (%d >= from) {" % k)
        for t, call in enumerate(it["calls"]):
            args = ", ".join(fmt_arg(ty, v) for ty, v in zip(it["sig"], call))
            for w in "op":
                tu.append('    printf("%d %d %s S\\n"); fflush(stdout);' % (k, t, w))
                tu.append('    printf("%d %d %s %%ld\\n", (long) %s_%d::f(%s)); fflush(stdout);' % (k, t, w, w, k, args))
        tu.append("  }")
    tu.append('  printf("DONE\\n");\n  return 0;\n}')
    return "\n".join(tu) + "\n"


def gxx(path_base, text):
    cpp, exe = path_base + ".cpp", path_base + ".exe"
    with open(cpp, "w") as f:
        f.write(text)
    r = vlib.sh(["g++", "-std=gnu++17", "-O0", "-w", "-fno-strict-aliasing", cpp, "-o", exe])
    return (exe if r.returncode == 0 else None), r.stdout


def run_exe(exe, ks, timeout=60):
    """-> (results {(k, t, w): value}, problems {k: (w, text)})
    The generated programs finish within a few thousand interpreter steps (microseconds of native code); the watchdog
    is > 1000x the time of a whole TU and only ever fires for a *printed* program that lost its loop exit (the original
    text runs first in the same process; a watchdog hit while the original runs is inconclusive, never a failure)."""
    results, problems = {}, {}
    start = -1
    pending = sorted(ks)
    while pending:
        try:
            p = subprocess.run([exe, str(start)], stdout=subprocess.PIPE, stderr=subprocess.DEVNULL, text=True,
                               errors="replace", timeout=timeout)
            out, hang, rc = p.stdout, False, p.returncode
        except subprocess.TimeoutExpired as e:
            out = e.stdout or ""
            if isinstance(out, bytes):
                out = out.decode(errors="replace")
            hang, rc = True, None
        last = None
        for line in out.splitlines():
            f = line.split()
            if len(f) == 4 and f[3] == "S":
                last = (int(f[0]), int(f[1]), f[2])
            elif len(f) == 4:
                results[(int(f[0]), int(f[1]), f[2])] = int(f[3])
                last = None
        if "DONE" in out and not hang:
            break
        if last is None:
            break
        k = last[0]
        problems[k] = (last[2], ("did not finish within %ds" % timeout) if hang else "process died (exit %s)" % rc)
        pending = [x for x in pending if x > k]
        if not pending:
            break
        start = pending[0]
    return results, problems


# ------------------------------------------------------------------------------------------------
# the oracles
# ------------------------------------------------------------------------------------------------
TIMES = {"occa": 0.0, "g++": 0.0, "run": 0.0, "generate": 0.0, "reduce": 0.0}


def judge(worker, wd, tag, items, lock=None, o2_mode="full"):
    """-> list of verdict dicts {"status": ok|fail|rejected|inconclusive, "kind", "what"}"""
    t_ = time.time()
    answers = worker.batch([("q%d" % i, it["src"]) for i, it in enumerate(items)])
    TIMES["occa"] += time.time() - t_
    verdicts = [None] * len(items)
    entries = []
    for i, (it, a) in enumerate(zip(items, answers)):
        if "crash" in a:
            if a["kind"] == "skipped":
                verdicts[i] = {"status": "inconclusive", "kind": "skipped", "what": a["crash"]}
            elif a.get("phase") == "parse0":
                # OCCA crashed while parsing the generated text: the program is not one "that OCCA parses successfully"
                # (front-end robustness is property C16); counted as rejected, with the crash site as diagnostic
                verdicts[i] = {"status": "rejected", "kind": "rejected", "what": "CRASH while parsing: " + a["crash"][:140],
                               "diag": a["crash"]}
            else:
                verdicts[i] = {"status": "fail", "kind": a["kind"],
                               "what": "OCCA %s in phase %s (print0 = printing the parsed program, parse1/print1 = re-parsing / "
                                       "re-printing the printed text): %s" % (a["kind"], a.get("phase", "?"), a["crash"])}
            continue
        if not a["ok0"]:
            verdicts[i] = {"status": "rejected", "kind": "rejected", "what": reject_class(a["diag"]), "diag": a["diag"][:600]}
            continue
        it["_a"] = a
        if not a["ok1"]:
            d2 = a["diag"].split("@@reparse@@")[-1]
            verdicts[i] = {"status": "fail", "kind": "reparse",
                           "what": "the printed text is rejected by OCCA's parser (%s); printed: %s" %
                                   (reject_class(d2), excerpt_near_error(a["P1"], d2))}
        elif a["S0"] != a["S1"]:
            verdicts[i] = {"status": "fail", "kind": "structure",
                           "what": "re-parsed tree differs from the original tree: " + first_diff(a["S0"], a["S1"])}
        elif a["P1"] != a["P2"]:
            verdicts[i] = {"status": "fail", "kind": "idempotence",
                           "what": "printing is not idempotent: " + first_diff(a["P1"], a["P2"])}
        entries.append((i, it, a["P1"]))
    if entries:
        if o2_mode == "full":
            o2 = semantic(wd, tag, entries)
        else:
            # reduction of an O1 failure: only make sure that the candidate is still a program g++ accepts
            o2 = {}
            for i, it, printed in entries:
                eo, lo = gxx(os.path.join(wd, "tu_%s_o%d" % (tag, i)),
                             "namespace o_%d {\n%s\n}\nint main() { return 0; }\n" % (i, it["src"]))
                o2[i] = ({"status": "ok", "kind": "", "what": ""} if eo else
                         {"status": "inconclusive", "kind": "generator", "what": "g++ rejects the ORIGINAL text"})
        for i, v in o2.items():
            if verdicts[i] is None or (verdicts[i]["status"] == "ok"):
                verdicts[i] = v
            elif v["status"] == "fail" and verdicts[i]["status"] == "fail":
                verdicts[i]["what"] += "  || also: " + v["what"][:200]
            verdicts[i]["o2"] = v["status"] + ":" + v.get("kind", "")
    for i in range(len(items)):
        items[i].pop("_a", None)
        if verdicts[i] is None:
            verdicts[i] = {"status": "ok", "kind": "", "what": ""}
    return verdicts


def excerpt_near_error(text, diag):
    mm = re.search(r"\(source\):(\d+):(\d+)", diag)
    lines = text.split("\n")
    if mm:
        ln = int(mm.group(1))
        if 1 <= ln <= len(lines):
            return lines[ln - 1].strip()[:160]
    return text[:160].replace("\n", "\\n")


def semantic(wd, tag, entries):
    """O2 on [(i, item, printed)] -> {i: verdict}"""
    out = {}
    base = os.path.join(wd, "tu_%s" % tag)
    t_ = time.time()
    exe, log = gxx(base, build_tu(entries))
    TIMES["g++"] += time.time() - t_
    groups = [(exe, entries)]
    if exe is None:
        groups = []
        for (i, it, printed) in entries:
            # which of the two texts does not compile?
            eo, lo = gxx(base + "_o%d" % i, "namespace o_%d {\n%s\n}\nint main() { return 0; }\n" % (i, it["src"]))
            if eo is None:
                errs = [x for x in lo.splitlines() if "error" in x][:2]
                out[i] = {"status": "inconclusive", "kind": "generator",
                          "what": "g++ rejects the ORIGINAL text (generator problem): " + " | ".join(errs)[:300]}
                continue
            e1, l1 = gxx(base + "_%d" % i, build_tu([(i, it, printed)]))
            if e1 is None:
                errs = [re.sub(r"^.*?error: ", "", x) for x in l1.splitlines() if "error" in x][:2]
                out[i] = {"status": "fail", "kind": "printed-does-not-compile",
                          "what": "g++ accepts the original text but rejects the printed text: " + " | ".join(errs)[:300]}
            else:
                groups.append((e1, [(i, it, printed)]))
    for exe_g, ents in groups:
        t_ = time.time()
        results, problems = run_exe(exe_g, [i for i, _, _ in ents])
        TIMES["run"] += time.time() - t_
        for i, it, printed in ents:
            if i in problems:
                w, txt = problems[i]
                if w == "o":
                    out[i] = {"status": "inconclusive", "kind": "generator", "what": "the ORIGINAL program " + txt}
                else:
                    out[i] = {"status": "fail", "kind": "printed-misbehaves", "what": "the printed program " + txt + " (the original runs fine)"}
                continue
            bad = None
            for t, call in enumerate(it["calls"]):
                o, p = results.get((i, t, "o")), results.get((i, t, "p"))
                if o is None or p is None:
                    bad = {"status": "inconclusive", "kind": "generator", "what": "no result for tuple %d" % t}
                    break
                if it.get("expect") is not None and it["expect"][t] != o:
                    bad = {"status": "inconclusive", "kind": "generator",
                           "what": "reference interpreter %s != g++ %s on the ORIGINAL text, args %s" % (it["expect"][t], o, call)}
                    break
                if o != p:
                    bad = {"status": "fail", "kind": "value",
                           "what": "args %s: original text returns %d, printed text returns %d" % (call, o, p)}
                    break
            out[i] = bad or {"status": "ok", "kind": "", "what": ""}
    return out


# ------------------------------------------------------------------------------------------------
# by-hand reducer on the descriptor
# ------------------------------------------------------------------------------------------------
STMT_KINDS = {"decl", "arr", "pdecl", "sdecl", "expr", "empty", "block", "if", "for", "while", "do", "switch", "break",
              "continue", "return"}


def stmt_lists(d):
    """all lists of statements in the descriptor (live references)"""
    out = []

    def rec(lst):
        out.append(lst)
        for s in lst:
            k = s[0]
            if k == "block":
                rec(s[1])
            elif k == "if":
                for arm in s[1]:
                    rec(arm[1])
                if s[2] is not None:
                    rec(s[2])
            elif k == "for":
                rec(s[4])
            elif k == "while":
                rec(s[2])
            elif k == "do":
                rec(s[1])
            elif k == "switch":
                for g in s[2]:
                    rec(g[1])
    for f in d["helpers"][1:] + [d["main"]]:          # helpers[0] is the fixed h_fold
        rec(f["body"])
    return out


def expr_nodes(d):
    out = []
    for f in d["helpers"][1:] + [d["main"]]:
        G.walk_exprs(f, out.append)
    for t in d.get("tops", []):
        if t[0] == "gvar":
            G.walk_exprs(t[5], out.append)
    return out


def inner_bodies(s):
    k = s[0]
    if k == "block":
        return [s[1]]
    if k == "if":
        return [a[1] for a in s[1]] + ([s[2]] if s[2] is not None else [])
    if k == "for":
        return [([s[1]] if s[1] is not None else []) + s[4]]
    if k == "while":
        return [s[2]]
    if k == "do":
        return [s[1]]
    if k == "switch":
        return [g[1] for g in s[2]]
    return []


def candidates(d):
    """smaller descriptors, biggest simplifications first (generator of deep copies)"""
    # helpers that are not needed
    for hi in range(len(d["helpers"]) - 1, 0, -1):
        c = copy.deepcopy(d)
        del c["helpers"][hi]
        yield c
    for ti in range(len(d.get("tops", [])) - 1, -1, -1):
        c = copy.deepcopy(d)
        del c["tops"][ti]
        yield c
    # fewer calls
    if len(d["calls"]) > 1:
        for ci in range(len(d["calls"])):
            c = copy.deepcopy(d)
            del c["calls"][ci]
            yield c
    nlists = len(stmt_lists(d))
    # delete statements, largest lists first (top level first)
    for li in range(nlists):
        n = len(stmt_lists(d)[li])
        for si in range(n - 1, -1, -1):
            c = copy.deepcopy(d)
            L = stmt_lists(c)[li]
            if L[si][0] == "return" and si == n - 1:
                continue
            del L[si]
            if not L:
                L.append(["empty"])
            yield c
    # replace a compound statement by one of its bodies
    for li in range(nlists):
        n = len(stmt_lists(d)[li])
        for si in range(n):
            s = stmt_lists(d)[li][si]
            for bi in range(len(inner_bodies(s))):
                c = copy.deepcopy(d)
                L = stmt_lists(c)[li]
                L[si:si + 1] = [x for x in inner_bodies(L[si])[bi] if x[0] not in ("break", "continue")]
                yield c
    # expressions: replace a node by one of its sub-expressions or by a literal
    nn = len(expr_nodes(d))
    for ni in range(nn):
        e = expr_nodes(d)[ni]
        kids = [x for x in e[1:] if isinstance(x, list) and x and isinstance(x[0], str) and x[0] in G.EXPR_KINDS]
        if e[0] == "call":
            kids = list(e[2])
        for ki in range(len(kids)):
            c = copy.deepcopy(d)
            node = expr_nodes(c)[ni]
            sub = [x for x in node[1:] if isinstance(x, list) and x and isinstance(x[0], str) and x[0] in G.EXPR_KINDS]
            if node[0] == "call":
                sub = list(node[2])
            node[:] = copy.deepcopy(sub[ki])
            yield c
        if e[0] not in ("lit", "var", "chr"):
            c = copy.deepcopy(d)
            expr_nodes(c)[ni][:] = ["lit", "1", "int", 1]
            yield c


def reduce_desc(d, still_fails, budget=40):
    cur = d
    changed = True
    while changed and budget > 0:
        changed = False
        for cand in candidates(cur):
            try:
                cand["expect"] = G.check_program(cand)
                G.render_program(cand)
            except Exception:
                continue
            budget -= 1
            if still_fails(cand):
                cur = cand
                changed = True
                break
            if budget <= 0:
                break
    return cur


# ------------------------------------------------------------------------------------------------
# the check
# ------------------------------------------------------------------------------------------------
RULE = ("case = one C translation unit: optional top-level typedefs (also typedef chains and typedefs of a struct), one struct "
        "(plain or typedef'd, int bit fields), one enum, global constants, 1-3 helper functions and a function f over 2-4 "
        "int/long/unsigned/double parameters whose body has declarations (initialisers, const before/after the type, arrays, "
        "pointers and pointers to const, struct and enum variables, strings), expression statements over every C operator with "
        "generated minimal and redundant parentheses, casts, calls, subscripts, sizeof, char/string literals with escapes and "
        "L/u8/R prefixes, if/else-if/else, for, while, do-while, switch/case/default/break/continue/return and nested blocks; a "
        "reference interpreter executes every generated statement on the 3 argument tuples and keeps only well-defined ones. "
        "Oracles: O1 S(parse(print(parse p))) == S(parse p), print idempotent, printed text re-parses; O2 g++ evaluates the "
        "original and the printed text to the same values. Programs OCCA rejects are outside the quantifier (counted as "
        "rejected). Non-trivial = the generated expressions (the fixed accumulator scaffold r = (r * 7 + E) % M excluded) "
        "contain two operators of different precedence with no parentheses between them, or an escaped char/string literal, "
        "or a cast. Distinct = distinct source text.")

ASSUME = ["the host g++ (-O0 -std=gnu++17, x86-64 LP64) is the reference semantics of the generated C subset",
          "the reference interpreter is only a generator-side filter/cross-check (disagreement with g++ on the original text is "
          "inconclusive, never a violation)",
          "programs rejected by OCCA's parser are outside the property's quantifier (counted, classes listed)",
          "leak detection is off in the worker (OCCA's error paths leak; not part of this property)",
          "libocca built from the repo working tree with clang ASan+UBSan (asan variant)"]

# One Hypothesis example has an entropy budget of 8 KiB = 4096 one-byte decisions; a program takes ~800 (max seen
# ~3400), so an example generates 2 programs.  The host compiler is amortised over TU_GROUP programs.
QUICK = (300, 2)        # Hypothesis examples x programs per example
THOROUGH = (15000, 2)
TU_GROUP = 12
ROUND = 300             # Hypothesis examples per generate/evaluate round
NWORKERS = min(16, vlib.NCPU)


def scaffold_free_classify(d):
    return G.classify(d)


def load_replay(path):
    r = json.load(open(path))
    it = r["item"]
    it.setdefault("expect", None)
    return r, it


def run(prop, tier, replay, t0):
    vlib.ensure_build("asan")
    binary = vlib.build_harness("w_print", kind="plain")
    wd = vlib.workdir(prop)
    out = vlib.Outcome()
    rep_dir = os.path.join(vlib.VERIF, "replays", prop)
    os.makedirs(rep_dir, exist_ok=True)
    workers = []
    try:
        def new_worker(tag, fresh=False):
            w = PrintWorker(binary, wd, tag, fresh)
            workers.append(w)
            return w

        if replay:
            r, it = load_replay(os.path.abspath(replay))
            v = judge(new_worker("user", fresh=True), wd, "user", [it])[0]
            print(it["src"])
            print("replay verdict: %s %s %s" % (v["status"], v.get("kind", ""), v.get("what", "")))
            if v["status"] == "fail":
                print("VIOLATION property=%s replay=%s" % (prop, os.path.abspath(replay)))
                return 1
            return 0

        findings = vlib.known_findings(prop)
        known_ids = set(f.id for f in findings)
        avoid = set()
        for kid in known_ids:
            avoid.update(KNOWN_AVOID.get(kid, []))
        dev_avoid = os.environ.get("VERIF_C15_AVOID")          # development aid, never set by the registered commands
        if dev_avoid is not None:
            avoid = set(x for x in dev_avoid.split(",") if x)

        # ---- saved replays
        w0 = new_worker("rp", fresh=True)
        known_files = {}
        for f in findings:
            p = os.path.normpath(os.path.join(vlib.VERIF, f.replay))
            known_files[p] = f
            if not os.path.exists(p):
                out.notes.append("known finding %s: replay file missing" % f.id)
                continue
            _, it = load_replay(p)
            v = judge(w0, wd, "k_" + f.id, [it])[0]
            if v["status"] == "fail":
                print("KNOWN-FINDING: property=%s %s [%s]" % (prop, f.text, f.id), flush=True)
                out.known_printed.append(f.id)
            else:
                out.notes.append("known finding %s no longer reproduces (replay verdict %s)" % (f.id, v["status"]))
        reg = []
        for fn in sorted(os.listdir(rep_dir)):
            p = os.path.normpath(os.path.join(rep_dir, fn))
            if not (fn.endswith(".case") or fn.endswith(".json")) or fn.startswith("violation_") or p in known_files \
                    or fn.startswith("known_"):
                continue
            reg.append((p, fn, load_replay(p)[1]))
        if reg:
            for (p, fn, it), v in zip(reg, judge(w0, wd, "reg", [it for _, _, it in reg])):
                if v["status"] == "fail":
                    out.violations.append((p, "regression input fails: [%s] %s" % (v["kind"], v["what"][:300])))
                elif v["status"] == "rejected":
                    # a regression input is a valid C program OCCA accepted when it was recorded
                    out.violations.append((p, "regression input is no longer parsed by OCCA: %s" % v["what"][:300]))
                elif v["status"] != "ok":
                    out.notes.append("regression input %s: %s (%s)" % (fn, v["status"], v["what"][:120]))
        out.extra["regression_replays"] = len(reg)

        # ---- the search: rounds of <= ROUND Hypothesis examples (generate, then evaluate; bounds the memory of the
        #      thorough tier).  Round k uses the seed derive(VERIF_SEED, C15, k).
        nbatches, bsize = QUICK if tier == "quick" else THOROUGH
        nbatches = int(os.environ.get("VERIF_C15_BATCHES", nbatches))      # development aid
        seen_src = set()
        nt = set()
        rejected = {}
        rejected_samples = []
        inconclusive = []
        fails = []
        excl = {}
        generated = 0
        generated_examples = 0
        lock = threading.Lock()
        pool_workers = [new_worker("p%d" % i) for i in range(NWORKERS)]
        free = list(range(NWORKERS))
        nrounds = (nbatches + ROUND - 1) // ROUND
        for rnd_no in range(nrounds):
            want = min(ROUND, nbatches - rnd_no * ROUND)
            batches = []

            @seed(vlib.derive(vlib.seed(), prop, rnd_no))
            @settings(max_examples=want + 1, database=None, deadline=None, derandomize=False,
                      suppress_health_check=list(HealthCheck), phases=[Phase.generate])
            @given(st.randoms(use_true_random=False))
            def campaign(rnd):
                if len(batches) >= want:
                    return
                descs = []
                for _ in range(bsize):
                    d = G.program(rnd, avoid, (3, 7))
                    d["expect"] = G.check_program(d)
                    descs.append(d)
                texts = [G.render_program(d) for d in descs]
                if all(t == texts[0] for t in texts):
                    return        # Hypothesis' first, all-minimal example: copies of one program; not counted
                batches.append(descs)
            t_ = time.time()
            campaign()
            TIMES["generate"] += time.time() - t_
            generated_examples += len(batches)
            flat = [d for b in batches for d in b]
            groups = [flat[i:i + TU_GROUP] for i in range(0, len(flat), TU_GROUP)]

            def do_batch(bi, groups=groups, rnd_no=rnd_no):
                with lock:
                    wi = free.pop()
                try:
                    items = [make_item(d) for d in groups[bi]]
                    vs = judge(pool_workers[wi], wd, "r%d_b%d" % (rnd_no, bi), items)
                    return bi, items, vs
                finally:
                    with lock:
                        free.append(wi)

            with ThreadPoolExecutor(max_workers=NWORKERS) as ex:
                results = list(ex.map(do_batch, range(len(groups))))
            for bi, items, vs in results:
                for j, (it, v) in enumerate(zip(items, vs)):
                    generated += 1
                    for k, n in it["desc"].get("excluded", {}).items():
                        excl[k] = excl.get(k, 0) + n
                    if v["status"] == "rejected":
                        rejected[v["what"]] = rejected.get(v["what"], 0) + 1
                        if len(rejected_samples) < 4:
                            rejected_samples.append({"diagnostic": v.get("diag", "")[:300], "program": it["src"]})
                        continue
                    if v["status"] == "inconclusive":
                        inconclusive.append({"what": v["what"], "program": it["src"]})
                        continue
                    out.evaluations += 1
                    cls, isnt = scaffold_free_classify(it["desc"])
                    for c in cls:
                        out.classes[c] = out.classes.get(c, 0) + 1
                    if it["src"] not in seen_src:
                        seen_src.add(it["src"])
                        if isnt:
                            nt.add(it["src"])
                    if len(out.samples) < 3 and j == 1:
                        out.samples.append(it["src"])
                    if v["status"] == "fail":
                        fails.append((it, v))
            if len(fails) >= 200:
                out.notes.append("search stopped after round %d of %d: %d failing programs already" % (rnd_no + 1, nrounds, len(fails)))
                break
        if generated_examples < nbatches and len(fails) < 200:
            out.notes.append("only %d of %d batches were generated (Hypothesis discarded the others: entropy budget of one "
                             "example exceeded)" % (generated_examples, nbatches))
        if not generated:
            raise SystemExit("HARNESS-ERROR: no case was generated; not a property verdict")
        out.nontrivial = nt
        out.extra["generated"] = generated
        out.extra["rejected_by_occa"] = sum(rejected.values())
        out.extra["rejected_diagnostics"] = rejected
        if rejected_samples:
            out.extra["rejected_samples"] = rejected_samples
        out.extra["rejected_construct_classes_kept_out_of_the_generator"] = REJECTED_CLASSES
        out.extra["inconclusive"] = len(inconclusive)
        if inconclusive:
            out.extra["inconclusive_samples"] = inconclusive[:3]
        out.extra["worker_restarts_after_crash"] = sum(w.restarts for w in workers)
        # how often the generator turned away from a construct class that belongs to a listed known finding
        out.excluded = {kid: sum(excl.get(c, 0) for c in KNOWN_AVOID.get(kid, [])) for kid in sorted(known_ids)}
        if out.evaluations == 0:
            raise SystemExit("HARNESS-ERROR: OCCA accepted none of the %d generated programs; not a property verdict" % generated)
        if out.extra["rejected_by_occa"] * 4 > generated:
            out.notes.append("more than 25%% of the generated programs are rejected by OCCA (%d of %d)" %
                             (out.extra["rejected_by_occa"], generated))

        # ---- triage: one replay per failure kind; the first 3 kinds are reduced by hand
        # confirmation and reduction use a worker that builds a new parser object for every parse
        wr = new_worker("red", fresh=True)
        bykind0 = {}
        for it, v in fails:
            bykind0.setdefault(v["kind"], []).append((it, v))
        bykind = {}
        for kind, fl in sorted(bykind0.items()):
            fl.sort(key=lambda x: len(x[0]["src"]))
            for n, (it, v) in enumerate(fl[:3]):
                v2 = judge(wr, wd, "conf_%s_%d" % (kind.replace("-", "_"), n), [it])[0]
                if v2["status"] == "fail":
                    bykind[kind] = [(it, v2)] + [x for x in fl if x[0] is not it]
                    break
            else:
                out.notes.append("%d failure(s) of kind %s were not confirmed with fresh parser objects; not reported: %s" %
                                 (len(fl), kind, fl[0][1]["what"][:200]))
        for ci, (kind, fl) in enumerate(sorted(bykind.items())):
            it, v = fl[0]
            d = it["desc"]
            if ci < 3 and not (kind == "printed-misbehaves" and "did not finish" in v["what"]):
                cnt = [0]

                def still_fails(cand, kind=kind):
                    cnt[0] += 1
                    mode = "orig-compiles" if kind in ("reparse", "structure", "idempotence", "crash") else "full"
                    vv = judge(wr, wd, "red%d_%d" % (ci, cnt[0]), [make_item(cand)], o2_mode=mode)[0]
                    # the reduced program must stay a valid C program (g++ accepts and runs the original text)
                    return vv["status"] == "fail" and vv["kind"] == kind and vv.get("o2") != "inconclusive:generator"
                t_ = time.time()
                d = reduce_desc(d, still_fails)
                TIMES["reduce"] += time.time() - t_
                it2 = make_item(d)
                v2 = judge(wr, wd, "red%d_f" % ci, [it2])[0]
                if v2["status"] == "fail":
                    it, v = it2, v2
            path = os.path.join(rep_dir, "violation_seed%d_%d.json" % (vlib.seed(), ci))
            with open(path, "w") as f:
                json.dump({"property": prop, "kind": v["kind"], "what": v["what"], "item": it}, f, indent=1)
                f.write("\n")
            out.violations.append((path, "[%s] %s  (%d failing programs of this kind)  | program: %s" %
                                   (v["kind"], v["what"][:400], len(fl), it["src"][-500:].replace("\n", "\\n"))))
        out.extra["engine"] = ("Hypothesis %s st.randoms-driven AST generator, %d examples x %d programs; %d w_print workers; "
                               "g++ as reference semantics, %d programs per TU" % (__import__("hypothesis").__version__, generated_examples, bsize, NWORKERS, TU_GROUP))
        out.extra["failing_programs"] = len(fails)
        out.extra["phase_seconds_summed_over_threads"] = {k: round(v, 1) for k, v in TIMES.items()}
        return vlib.finish(prop, tier, "exploration", out, RULE, t0, ASSUME)
    finally:
        for w in workers:
            w.close()
        vlib.cleanup(wd)


REGISTRY[PROP] = run

m(PROP, "exploration",
  "Round-trip property-based test of OCCA's printer: Hypothesis drives a typed AST generator of small well-defined C "
  "functions (every operator, minimal/redundant parentheses, casts, escapes, declarations, all control flow); a worker "
  "parses, prints, re-parses and prints again and serialises both trees; the check requires identical trees, idempotent "
  "printing, and that g++ evaluates the original and the printed text to the same values on 3 argument tuples. Search, "
  "not proof; failing programs are reduced by hand on the AST.",
  "Trusted: g++ as reference semantics, the structural serialiser in harness/w_print.cpp, Hypothesis, ASan/UBSan runtime of "
  "the worker; the Python interpreter only filters undefined programs (cross-checked against g++).",
  "property-based round-trip + differential testing (grammar-based generation, host compiler as oracle, batched TUs)",
  "hypothesis", "DESIGN.md §4 C15")
