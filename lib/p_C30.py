"""C30 — with sharable devices (ENABLE_SHARABLE_DEVICE=ON) concurrent handle use is race-free.

rapidcheck harness harness/C30.cpp linked against the `tsan` libocca variant (clang -fsanitize=thread,
ENABLE_SHARABLE_DEVICE=ON).  The harness reads ThreadSanitizer's per-process log (written under the work
directory, next to the shard's OCCA_CACHE_DIR) after every case and fails the case on any report that is
not one of the listed known findings (identified by kind + the top occa:: frame of both accesses)."""
import os
import re
import shutil
import sys

import vlib
from meta import m
from props import REGISTRY

SHARDS = 8
TIERS = {"quick": 5, "thorough": 250}       # script sets per shard: 40 / 2000

RULE = ("case = one set of per-thread scripts: 2-16 threads (30% 2-4, 30% 5-8, 40% 9-16), 1-5 rounds, 1-12 ops per thread and round, "
        "one Serial (75%) or OpenMP device. The main thread creates the device, a seed memory, kernel, stream and memory pool, "
        "gives every thread its own base handle to each and drops its own handles. Ops of a thread in a round: copy(object, n<=16 "
        "copies, destroyed LIFO / FIFO / one at a time incl. assignment), hold / drop a copy across rounds, rotate (re-seat the "
        "base handle: remove + add to the ring), getDevice()/getStream() temporaries, malloc / free() / destroy of private memory "
        "on the shared device, slice of the shared or of a private memory, private memoryPool reserve / release / destroy, "
        "buildKernelFromString (cache hit, -O0) / drop / run on private memory with the result checked, createStream / drop, "
        "tagStream. 70% of a round's ops go to the round's focus (one shared object, allocation, kernels, streams; one round in ten only "
        "runs kernels, so that no lock orders the threads). The first script set of a process also lets all threads make the process' "
        "first use of occa::settings() concurrently. OpenMP devices build but do not run kernels (libgomp is not instrumented). Two barriers "
        "between rounds; at each of them and after the join the live-object counters (device, buffer, memory, memoryPool, kernel, "
        "stream, streamTag) and memoryAllocated() must equal the sequential model; every thread finally releases what it created, "
        "concurrently. Oracle 1 = no ThreadSanitizer report "
        "(data race, mutex misuse, use-after-free ...) other than a listed known finding. Non-trivial = script set in which >=2 "
        "threads copy/destroy/rotate handles of the same shared object, or >=2 threads allocate on the device, within the same "
        "round. Distinct = distinct serialised script set. Schedules are sampled (OS scheduler), not enumerated.")

ASSUMPTIONS = [
    "libocca built from the working tree with clang -fsanitize=thread and -DENABLE_SHARABLE_DEVICE=ON (tsan variant)",
    "a shared object always keeps at least one handle in another thread while a handle to it is copied or destroyed (the last "
    "two handles of an object are never dropped concurrently: that is the listed known finding ring-check-then-delete)",
    "a thread only runs kernels it built itself on memory it allocated itself (kernel arguments are stored in the kernel object); "
    "setStream / settings writes / operations *through* a shared memory pool are not generated (documented as per-object state)",
    "kernels are built once by the main thread first, so the threads' builds are cache hits in the shard's own OCCA_CACHE_DIR",
    "JIT-compiled kernel code is not instrumented by ThreadSanitizer (it only touches thread-private memory here)",
    "interleavings are those the OS scheduler produces under the barriers; ThreadSanitizer reports a race when both accesses "
    "occur without a happens-before edge in one run, it does not enumerate schedules",
]


def _run(prop, tier, replay, t0):
    vlib.ensure_build("tsan")
    binary = vlib.build_harness("C30", "rc", "tsan")
    wd = vlib.workdir(prop)
    # a case is 2-16 threads: never let the per-process watchdog decide under load, it only catches a genuine hang
    extra_env = {"OMP_NUM_THREADS": "2"}
    # vlib.replay_case has a 300 s default watchdog; under machine load a 16-thread case under TSan must not be
    # declared a hang by the wall clock: raise it for this property (a real dead-lock still ends, after an hour)
    saved_replay_case = vlib.replay_case

    def patient_replay_case(binary_, casefile, wd_, known="", timeout=300, tag="r", extra_env=None):
        return saved_replay_case(binary_, casefile, wd_, known, max(timeout, 3600), tag, extra_env)
    vlib.replay_case = patient_replay_case
    try:
        if replay:
            # the replay file of a known finding is replayed with nothing excluded; any other file is judged like the search
            # judges it (reports that match a listed known finding do not count)
            ids = "" if os.path.basename(replay).startswith("known_") else ",".join(f.id for f in vlib.known_findings(prop))
            st, o = vlib.replay_case(binary, os.path.abspath(replay), wd, known=ids, tag="user", timeout=3600, extra_env=extra_env)
            sys.stdout.write(o[-6000:])
            if st != "pass":
                print("VIOLATION property=%s replay=%s" % (prop, os.path.abspath(replay)))
                return 1
            return 0
        out = vlib.Outcome()
        findings = vlib.known_findings(prop)
        # the saved inputs are replayed one after the other: they share one (warm after the first) kernel cache directory;
        # the shards below keep their own OCCA_CACHE_DIR from vlib.base_env
        renv = dict(extra_env)
        renv["OCCA_CACHE_DIR"] = os.path.join(wd, "cache_replays")
        vlib.run_saved_replays(prop, binary, wd, out, findings, extra_env=renv)
        per_shard = TIERS.get(tier, TIERS["quick"])
        vlib.run_rc(prop, binary, wd, out, per_shard, 100, shards=SHARDS, known_ids=[f.id for f in findings],
                    extra_env=extra_env, tier=tier, timeout=6 * 3600)
        # keep the shard log (it contains the offending ThreadSanitizer report) next to every violation replay
        for path, _ in out.violations:
            mm = re.search(r"violation_seed\d+_shard(\d+)\.case$", path)
            if mm:
                lg = os.path.join(wd, "s%s.log" % mm.group(1))
                if os.path.exists(lg):
                    shutil.copyfile(lg, path + ".log")
        out.extra["shards"] = SHARDS
        out.extra["cases_per_shard"] = per_shard
        out.extra["engine"] = "rapidcheck (no shrinking), %d processes of 2-16 threads, seeds derived from VERIF_SEED" % SHARDS
        out.extra["tsan_reports_matched_to_known_findings"] = dict(out.excluded)
        return vlib.finish(prop, tier, "exploration", out, RULE, t0, ASSUMPTIONS)
    finally:
        vlib.replay_case = saved_replay_case
        vlib.cleanup(wd)


REGISTRY["C30"] = _run

m("C30", "exploration",
  "Stress test under ThreadSanitizer of the ENABLE_SHARABLE_DEVICE build: generated per-thread scripts (2-16 threads, rounds "
  "separated by barriers that line the threads up on the same shared memory / kernel / stream / device / pool handles and on "
  "allocation, kernel build and run on one device) are executed against the real handle classes; any ThreadSanitizer report "
  "(normalised to kind + top occa:: frame of both accesses) that is not a listed known finding fails the case, and at every "
  "barrier and after the join the guarded live-object counters and memoryAllocated() must equal the order-independent "
  "sequential model. Thread schedules are sampled, not enumerated: a green run is evidence for the interleavings and access "
  "pairs that occurred, not absence of races; the race detector makes a race visible when its two accesses merely occur in "
  "one run, it does not need the corrupting interleaving.",
  "Trusted: ThreadSanitizer (clang 14) and its report format, the hook counters (LIBOCCA_OCCA_VERIF), the sequential model of "
  "what each thread keeps alive, pthread barriers. Host modes only (Serial, OpenMP). The check-then-delete of the last handle "
  "(known finding) is excluded by construction: every shared object keeps a handle in another thread. No library shrinking "
  "(TSan reports a pair of stacks once per process); a failing script set is replayed 3 times in fresh processes.",
  "property-based stress testing (rapidcheck-generated thread scripts) under ThreadSanitizer; oracle = no race-detector report + "
  "live-object counters / allocated bytes equal the sequential model",
  "rapidcheck", "DESIGN.md §4 C30")
