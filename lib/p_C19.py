"""C19 — @dim array access computes the documented linear index (translation validation, C17 pipeline)."""
import itertools

import v_okl
from meta import m
from props import REGISTRY

# index expressions: bijections of [0, D) written with every operator class; {i} = loop variable, {D} = dimension
IDX = [("{i}", "plain"), ("{D} - 1 - {i}", "additive"), ("{i} | 0", "bitor"), ("{i} ^ 0", "bitxor"), ("{i} & 255", "bitand"),
       ("{i} << 0", "shift"), ("{i} >> 0", "shift"), ("{i} ? {i} : 0", "ternary"), ("({i} + 1) % {D}", "mod"), ("{i} * 1", "mult"),
       ("{i} + 0", "additive"), ("{i} < {D} ? {i} : 0", "ternary"), ("{i} == 0 ? 0 : {i}", "ternary"), ("{i} || 0 ? {i} : 0", "ternary"),
       ("0 | {i}", "bitor"), ("({i})", "plain"), ("-(-{i})", "unary")]
LOOSE = ("bitor", "bitxor", "bitand", "shift", "ternary")     # bind looser than '+'
DIMX = ["{d}", "{d}", "{d} + 0", "({d} | 0)", "{d} * 1", "{d} | 0", "{d} << 0", "{d} ? {d} : 1"]


def program(rnd):
    k = rnd.choice([1, 2, 2, 3, 3, 4])
    dims = [rnd.randint(1, 4) for _ in range(k)]
    const_dims = [rnd.random() < 0.3 for _ in range(k)]
    order = list(range(k))
    use_order = k > 1 and rnd.random() < 0.5
    if use_order:
        rnd.shuffle(order)
    idx = [rnd.choice(IDX) for _ in range(k)]
    dimx = [rnd.choice(DIMX) for _ in range(k)]
    return {"k": k, "dims": dims, "const": const_dims, "order": order if use_order else None, "idx": idx, "dimx": dimx,
            "typedef": rnd.random() < 0.25, "elem": rnd.choice(["int", "int", "float", "long"]), "rw": rnd.choice(["write", "accumulate"])}


def render(d, name):
    k = d["k"]
    dsym = [str(d["dims"][t]) if d["const"][t] else "d%d" % t for t in range(k)]
    dimargs = [d["dimx"][t].replace("{d}", dsym[t]) for t in range(k)]
    idxargs = [d["idx"][t][0].replace("{i}", "i%d" % t).replace("{D}", dsym[t]) for t in range(k)]
    order = d["order"] or list(range(k))
    attr = "@dim(%s)" % ", ".join(dimargs)
    if d["order"]:
        attr += " @dimOrder(%s)" % ", ".join(str(o) for o in d["order"])
    elem = d["elem"]
    scal = ["const int d%d" % t for t in range(k)]
    okl = []
    if d["typedef"]:
        okl.append("typedef %s* arr_t %s;" % (elem, attr))
        xdecl = "arr_t x"
    else:
        xdecl = "%s *x %s" % (elem, attr)
    okl.append("@kernel void %s(%s, %s) {" % (name, ", ".join(scal), xdecl))
    okl.append("  for (int o = 0; o < 1; ++o; @outer) {")
    okl.append("    for (int t = 0; t < 1; ++t; @inner) {")
    body = []
    for t in range(k):
        body.append("%sfor (int i%d = 0; i%d < %s; ++i%d) {" % ("  " * (3 + t), t, t, dsym[t], t))
    acc = "x(%s)" % ", ".join(idxargs)
    stmt = ("%s = %s + 1;" % (acc, acc)) if d["rw"] == "accumulate" else ("%s = 1 + %s;" % (acc, " + ".join("i%d" % t for t in range(k))))
    body.append("  " * (3 + k) + stmt)
    for t in range(k - 1, -1, -1):
        body.append("  " * (3 + t) + "}")
    okl += body + ["    }", "  }", "}"]
    # reference: the documented mixed-radix index with every argument evaluated as a whole
    lin = "(%s)" % idxargs[order[k - 1]]
    for t in range(k - 2, -1, -1):
        lin = "(%s) + (%s) * (%s)" % (idxargs[order[t]], dimargs[order[t]], lin)
    ref = ["static void ref_%s(%s, %s *x) {" % (name, ", ".join(scal), elem)]
    for t in range(k):
        ref.append("%sfor (int i%d = 0; i%d < %s; ++i%d) {" % ("  " * (1 + t), t, t, dsym[t], t))
    racc = "x[%s]" % lin
    ref.append("  " * (1 + k) + (("%s = %s + 1;" % (racc, racc)) if d["rw"] == "accumulate" else ("%s = 1 + %s;" % (racc, " + ".join("i%d" % t for t in range(k))))))
    for t in range(k - 1, -1, -1):
        ref.append("  " * (1 + t) + "}")
    ref.append("}")
    total = 1
    for v in d["dims"]:
        total *= v
    setup = ("    const long N_x = %d;\n"
             "    rt::Guarded gR = rt::galloc(N_x * sizeof(%s), sizeof(%s)), gT = rt::galloc(N_x * sizeof(%s), sizeof(%s));\n"
             "    %s *R_x = (%s*) gR.data, *T_x = (%s*) gT.data;\n"
             "    for (long q = 0; q < N_x; ++q) { R_x[q] = 0; T_x[q] = 0; }\n"
             "    RT_MM(x)\n") % (total, elem, elem, elem, elem, elem, elem, elem)
    compare = ("    for (long q = 0; q < N_x && err.empty(); ++q) if (R_x[q] != T_x[q]) err = \"x[\" + std::to_string(q) + \"] = \" + "
               "std::to_string((double) T_x[q]) + \" but the documented index gives \" + std::to_string((double) R_x[q]);\n"
               "    for (long q = 0; q < N_x && err.empty(); ++q) if (R_x[q] == 0) err = \"cell \" + std::to_string(q) + \" never written: not a bijection\";\n"
               "    if (err.empty() && (!rt::canaryOk(gT) || !rt::canaryOk(gR))) err = \"write outside the array\";\n")
    teardown = "    rt::gfree(gR); rt::gfree(gT);\n"
    params = [("const int", "d%d" % t, False) for t in range(k)] + [(elem, "x", True)]
    calls = [[str(v) for v in d["dims"]] + ["@x"]]
    return v_okl.Kernel(name, params, "\n".join(okl) + "\n", "\n".join(ref) + "\n", calls, setup=setup, compare=compare,
                        teardown=teardown, meta=d)


def nontrivial(d):
    return d["order"] is not None and d["order"] != sorted(d["order"]) or any(c in LOOSE for _, c in d["idx"])


def simplify(d):
    outs = []
    k = d["k"]
    if d["order"]:
        outs.append(dict(d, order=None))
    if d["typedef"]:
        outs.append(dict(d, typedef=False))
    for t in range(k):
        if d["idx"][t][0] != "{i}":
            idx = list(d["idx"])
            idx[t] = ("{i}", "plain")
            outs.append(dict(d, idx=idx))
        if d["dimx"][t] != "{d}":
            dx = list(d["dimx"])
            dx[t] = "{d}"
            outs.append(dict(d, dimx=dx))
    if k > 1 and not d["order"]:
        outs.append(dict(d, k=k - 1, dims=d["dims"][:-1], const=d["const"][:-1], idx=d["idx"][:-1], dimx=d["dimx"][:-1]))
    return outs


class C19Spec(v_okl.Spec):
    quick, thorough = (5, 30), (300, 30)
    program = staticmethod(program)
    render = staticmethod(render)
    nontrivial = staticmethod(nontrivial)
    simplify = staticmethod(simplify)
    rule = ("case = OKL kernel with a pointer argument (or typedef) annotated @dim(D0..Dk), k <= 4, optional @dimOrder permutation, dimensions "
            "given as run-time scalars, constants or expressions, and an access x(e0..ek) inside loops over all in-range index tuples where every "
            "e_t is a bijection of [0,D_t) written with one operator class (plain, additive, |, ^, &, <<, >>, ?:, %, *, unary).  Reference = the "
            "documented mixed-radix formula index = sum_t arg[p(t)] * prod_{s<t} D[p(s)] with every argument parenthesised, compiled by g++.  All 7 "
            "translations are executed (GPU back ends under emu/); the arrays must be equal, every cell written exactly once (bijection onto "
            "[0, prod D)), nothing outside the array (guard pages + canaries).  Non-trivial = non-identity @dimOrder or an index argument whose top "
            "operator binds looser than '+'.")
    assume = ["index arguments are in range by construction", "g++ evaluates the reference formula", "emu/ shims (trusted base)"]

    def classes(self, d):
        return ["arity:%d" % d["k"], "dimOrder" if d["order"] else "no-dimOrder", "typedef" if d["typedef"] else "pointer"] + \
               ["idx:" + c for _, c in d["idx"]]


REGISTRY["C19"] = lambda prop, tier, replay, t0: v_okl.run_tv(C19Spec(), prop, tier, replay, t0)
m("C19", "translation_validation",
  "Generated @dim/@dimOrder accesses with index and dimension arguments from every operator class are translated by all seven back ends, "
  "executed, and the written array is compared with the documented mixed-radix formula evaluated by g++ on the unrewritten arguments; "
  "each cell must be written exactly once (bijection) and nothing outside the array (guard pages).",
  "Trusted: g++ as evaluator of the documented formula; emu/ shims; arities 1-4, dimensions 1-4.",
  "property-based testing (Hypothesis-driven grammar generator) + differential execution against the documented formula compiled by the host compiler",
  "hypothesis + g++ + emu", "DESIGN.md §4 C19")
