"""C16 — the OKL front end reports malformed input instead of crashing (libFuzzer on the 7 translators, in-process)."""
import glob
import os
import random
import re
import sys

import v_fuzz
import vlib
from meta import m
from props import REGISTRY

MODES = ["serial", "openmp", "cuda", "hip", "opencl", "metal", "dpcpp"]
MAX_LEN = 4096
NEST_CAP = 200                      # C16_NEST_CAP of harness/fuzz_C16.cpp

# tier -> (libFuzzer runs in total, jobs, time cap per process [s] or None)
TIERS = {
    "quick": (64000, 16, None),
    "thorough": (6400000, 16, 5400),
}

RULE = (
    "libFuzzer (ASan+UBSan, -max_len=4096) on one in-process target: byte 0 selects the translator (serial, openmp, cuda, hip, "
    "opencl, metal, dpcpp) and the source kind (string source = parser_t::parseSource on an exact-size heap copy, file source "
    "= parser_t::parseFile on the text written to a file), the rest is the source text. Fresh parser object per input; when the "
    "parser succeeds the rest of device::buildKernel's pipeline runs (toString of device and launcher source, "
    "setSourceMetadata of both); diagnostics are silenced and counted through io::stderr/stdout.setOverride; occa::exception = "
    "clean rejection. Oracle: the process survives (no signal, sanitizer report, std::terminate, foreign exception) and no "
    "input exceeds the unit time-out 3 times in isolation. Even processes start from the seed corpus (every .okl file under "
    "examples/ and tests/files, the kernel strings of tests/src/internal/lang/{modes,parser}/*.cpp whole and as fragments, 30 "
    "valid kernels of the C20 generator, corpus/C16; each with every translator selector), odd processes from an empty "
    "corpus; dictionary = OKL keywords, attributes, operators, preprocessor directives. evaluations = executed libFuzzer "
    "units. Non-trivial = input on which the parser built at least one statement (root.size() > 0) before it accepted or "
    "rejected the text; distinct = distinct input bytes (FNV-1a 64). The classes give the accept / reject(errors) / "
    "reject(exception) split per translator and per 'statements parsed' class."
)

ASSUMPTIONS = [
    "inputs contain no interior NUL (every OCCA entry point takes a C string / reads the file into one): the text is cut at "
    "its first NUL",
    "an #include may only name a file of the sandbox directory the target runs in (inc.h, inc2.h): inputs in which the word "
    "include is followed by a quoted or <...> span containing '/' or '~' on one (spliced) line are skipped and counted — "
    "/dev/zero, /dev/stdin, /proc would test the machine, not OCCA",
    "inputs are at most %d bytes; bracket nesting deeper than %d is excluded while the known finding "
    "deep-nesting-stack-overflow is listed (recursive-descent parser: recursion depth = nesting depth)" % (MAX_LEN, NEST_CAP),
    "memory leaks are not part of the property (detect_leaks=0): AST nodes dropped on error paths are not reported here",
    "default parser settings plus \"mode\"; okl/validate stays on",
    "hangs: only a unit exceeding the libFuzzer unit time-out (300 s) and then 60 s three times in isolation counts",
    "libocca built from the working tree with clang ASan+UBSan (-fno-sanitize-recover=undefined), fuzzer-no-link",
]

KEYWORDS = r"""@kernel @outer @inner @shared @exclusive @tile @dim @dimOrder @atomic @barrier @restrict @max_inner_dims
@nobarrier @simd_length @directive @outer(0) @outer(1) @outer(2) @inner(0) @inner(1) @inner(2) @tile(16,@outer,@inner)
@tile(8,@outer(0),@inner(0),check=false) @dim(2,3) @dimOrder(1,0) @barrier("warp") @max_inner_dims(8,8) @simd_length(4)
void int float double char short long unsigned signed bool const volatile restrict static extern inline register auto
struct union enum class typedef namespace template typename public private protected friend virtual
for while do if else switch case default break continue return goto sizeof new delete throw true false
#define #undef #if #ifdef #ifndef #elif #else #endif #include #pragma #line #error #warning defined __VA_ARGS__ __LINE__
__FILE__ __COUNTER__ __has_include #pragma\x20occa\x20@ #include\x20"inc.h" #include\x20<inc2.h> #include\x20<cmath> #pragma\x20once
__global__ __shared__ __device__ __kernel __restrict__ occaDim int2 float4 size_t ptrdiff_t uint64_t
( ) [ ] { } ; , : ? :: ... -> . ++ -- + - * / % & | ^ ~ ! = < > <= >= == != && || << >> += -= *= /= %= &= |= ^= <<= >>= ->* .* ## # @ <<< >>>
0 1 16 0x10 1.0f 1e3 'a' "s" u8"s" R"(s)" 1u 2L 3ull
for(int\x20i=0;i<n;++i;@outer) for(int\x20j=0;j<16;++j;@inner) @kernel\x20void\x20k(int\x20n,float*a) @shared\x20int\x20s[16]; @exclusive\x20int\x20e;
@atomic\x20a[0]+=1; @barrier(); a[] (*f)() [[ ]] int\x20a[] extern\x20"C" operator"""

SANDBOX = {
    "inc.h": "#ifndef INC_H\n#define INC_H\n#define INC_N 16\n#define INC_ADD(a, b) ((a) + (b))\ntypedef float inc_real;\n"
             "inline int inc_f(int x) { return INC_ADD(x, INC_N); }\n#endif\n",
    "inc2.h": "#pragma once\n#include \"inc.h\"\nstruct inc_vec { inc_real x, y; };\n",
}


def _joined_literals(paths):
    """runs of adjacent C++ string literals ("a\\n" "b\\n" ...) joined: the kernels embedded in the tests"""
    res, seen = [], set()
    for p in paths:
        try:
            txt = open(p, errors="replace").read()
        except OSError:
            continue
        for run in re.finditer(r'(?:"(?:[^"\\\n]|\\.)*"\s*){2,}', txt):
            parts = re.findall(r'"((?:[^"\\\n]|\\.)*)"', run.group(0))
            b = b"".join(v_fuzz._c_unescape(x) for x in parts).split(b"\0")[0]
            if b and b not in seen:
                seen.add(b)
                res.append(b)
    return res


def _seed_texts():
    texts, src, kinds = [], {}, []
    okl = []
    for d in ("examples", "tests/files"):
        okl += glob.glob(os.path.join(vlib.REPO, d, "**", "*.okl"), recursive=True)
    for f in sorted(okl):
        try:
            texts.append(open(f, "rb").read())
        except OSError:
            pass
    src["okl_files"] = len(texts)
    kinds += ["okl"] * len(texts)
    tests = sorted(glob.glob(os.path.join(vlib.REPO, "tests/src/internal/lang/modes/*.cpp")) +
                   glob.glob(os.path.join(vlib.REPO, "tests/src/internal/lang/parser/*.cpp")))
    frag = v_fuzz.cpp_string_literals(tests)
    joined = _joined_literals(tests)
    texts += frag + joined
    kinds += ["frag"] * len(frag) + ["joined"] * len(joined)
    src["test_literals"] = len(frag)
    src["test_literals_joined"] = len(joined)
    import p_C20
    gen, i = [], 0
    while len(gen) < 30 and i < 400:
        k = p_C20.render(p_C20.program(random.Random(vlib.derive(vlib.seed(), "C16", "gen", i))), "g%d" % i)
        i += 1
        if len(k.okl) < MAX_LEN - 1:
            gen.append(k.okl.encode())
    texts += gen
    kinds += ["gen"] * len(gen)
    src["generated_C20"] = len(gen)
    d2 = os.path.join(vlib.VERIF, "corpus", "C16")
    hand = []
    for f in sorted(glob.glob(os.path.join(d2, "*"))):
        if os.path.isfile(f):
            hand.append(open(f, "rb").read())
    texts += hand
    kinds += ["hand"] * len(hand)
    src["corpus_C16"] = len(hand)
    uniq, ukinds, seen = [], [], set()
    for t, kd in zip(texts, kinds):
        t = t.split(b"\0")[0]
        if t and t not in seen:
            seen.add(t)
            uniq.append(t)
            ukinds.append(kd)
    return uniq, src, ukinds


def _seed_dir(wd):
    """every seeded process executes the whole seed corpus first (~50-150 ms per kernel under ASan+UBSan), so the corpus is
    kept lean: every .okl file, every hand-written seed and the smallest generated kernels get all 7 translators (string
    source) plus one file-source input; the other texts get two or three rotating selectors (libFuzzer mutates the selector
    byte itself; the selector characters are dictionary words)"""
    texts, src, kinds = _seed_texts()
    items = []
    gen_small = sorted(len(t) for t, kd in zip(texts, kinds) if kd == "gen")[:6]
    gen_small = gen_small[-1] if gen_small else 0
    for k, (t, kd) in enumerate(zip(texts, kinds)):
        if kd in ("okl", "hand") or (kd == "gen" and len(t) <= gen_small):
            sel = list(range(7)) + [7 + k % 7]
        elif kd == "gen":
            sel = [k % 7, (k + 3) % 7, 7 + (k + 5) % 7]
        elif kd == "joined":
            sel = [k % 7, (k + 2) % 7, 7 + (k + 4) % 7]
        else:                                  # bare fragments of the tests: they never reach a translator-specific stage
            if len(t) < 6:
                continue
            sel = [k % 7] + ([7 + (k // 7) % 7] if k % 5 == 0 else [])
        for s in sel:
            items.append(bytes([ord("0") + s]) + t)
    src["seed_inputs"] = len(items)
    return v_fuzz.write_corpus(os.path.join(wd, "seeds"), items), src


def _dict(wd):
    words = [w.replace("\\x20", " ") for w in KEYWORDS.split()]
    words += [chr(ord("0") + s) for s in range(14)]
    return v_fuzz.write_dict(os.path.join(wd, "c16.dict"), sorted(set(words)))


def _sandbox(wd):
    d = os.path.join(wd, "sandbox")
    os.makedirs(d, exist_ok=True)
    for fn, txt in SANDBOX.items():
        with open(os.path.join(d, fn), "w") as f:
            f.write(txt)
    return d


def _env(wd):
    asan = vlib.base_env(wd)["ASAN_OPTIONS"].replace("detect_leaks=1", "detect_leaks=0")
    return {"ASAN_OPTIONS": asan + ":quarantine_size_mb=16:max_malloc_fill_size=0", "VERIF_C16_DIR": _sandbox(wd)}


def run(prop, tier, replay, t0):
    vlib.ensure_build("asan")
    fzbin = vlib.build_harness("fuzz_C16", kind="fuzz")
    wd = vlib.workdir(prop)
    try:
        env = _env(wd)
        if replay:
            path = os.path.abspath(replay)
            st, o = v_fuzz.run_input(fzbin, path, wd, known="", tag="user", extra_env=env)
            sys.stdout.write(o[-4000:])
            if st != "pass":
                print("VIOLATION property=%s replay=%s" % (prop, path))
                return 1
            return 0

        out = vlib.Outcome()
        findings = vlib.known_findings(prop)
        f_bin = [f for f in findings if f.replay.endswith(".bin")]
        ids = [f.id for f in findings]
        runs, jobs, cap = TIERS["quick" if tier == "quick" else "thorough"]
        scale = float(os.environ.get("VERIF_C16_SCALE", "1"))     # development aid (loaded machine); recorded below
        if scale != 1:
            runs = max(jobs, int(runs * scale))
            out.notes.append("VERIF_C16_SCALE=%s: run budget scaled (development run, not the registered tier)" % scale)

        # 1. saved inputs: regression inputs must pass (known findings are re-run and printed by run_fuzzer)
        v_fuzz.run_saved_inputs(prop, fzbin, wd, out, findings, extra_env=env)

        # 2. libFuzzer campaign
        seeds, src = _seed_dir(wd)
        v_fuzz.run_fuzzer(prop, fzbin, wd, out, runs, MAX_LEN, [seeds], dict_file=_dict(wd), jobs=jobs, thorough_time=cap,
                          findings=f_bin, known_ids=ids, extra_env=env, extra_args=["-detect_leaks=0"])
        out.extra["fuzz"]["seed_corpus"] = src
        out.extra["engine"] = "libFuzzer (%d processes), seeds derived from VERIF_SEED" % jobs
        return vlib.finish(prop, tier, "exploration", out, RULE, t0, ASSUMPTIONS)
    finally:
        vlib.cleanup(wd)


REGISTRY["C16"] = run

m("C16", "exploration",
  "Coverage-guided fuzzing (libFuzzer, ASan+UBSan) of the whole OKL front end in-process: tokenizer, preprocessor, parser, "
  "attribute transformations and the serial, OpenMP, CUDA, HIP, OpenCL, Metal and DPC++ translators including printing of "
  "the device and launcher sources and kernel metadata; the first input byte selects the translator and whether the text is "
  "parsed as a string or as a file. Seeded with every kernel of the repository, the kernels of the translator and parser "
  "tests, generated valid kernels and a dictionary of OKL vocabulary; half of the processes start from nothing. A violation "
  "is a crash artifact (signal, ASan/UBSan report, std::terminate, uncaught foreign exception) confirmed three times in "
  "isolation, or a unit that hangs three times in isolation. Search, not proof: bounded input length and nesting depth.",
  "Trusted: ASan/UBSan/libFuzzer runtime. occa::exception and reported diagnostics are clean rejections; leaks are out of "
  "scope; #include is confined to a sandbox directory; no interior NUL.",
  "coverage-guided fuzzing (libFuzzer) with crash / sanitizer oracle, crash de-duplication by signature",
  "libFuzzer", "DESIGN.md §4 C16")
