"""C16 — the OKL front end reports malformed input instead of crashing (libFuzzer on the 7 translators, in-process)."""
import glob
import os
import random
import re
import sys
from concurrent.futures import ThreadPoolExecutor

import v_fuzz
import vlib
from meta import m
from props import REGISTRY

MODES = ["serial", "openmp", "cuda", "hip", "opencl", "metal", "dpcpp"]
MAX_LEN = 4096
NEST_CAP = 200                      # C16_NEST_CAP of harness/fuzz_C16.cpp
HANG_IDS = ("nested-attribute-exponential", "macro-mutual-recursion-hang")   # known findings whose replay is a hang

# tier -> (libFuzzer runs in total, jobs, time cap per process [s] or None, token-mutated kernels)
TIERS = {
    "quick": (32000, 16, None, 1500),
    "thorough": (1600000, 16, 5400, 60000),
}

RULE = (
    "libFuzzer (ASan+UBSan, -max_len=4096) on one in-process target: byte 0 selects the translator (serial, openmp, cuda, hip, "
    "opencl, metal, dpcpp) and the source kind (string source = parser_t::parseSource on an exact-size heap copy, file source "
    "= parser_t::parseFile on the text written to a file), the rest is the source text. Fresh parser object per input; when the "
    "parser succeeds the rest of device::buildKernel's pipeline runs (toString of device and launcher source, "
    "setSourceMetadata of both); diagnostics are silenced and counted through io::stderr/stdout.setOverride; occa::exception = "
    "clean rejection. Oracle: the process survives (no signal, sanitizer report, std::terminate, foreign exception) and no "
    "input exceeds the unit time-out 3 times in isolation. Even processes start from the seed corpus (every .okl file under "
    "examples/ and tests/files, the kernel strings of tests/src/internal/lang/{modes,parser}/*.cpp whole and as fragments, 30 "
    "valid kernels of the C20 generator, corpus/C16 (valid and deliberately invalid kernels); whole kernels with every translator selector), odd processes from an empty "
    "corpus; dictionary = OKL keywords, attributes, operators, preprocessor directives. A second, structure-aware stream feeds "
    "the same target with token-level mutations (delete / duplicate / swap / replace a token, drop a bracket, change or move "
    "an attribute, truncate, splice) of valid generated kernels (C20 generator) and of the repository's kernels. evaluations = "
    "executed libFuzzer units + mutated kernels. Non-trivial = input on which the parser built at least one statement (root.size() > 0) before it accepted or "
    "rejected the text; distinct = distinct input bytes (FNV-1a 64). The classes give the accept / reject(errors) / "
    "reject(exception) split per translator and per 'statements parsed' class."
)

ASSUMPTIONS = [
    "inputs contain no interior NUL (every OCCA entry point takes a C string / reads the file into one): the text is cut at "
    "its first NUL",
    "an #include may only name a file of the sandbox directory the target runs in (inc.h, inc2.h): inputs in which the word "
    "include is followed by a quoted or <...> span containing '/' or '~' on one (spliced) line are skipped and counted — "
    "/dev/zero, /dev/stdin, /proc would test the machine, not OCCA",
    "inputs are at most %d bytes with bracket nesting at most %d deep (recursive-descent parser: recursion depth = nesting "
    "depth; 3000 nested parentheses / braces / 4000 pointer stars did not overflow the 8 MB stack, so no finding is "
    "claimed) and runs of at most 256 unary operator characters (the expression tree of ----...1 is cloned per level: "
    "quadratic, minutes under ASan); deeper / longer inputs are skipped and counted" % (MAX_LEN, NEST_CAP),
    "macro bombs are not OCCA defects: inputs whose #define bodies can multiply the text by more than 10^6 (product over the "
    "definitions of the highest multiplicity of one identifier in the body, to the power of parenthesis depth + 1) are "
    "skipped and counted",
    "memory leaks are not part of the property (detect_leaks=0): AST nodes dropped on error paths are not reported here",
    "default parser settings plus \"mode\"; okl/validate stays on",
    "hangs: only a unit exceeding the libFuzzer unit time-out (300 s) and then 60 s three times in isolation counts",
    "libocca built from the working tree with clang ASan+UBSan (-fno-sanitize-recover=undefined), fuzzer-no-link",
]

KEYWORDS = r"""@kernel @outer @inner @shared @exclusive @tile @dim @dimOrder @atomic @barrier @restrict @max_inner_dims
@nobarrier @simd_length @directive @outer(0) @outer(1) @outer(2) @inner(0) @inner(1) @inner(2) @tile(16,@outer,@inner)
@tile(8,@outer(0),@inner(0),check=false) @dim(2,3) @dimOrder(1,0) @barrier("warp") @max_inner_dims(8,8) @simd_length(4)
void int float double char short long unsigned signed bool const volatile restrict static extern inline register auto
struct union enum class typedef namespace template typename public private protected friend virtual
for while do if else switch case default break continue return goto sizeof new delete throw true false
#define #undef #if #ifdef #ifndef #elif #else #endif #include #pragma #line #error #warning defined __VA_ARGS__ __LINE__
__FILE__ __COUNTER__ __has_include #pragma\x20occa\x20@ #include\x20"inc.h" #include\x20<inc2.h> #include\x20<cmath> #pragma\x20once
__global__ __shared__ __device__ __kernel __restrict__ occaDim int2 float4 size_t ptrdiff_t uint64_t
( ) [ ] { } ; , : ? :: ... -> . ++ -- + - * / % & | ^ ~ ! = < > <= >= == != && || << >> += -= *= /= %= &= |= ^= <<= >>= ->* .* ## # @ <<< >>>
0 1 16 0x10 1.0f 1e3 'a' "s" u8"s" R"(s)" 1u 2L 3ull
for(int\x20i=0;i<n;++i;@outer) for(int\x20j=0;j<16;++j;@inner) @kernel\x20void\x20k(int\x20n,float*a) @shared\x20int\x20s[16]; @exclusive\x20int\x20e;
@atomic\x20a[0]+=1; @barrier(); a[] (*f)() [[ ]] int\x20a[] extern\x20"C" operator"""

SANDBOX = {
    "inc.h": "#ifndef INC_H\n#define INC_H\n#define INC_N 16\n#define INC_ADD(a, b) ((a) + (b))\ntypedef float inc_real;\n"
             "inline int inc_f(int x) { return INC_ADD(x, INC_N); }\n#endif\n",
    "inc2.h": "#pragma once\n#include \"inc.h\"\nstruct inc_vec { inc_real x, y; };\n",
}


def _joined_literals(paths):
    """runs of adjacent C++ string literals ("a\\n" "b\\n" ...) joined: the kernels embedded in the tests"""
    res, seen = [], set()
    for p in paths:
        try:
            txt = open(p, errors="replace").read()
        except OSError:
            continue
        for run in re.finditer(r'(?:"(?:[^"\\\n]|\\.)*"\s*){2,}', txt):
            parts = re.findall(r'"((?:[^"\\\n]|\\.)*)"', run.group(0))
            b = b"".join(v_fuzz._c_unescape(x) for x in parts).split(b"\0")[0]
            if b and b not in seen:
                seen.add(b)
                res.append(b)
    return res


def _seed_texts():
    texts, src, kinds = [], {}, []
    okl = []
    for d in ("examples", "tests/files"):
        okl += glob.glob(os.path.join(vlib.REPO, d, "**", "*.okl"), recursive=True)
    for f in sorted(okl):
        try:
            texts.append(open(f, "rb").read())
        except OSError:
            pass
    src["okl_files"] = len(texts)
    kinds += ["okl"] * len(texts)
    tests = sorted(glob.glob(os.path.join(vlib.REPO, "tests/src/internal/lang/modes/*.cpp")) +
                   glob.glob(os.path.join(vlib.REPO, "tests/src/internal/lang/parser/*.cpp")))
    frag = v_fuzz.cpp_string_literals(tests)
    joined = _joined_literals(tests)
    texts += frag + joined
    kinds += ["frag"] * len(frag) + ["joined"] * len(joined)
    src["test_literals"] = len(frag)
    src["test_literals_joined"] = len(joined)
    import p_C20
    gen, i = [], 0
    while len(gen) < 30 and i < 400:
        k = p_C20.render(p_C20.program(random.Random(vlib.derive(vlib.seed(), "C16", "gen", i))), "g%d" % i)
        i += 1
        if len(k.okl) < MAX_LEN - 1:
            gen.append(k.okl.encode())
    texts += gen
    kinds += ["gen"] * len(gen)
    src["generated_C20"] = len(gen)
    d2 = os.path.join(vlib.VERIF, "corpus", "C16")
    hand = []
    for f in sorted(glob.glob(os.path.join(d2, "*"))):
        if os.path.isfile(f):
            hand.append(open(f, "rb").read())
    texts += hand
    kinds += ["hand"] * len(hand)
    src["corpus_C16"] = len(hand)
    uniq, ukinds, seen = [], [], set()
    for t, kd in zip(texts, kinds):
        t = t.split(b"\0")[0]
        if t and t not in seen:
            seen.add(t)
            uniq.append(t)
            ukinds.append(kd)
    return uniq, src, ukinds


def _seed_dir(wd):
    """every seeded process executes the whole seed corpus first (~50-150 ms per kernel under ASan+UBSan), so the corpus is
    kept lean: every .okl file, every hand-written seed and the smallest generated kernels get all 7 translators (string
    source) plus one file-source input; the other texts get two or three rotating selectors (libFuzzer mutates the selector
    byte itself; the selector characters are dictionary words)"""
    texts, src, kinds = _seed_texts()
    items = []
    gen_small = sorted(len(t) for t, kd in zip(texts, kinds) if kd == "gen")[:6]
    gen_small = gen_small[-1] if gen_small else 0
    for k, (t, kd) in enumerate(zip(texts, kinds)):
        if kd in ("okl", "hand") or (kd == "gen" and len(t) <= gen_small):
            sel = list(range(7)) + [7 + k % 7]
        elif kd == "gen":
            sel = [k % 7, (k + 3) % 7, 7 + (k + 5) % 7]
        elif kd == "joined":
            sel = [k % 7, (k + 2) % 7, 7 + (k + 4) % 7]
        else:                                  # bare fragments of the tests: they never reach a translator-specific stage
            if len(t) < 6:
                continue
            sel = [k % 7] + ([7 + (k // 7) % 7] if k % 5 == 0 else [])
        for s in sel:
            items.append(bytes([ord("0") + s]) + t)
    src["seed_inputs"] = len(items)
    return v_fuzz.write_corpus(os.path.join(wd, "seeds"), items), src


# ------------------------------------------------------------------------------------------------
# stream 2: token-level mutations of valid kernels (structure-aware; same target, inputs given as files)
# ------------------------------------------------------------------------------------------------
_TOKEN = re.compile(rb"""\s+|//[^\n]*|/\*.*?\*/|"(?:[^"\\\n]|\\.)*"|'(?:[^'\\\n]|\\.)*'|[A-Za-z_]\w*|\d[\w.]*|@|<<=|>>=|->|\+\+|--|&&|\|\||[<>=!+\-*/%&|^]=|<<|>>|::|.""", re.S)
_ATTRS = [b"kernel", b"outer", b"inner", b"shared", b"exclusive", b"tile", b"dim", b"dimOrder", b"atomic", b"barrier", b"restrict",
          b"max_inner_dims", b"nobarrier", b"simd_length", b"directive", b"foo"]
_SPLICE = [b"(", b")", b"{", b"}", b"[", b"]", b";", b",", b"@", b"@outer", b"@inner", b"@shared", b"@exclusive", b"@tile(4,@outer,@inner)",
           b"@dim(2,2)", b"@atomic", b"@barrier()", b"@kernel", b"@restrict", b"int", b"float", b"*", b"&", b"const", b"for", b"if", b"else",
           b"while", b"return", b"break", b"continue", b"struct", b"typedef", b"=", b"+", b"-", b"?", b":", b"0", b"1", b"n", b"i0", b"o0",
           b"#define X", b"\n#if 1\n", b"\n#endif\n", b"\n#else\n", b"sizeof", b"...", b"::", b"->", b"++", b"<", b">", b"<<", b"\"s\"", b"'c'"]


_NOT_FN = {b"for", b"if", b"while", b"switch", b"sizeof", b"return", b"else", b"do"}
_P_ATTR = [b"", b"", b"@restrict ", b"@restrict ", b"@dim(2,2) ", b"@dimOrder(1,0) ", b"@shared ", b"@exclusive ", b"@atomic ", b"@foo ",
           b"@restrict @dim(2,2) "]
_P_QUAL = [b"", b"", b"const ", b"volatile ", b"const volatile "]
_P_TYPE = [b"int", b"float", b"double", b"long", b"char", b"unsigned int", b"float4", b"bool", b"void", b"size_t", b"struct S"]
_P_PTR = [b" ", b" ", b" *", b" **", b" &", b" * const ", b" *@restrict "]
_P_DIMS = [b"", b"", b"[4]", b"[]", b"[2][3]", b"[n]", b"[0]", b"[4] @dim(2,2)"]


def gen_param(rnd):
    return (rnd.choice(_P_ATTR) + rnd.choice(_P_QUAL) + rnd.choice(_P_TYPE) + rnd.choice(_P_PTR) + b"zz%d" % rnd.randrange(3) +
            rnd.choice(_P_DIMS))


def mutate_tokens(rnd, text):
    """1-3 token-level edits of `text` (bytes): delete / duplicate / swap / replace a token, drop or add a bracket, change or
    move an attribute, truncate, splice a piece of another position, insert a grammar-generated parameter declaration"""
    toks = [m.group(0) for m in _TOKEN.finditer(text)]
    idx = [i for i, t in enumerate(toks) if not t.isspace()]
    for _ in range(rnd.choice([1, 1, 1, 2, 2, 3])):
        if len(idx) < 4:
            break
        op = rnd.randrange(13)
        i = rnd.choice(idx)
        if op == 0:
            toks[i] = b""
        elif op == 1:
            toks[i] = toks[i] + b" " + toks[i]
        elif op == 2:
            j = rnd.choice(idx)
            toks[i], toks[j] = toks[j], toks[i]
        elif op == 3:
            br = [k for k in idx if toks[k] in (b"{", b"}", b"(", b")", b"[", b"]")]
            if br:
                toks[rnd.choice(br)] = b""
        elif op == 4:
            at = [k for k in idx if toks[k] == b"@"]
            if at:
                k = rnd.choice(at)
                nxt = [q for q in idx if q > k]
                if nxt:
                    toks[nxt[0]] = rnd.choice(_ATTRS)
        elif op == 5:
            cut = rnd.choice(idx)
            toks = toks[:cut]
        elif op == 6:
            toks[i] = rnd.choice(_SPLICE)
        elif op == 7:
            toks.insert(i, rnd.choice(_SPLICE) + b" ")
        elif op == 8:
            j = rnd.choice(idx)
            a, b = min(i, j), max(i, j)
            piece = toks[a:min(b, a + 12) + 1]
            k = rnd.choice(idx)
            toks[k:k] = piece
        elif op == 9:
            j = rnd.choice(idx)
            a, b = min(i, j), max(i, j)
            del toks[a:min(b, a + 8) + 1]
        elif op == 10:
            at = [k for k in idx if toks[k] == b"@"]
            if at:
                k = rnd.choice(at)
                nxt = [q for q in idx if q > k]
                if nxt:
                    piece = [toks[k], toks[nxt[0]]]
                    toks[k] = toks[nxt[0]] = b""
                    toks.insert(rnd.choice(idx), b" ".join(piece) + b" ")
        elif op == 12:
            # a grammar-generated parameter declaration (attribute x qualifier x type x pointer/reference x array suffix) put at the
            # head of a parenthesised list that follows an identifier: function and kernel headers (and, harmlessly, calls)
            opens = [k for n, k in enumerate(idx) if toks[k] == b"(" and n > 0 and re.match(rb"[A-Za-z_]\w*$", toks[idx[n - 1]])
                     and toks[idx[n - 1]] not in _NOT_FN]
            if opens:
                k = rnd.choice(opens)
                nxt = [q for q in idx if q > k]
                sep = b"" if (nxt and toks[nxt[0]] == b")") else b", "
                toks[k] = b"(" + gen_param(rnd) + sep
        else:
            toks[i] = rnd.choice([b"0", b"-1", b"n", b"", b"()", b"(,)", b"[]", b"{}", b"@", b"1.5", b"x", b"0", b"*", b"\"", b"'", b"/*"])
        idx = [q for q, t in enumerate(toks) if t and not t.isspace()]
    return b"".join(toks)[:MAX_LEN - 1]


def mutant_inputs(count, tag="mut"):
    """`count` inputs (selector byte + mutated kernel) derived from VERIF_SEED: bases are generated C20 kernels, the .okl
    files, the kernels of the tests and corpus/C16"""
    import p_C20
    texts, _, kinds = _seed_texts()
    bases = [t for t, kd in zip(texts, kinds) if kd in ("okl", "joined", "hand") and len(t) < MAX_LEN - 1 and b"@kernel" in t]
    rnd = random.Random(vlib.derive(vlib.seed(), "C16", tag))
    res = []
    g = 0
    while len(res) < count:
        if rnd.random() < 0.6 or not bases:
            g += 1
            base = p_C20.render(p_C20.program(random.Random(vlib.derive(vlib.seed(), "C16", tag, "g", g))), "m%d" % g).okl.encode()
            if len(base) >= MAX_LEN - 1:
                continue
        else:
            base = rnd.choice(bases)
        sel = rnd.randrange(7) + (7 if rnd.random() < 0.15 else 0)
        res.append(bytes([ord("0") + sel]) + mutate_tokens(rnd, base))
    return res


def run_mutants(prop, binary, wd, out, inputs, env, known, jobs=vlib.NCPU):
    """runs the inputs through the libFuzzer binary as files, `jobs` processes; a dying process names the failing file in
    its last `Running:` line; failures are de-duplicated by signature, confirmed 3x and saved as violation replays"""
    d = os.path.join(wd, "mut")
    os.makedirs(d, exist_ok=True)
    files = []
    for k, b in enumerate(inputs):
        f = os.path.join(d, "m%05d.bin" % k)
        with open(f, "wb") as fh:
            fh.write(b)
        files.append(f)
    chunks = [files[i::jobs] for i in range(jobs)]

    def work(ci):
        rest, res, b, execd = list(chunks[ci]), [], 0, 0
        while rest:
            b += 1
            e = vlib.base_env(wd, "mu%d" % ci)
            e.update(env)
            e["VERIF_KNOWN"] = known
            e["VERIF_STATS"] = os.path.join(d, "stats%d_%d.json" % (ci, b))
            lf = os.path.join(d, "log%d_%d.txt" % (ci, b))
            rc, _ = vlib.run_proc([binary, "-timeout=300", "-rss_limit_mb=4096", "-detect_leaks=0"] + rest, e, 7200, lf)
            o = open(lf, errors="replace").read()
            if rc == 0:
                execd += len(rest)
                break
            started = re.findall(r"^Running: (.*)$", o, re.M)
            bad = os.path.normpath(started[-1].strip()) if started else rest[0]
            if bad not in rest:
                bad = rest[0]
            res.append(bad)
            execd += rest.index(bad) + 1
            rest = rest[rest.index(bad) + 1:]
        return res, execd, [os.path.join(d, "stats%d_%d.json" % (ci, k)) for k in range(1, b + 1)]

    with ThreadPoolExecutor(max_workers=jobs) as ex:
        results = list(ex.map(work, range(jobs)))
    import json
    failing = []
    for res, execd, stats in results:
        out.evaluations += execd
        failing += res
        for sf in stats:
            try:
                st = json.load(open(sf))
            except (OSError, ValueError):
                continue
            st.pop("evaluations", None)
            st["classes"] = dict(("mutants:" + k[5:] if k.startswith("fuzz:") else k, v) for k, v in st.get("classes", {}).items())
            out.merge_stats(st)
    seen = {}
    triaged = 0
    for f in sorted(failing, key=os.path.getsize):
        # first isolated run: same signature as a confirmed failure = duplicate, not re-run (many mutants hit one defect)
        s1, o1 = v_fuzz.run_input(binary, f, wd, known=known, tag="mc0", extra_env=env)
        if s1 != "pass" and ("hang: " if s1 == "hang" else "") + v_fuzz.signature(o1) in seen:
            continue
        triaged += 1
        if triaged > 12:
            out.notes.append("mutant stream: %d failing inputs, triage stopped after 12" % len(failing))
            break
        runs3 = [(s1, o1)] + [v_fuzz.run_input(binary, f, wd, known=known, tag="mc%d" % k, extra_env=env) for k in (1, 2)]
        if not all(s != "pass" for s, _ in runs3):
            out.notes.append("mutant input %s failed in the batch but not 3x in isolation %s" % (os.path.basename(f), [s for s, _ in runs3]))
            continue
        sig = ("hang: " if runs3[-1][0] == "hang" else "") + v_fuzz.signature(runs3[-1][1])
        if sig in seen:
            continue
        dst = vlib.save_replay(prop, f, "violation_seed%d_mut%d.bin" % (vlib.seed(), len(seen) + 1))
        seen[sig] = dst
        data = open(f, "rb").read()
        out.violations.append((dst, "token-mutated kernel: %s  input(%d bytes)=%s" % (sig, len(data), v_fuzz._escape_bytes(data, 120))))
    out.extra["mutants"] = {"inputs": len(inputs), "failing": len(failing), "distinct_signatures": len(seen)}
    if inputs:
        out.samples.append("mutant: " + v_fuzz._escape_bytes(inputs[0], 200))


def _dict(wd):
    words = [w.replace("\\x20", " ") for w in KEYWORDS.split()]
    words += [chr(ord("0") + s) for s in range(14)]
    return v_fuzz.write_dict(os.path.join(wd, "c16.dict"), sorted(set(words)))


def _sandbox(wd):
    d = os.path.join(wd, "sandbox")
    os.makedirs(d, exist_ok=True)
    for fn, txt in SANDBOX.items():
        with open(os.path.join(d, fn), "w") as f:
            f.write(txt)
    return d


def _env(wd):
    asan = vlib.base_env(wd)["ASAN_OPTIONS"].replace("detect_leaks=1", "detect_leaks=0")
    return {"ASAN_OPTIONS": asan + ":quarantine_size_mb=16:max_malloc_fill_size=0", "VERIF_C16_DIR": _sandbox(wd)}


def run(prop, tier, replay, t0):
    vlib.ensure_build("asan")
    fzbin = vlib.build_harness("fuzz_C16", kind="fuzz")
    wd = vlib.workdir(prop)
    try:
        env = _env(wd)
        if replay:
            path = os.path.abspath(replay)
            st, o = v_fuzz.run_input(fzbin, path, wd, known="", tag="user", extra_env=env)
            sys.stdout.write(o[-4000:])
            if st != "pass":
                print("VIOLATION property=%s replay=%s" % (prop, path))
                return 1
            return 0

        out = vlib.Outcome()
        findings = vlib.known_findings(prop)
        f_hang = [f for f in findings if f.id in HANG_IDS]
        f_bin = [f for f in findings if f.replay.endswith(".bin") and f.id not in HANG_IDS]
        ids = [f.id for f in findings]
        runs, jobs, cap, nmut = TIERS["quick" if tier == "quick" else "thorough"]
        scale = float(os.environ.get("VERIF_C16_SCALE", "1"))     # development aid (loaded machine); recorded below
        if scale != 1:
            runs, nmut = max(jobs, int(runs * scale)), max(jobs, int(nmut * scale))
            out.notes.append("VERIF_C16_SCALE=%s: run budget scaled (development run, not the registered tier)" % scale)

        # 1. saved inputs: regression inputs must pass (known findings are re-run and printed by run_fuzzer)
        v_fuzz.run_saved_inputs(prop, fzbin, wd, out, findings, extra_env=env)
        if out.violations:
            # a regression input fails: that is the verdict, no search is needed to find a failing input
            out.notes.append("regression inputs fail: the fuzzing campaign was not started")
            out.samples.append("regression input: " + os.path.basename(out.violations[0][0]))
            return vlib.finish(prop, tier, "exploration", out, RULE, t0, ASSUMPTIONS)

        # known findings that are hangs: their replay needs the full 60 s limit of run_input, so they are confirmed in
        # the background while the campaign runs (the class is excluded in the target through VERIF_KNOWN)
        pool = ThreadPoolExecutor(max_workers=max(1, len(f_hang)))
        hang_jobs = [(f, pool.submit(v_fuzz.run_input, fzbin, os.path.normpath(os.path.join(vlib.VERIF, f.replay)), wd, "",
                                     60, "kh_" + f.id, env)) for f in f_hang
                     if os.path.exists(os.path.join(vlib.VERIF, f.replay))]

        # 2. libFuzzer campaign
        seeds, src = _seed_dir(wd)
        v_fuzz.run_fuzzer(prop, fzbin, wd, out, runs, MAX_LEN, [seeds], dict_file=_dict(wd), jobs=jobs, thorough_time=cap,
                          findings=f_bin, known_ids=ids, extra_env=env, extra_args=["-detect_leaks=0"])
        out.extra["fuzz"]["seed_corpus"] = src
        fuzz_execs = out.evaluations

        # 3. structure-aware stream: token-level mutations of valid kernels, same target
        run_mutants(prop, fzbin, wd, out, mutant_inputs(nmut), env, ",".join(ids))
        out.extra["libfuzzer_executions"] = fuzz_execs
        for f, job in hang_jobs:
            st, _ = job.result()
            if st != "pass":
                print("KNOWN-FINDING: property=%s %s [%s]" % (prop, f.text, f.id), flush=True)
                out.known_printed.append(f.id)
            else:
                out.notes.append("known finding %s no longer reproduces (replay finishes within 60 s)" % f.id)
        pool.shutdown()
        out.extra["engine"] = "libFuzzer (%d processes) + %d token-mutated kernels, seeds derived from VERIF_SEED" % (jobs, nmut)
        return vlib.finish(prop, tier, "exploration", out, RULE, t0, ASSUMPTIONS)
    finally:
        vlib.cleanup(wd)


REGISTRY["C16"] = run

m("C16", "exploration",
  "Coverage-guided fuzzing (libFuzzer, ASan+UBSan) of the whole OKL front end in-process: tokenizer, preprocessor, parser, "
  "attribute transformations and the serial, OpenMP, CUDA, HIP, OpenCL, Metal and DPC++ translators including printing of "
  "the device and launcher sources and kernel metadata; the first input byte selects the translator and whether the text is "
  "parsed as a string or as a file. Seeded with every kernel of the repository, the kernels of the translator and parser "
  "tests, generated valid kernels and a dictionary of OKL vocabulary; half of the processes start from nothing. A violation "
  "is a crash artifact (signal, ASan/UBSan report, std::terminate, uncaught foreign exception) confirmed three times in "
  "isolation, or a unit that hangs three times in isolation. Search, not proof: bounded input length and nesting depth.",
  "Trusted: ASan/UBSan/libFuzzer runtime. occa::exception and reported diagnostics are clean rejections; leaks are out of "
  "scope; #include is confined to a sandbox directory; no interior NUL.",
  "coverage-guided fuzzing (libFuzzer) with crash / sanitizer oracle, crash de-duplication by signature",
  "libFuzzer", "DESIGN.md §4 C16")
