"""C03 / C04 / C05 — one pool/allocation history harness (harness/pool.cpp), three oracles."""
from meta import m
from props import REGISTRY, rc_property

_GEN = ("case = history (<=max_size ops) on a fresh Serial/OpenMP device with up to two memory pools: reserve<T>(n) with sizes "
        "k*alignment+{-1,0,1}, release (drop handle) and free(), byte-granular slices of reservations and of slices, resize "
        "(valid and below reserved), shrinkToFit, setAlignment over {1,2,3,7,8,16,24,64,100,128,256,512} and 0, pattern "
        "writes, and a 'fragment' macro-op (k equal blocks, free alternating ones, then request more than one hole but no "
        "more than the free total); ")

REGISTRY["C03"] = rc_property(
    "pool", quick=(1200, 40), thorough=(40000, 80), extra_env={"VERIF_ORACLE": "C03"},
    rule=_GEN + "after every step every live reservation and slice is read back and compared with a shadow copy of the bytes "
         "last written, ranges of different reserve() calls must be pairwise disjoint and inside the pool buffer (ASan catches "
         "writes outside it). Non-trivial = history with a reserve issued when free total >= request > largest hole, or a "
         "resize/shrinkToFit/setAlignment with >=2 live blocks. Distinct = distinct serialised history.",
    assumptions=["slices of one reservation may overlap each other and their parent (they alias by design)"])

REGISTRY["C04"] = rc_property(
    "pool", quick=(1200, 40), thorough=(40000, 80), extra_env={"VERIF_ORACLE": "C04"},
    rule=_GEN + "after every step reserved() must equal the measure of the union of [floor(off/a)*a, ceil((off+size)/a)*a) over "
         "live entries (offsets read through the internal header), numReservations() the number of live entries (slices count), "
         "size() >= reserved(); resize below reserved() must raise and change nothing; after releasing everything reserved()==0. "
         "Non-trivial = history releasing a parent reservation while a slice of it lives, or changing the alignment with live "
         "entries. Distinct = distinct serialised history.",
    assumptions=["a slice of a reservation is itself a live reservation of the pool (that is how numReservations() counts)"])

REGISTRY["C05"] = rc_property(
    "pool", quick=(1200, 40), thorough=(40000, 80),
    extra_env={"VERIF_ORACLE": "C05",   # leak detection off: use_host_pointer allocations made by the device itself are never freed by
               # ~buffer unless own_host_pointer is set (a real leak, but not an accounting matter)
               "ASAN_OPTIONS": "detect_leaks=0:abort_on_error=0:detect_stack_use_after_return=0:handle_segv=1:allocator_may_return_null=1:symbolize=1"},
    rule=_GEN + "plus malloc (with/without source, use_host_pointer, own_host_pointer), clone, wrapMemory, release/free of those, a "
         "second pool; after every step memoryAllocated() must equal live malloc/clone bytes + live pool buffer sizes (wrapped = 0), "
         "maxMemoryAllocated() must lie between the largest observed memoryAllocated() and that value plus the old pool buffer "
         "that coexists during a pool re-allocation (exact when no pool buffer changed), and 0 after releasing everything. "
         "Non-trivial = history with a use_host_pointer allocation or a step that changes a pool's backing buffer size.",
    assumptions=["a malloc that wraps a source pointer (use_host_pointer) may count its bytes or nothing while live (the statement admits "
                 "both) but must subtract what it added; use_host_pointer without a source (given per call, inherited from the device's "
                 "memory properties, or through clone()) allocates on the device and must count",
                 "own_host_pointer is only passed when the device allocated the memory itself (ownership of a caller's pointer is not part of C05)"])

_T = ("property-based testing (rapidcheck), stateful model-based pool/allocation histories with a fragmentation-seeking "
      "generator; oracle = ")
m("C03", "exploration",
  "Generated pool histories (including constructed fragmented states) checked after every step against a shadow-bytes model and a "
  "pairwise-disjointness/containment invariant over raw pointers, under ASan. Sampled search with shrinking to a minimal history.",
  "Trusted: shadow model, rapidcheck, ASan. Host modes only (Serial, OpenMP share the pool implementation).",
  _T + "shadow byte arrays + interval disjointness", "rapidcheck", "DESIGN.md §4 C03")
m("C04", "exploration",
  "Same histories; oracle is an independent interval-union computation of reserved() and a count of live entries after every step, "
  "plus the raise-and-unchanged rule for resize below reserved().",
  "Trusted: interval model; offsets/sizes of live entries are read through occa/internal/core/memory.hpp.",
  _T + "interval-union reference model", "rapidcheck", "DESIGN.md §4 C04")
m("C05", "exploration",
  "Same histories extended with malloc/clone/wrapMemory/use_host_pointer and a second pool; oracle is the sum of live allocation "
  "sizes after every step, a sound two-sided bound on maxMemoryAllocated(), and zero at the end.",
  "Trusted: allocation ledger model. detach() excluded as in the property.",
  _T + "allocation ledger (sum of live sizes, running max bounds)", "rapidcheck", "DESIGN.md §4 C05")
