"""C17 — every backend visits exactly the iterations of each OKL loop (translation validation)."""
import json
import os
import random
import time

from hypothesis import given, seed, settings, strategies as st, HealthCheck, Phase

import vlib
import v_okl
from meta import m
from props import REGISTRY

ITYPES = ["int", "int", "int", "short", "char", "size_t", "ptrdiff_t"]
VISIT_PROTO = "void visit(long a, long b, long c, long d, long e, long f);\n"


# ---- expression menus: (text, uses run-time args, precedence class) -------------------------------
def e_small_nonneg():      # init expressions for incrementing loops / bounds for decrementing ones
    return st.sampled_from(["0", "1", "2", "0 + 1", "n & 1", "m - m", "(n > 5 ? 1 : 0)", "n - n", "1 << 1", "m & 3"])


def e_bound_up():          # upper bounds
    return st.sampled_from(["n", "m", "n + 1", "n - 1", "n + m", "n >> 1", "m * 2 - 1", "(n | 1)", "n & 7", "2 + 3", "7",
                            "n * 2", "m + 2 * 2", "(n < m ? n : m)", "n - 2 + 1", "1 + (n << 1)", "n % 5 + 2"])


def e_step():
    return st.sampled_from([None, None, None, "1", "2", "3", "s", "s + 1", "1 << 1", "(s | 1)", "s * 2 - 1", "2 + 1"])


@st.composite
def loop_header(draw, var, kind, outer_vars):
    """kind: 'outer' | 'inner'.  Returns dict describing one loop header."""
    ity = draw(st.sampled_from(ITYPES))
    unsigned = ity == "size_t"
    narrow = ity in ("char", "short")
    down = draw(st.booleans()) and not unsigned
    inclusive = draw(st.booleans())
    flip = draw(st.booleans())                 # bound on the left: "B > i"
    step = draw(e_step())
    style = draw(st.sampled_from(["pre", "post", "compound"]))
    rel = None
    if kind == "inner" and outer_vars and draw(st.integers(0, 3)) == 0:
        # inner range relative to an outer iterator: trip count must not depend on it
        rel = draw(st.sampled_from(outer_vars))
    lo = draw(e_small_nonneg())
    hi = draw(e_bound_up())
    if rel is not None:
        width = draw(st.sampled_from(["4", "3", "s + 2", "2 + 1", "(s | 1)"]))
        lo_txt, hi_txt = rel, "%s + %s" % (rel, width)
        if inclusive:
            hi_txt = "%s + %s - 1" % (rel, width)
    else:
        lo_txt, hi_txt = lo, hi
    if narrow and rel is None:
        # keep char/short iterators in range: bounds from a small menu
        hi_txt = draw(st.sampled_from(["n", "n + 1", "7", "m & 7", "2 + 3"]))
    if down:
        init, bound = hi_txt, lo_txt
        cmp_ = ">=" if inclusive else ">"
        if rel is not None:
            # for (i = o + w - 1; i >= o; --i)
            init = "%s + %s - 1" % (rel, width)
            bound = rel if inclusive else "%s - 1" % rel
        upd_op = "-"
    else:
        init, bound = lo_txt, hi_txt
        cmp_ = "<=" if inclusive else "<"
        upd_op = "+"
    if flip:
        flipped = {"<": ">", "<=": ">=", ">": "<", ">=": "<="}[cmp_]
        check = "%s %s %s" % (bound, flipped, var)
    else:
        check = "%s %s %s" % (var, cmp_, bound)
    if step is None:
        upd = {"pre": "%s%s%s" % (upd_op, upd_op, var), "post": "%s%s%s" % (var, upd_op, upd_op),
               "compound": "%s %s= 1" % (var, upd_op)}[style]
    else:
        upd = "%s %s= %s" % (var, upd_op, step)
    return {"var": var, "type": ity, "init": init, "check": check, "update": upd, "kind": kind, "down": down,
            "inclusive": inclusive, "step": step, "flip": flip, "bound": bound, "rel": rel is not None}


@st.composite
def program(draw):
    nouter = draw(st.sampled_from([1, 1, 1, 2, 2, 3]))
    ninner = draw(st.sampled_from([1, 1, 1, 2, 2, 3]))
    loops = []
    ovars = []
    for k in range(nouter):
        v = "o%d" % k
        loops.append(draw(loop_header(v, "outer", [])))
        ovars.append(v)
    for k in range(ninner):
        loops.append(draw(loop_header("i%d" % k, "inner", [o for o, l in zip(ovars, loops) if l["type"] in ("int", "ptrdiff_t")])))
    # run-time values: three tuples; the last one is small so that some range is empty at run time
    vals = [(draw(st.integers(3, 9)), draw(st.integers(2, 8)), draw(st.integers(1, 3))),
            (draw(st.integers(1, 12)), draw(st.integers(0, 6)), draw(st.integers(1, 4))),
            (draw(st.integers(-2, 2)), draw(st.integers(-1, 2)), draw(st.integers(1, 2)))]
    return {"loops": loops, "vals": vals}


def render(desc, name):
    loops = desc["loops"]
    ind = "  "
    okl = [VISIT_PROTO, "@kernel void %s(const int n, const int m, const int s) {" % name]
    ref = ["static void ref_%s(const int n, const int m, const int s) {" % name]
    for d, l in enumerate(loops):
        pad = ind * (d + 1)
        okl.append("%sfor (%s %s = %s; %s; %s; @%s) {" % (pad, l["type"], l["var"], l["init"], l["check"], l["update"], l["kind"]))
        ref.append("%sfor (%s %s = %s; %s; %s) {" % (pad, l["type"], l["var"], l["init"], l["check"], l["update"]))
    vs = [l["var"] for l in loops] + ["0"] * (6 - len(loops))
    call = "%svisit(%s);" % (ind * (len(loops) + 1), ", ".join(vs))
    okl.append(call)
    ref.append(call)
    for d in range(len(loops), 0, -1):
        okl.append(ind * d + "}")
        ref.append(ind * d + "}")
    okl.append("}")
    ref.append("}")
    params = [("const int", "n", False), ("const int", "m", False), ("const int", "s", False)]
    calls = [[str(a), str(b), str(c)] for a, b, c in desc["vals"]]
    return v_okl.Kernel(name, params, "\n".join(okl) + "\n", "\n".join(ref) + "\n", calls, meta=desc)


def nontrivial(desc):
    for l in desc["loops"]:
        bare = l["bound"].replace("_", "").isalnum()
        if not bare or l["down"] or l["inclusive"] or (l["step"] not in (None, "1")):
            return True
    return False


def const_eval_ok(desc):
    """OCCA rejects loops whose compile-time iteration count is not positive; keep such headers out (they are not
    'valid loop headers').  Conservative: a loop is compile-time evaluable only if it mentions no kernel argument and no
    other iterator."""
    for l in desc["loops"]:
        txt = " ".join([l["init"], l["bound"], l["step"] or "1"])
        if any(t in txt for t in ("n", "m", "s", "o0", "o1", "o2")):
            continue
        try:
            init, bound, step = eval(l["init"]), eval(l["bound"]), eval(l["step"] or "1")
        except Exception:
            return False
        cnt = (init - bound) if l["down"] else (bound - init)
        if l["inclusive"]:
            cnt += 1
        if cnt <= 0 or step <= 0:
            return False
    return True


def simplify(desc):
    """candidate simplifications for the by-hand reducer"""
    loops = desc["loops"]
    outs = []
    # fewer value tuples
    if len(desc["vals"]) > 1:
        for i in range(len(desc["vals"])):
            outs.append({"loops": loops, "vals": desc["vals"][:i] + desc["vals"][i + 1:]})
    # drop a loop (keep >=1 outer and >=1 inner); loops that others are relative to cannot be dropped
    for i, l in enumerate(loops):
        kinds = [x["kind"] for j, x in enumerate(loops) if j != i]
        if "outer" in kinds and "inner" in kinds and not any(l["var"] in (x["init"] + x["bound"]) for x in loops if x is not l):
            outs.append({"loops": loops[:i] + loops[i + 1:], "vals": desc["vals"]})
    return outs


# ------------------------------------------------------------------------------------------------
def run_batch(tr, wd, kernels, tag, modes=v_okl.MODES):
    """translate + build + run a list of Kernel objects for all modes.  Returns list of failure dicts."""
    reqs = [(k.name, mode, k.okl, "") for k in kernels for mode in modes]
    res = tr.translate_many(reqs)
    failures = []
    info = {"translated": 0, "rejected": 0}

    def one_mode(mode):
        fails = []
        items = []
        for k in kernels:
            r = res[(k.name, mode)]
            if "crash" in r:
                fails.append({"kernel": k.name, "mode": mode, "what": r["crash"]})
            elif not r["ok"]:
                fails.append({"kernel": k.name, "mode": mode, "what": "translator rejected a valid loop nest: " + r["diag"][-300:].replace("\n", " | ")})
            else:
                items.append((k, r))
        if not items:
            return fails
        base = os.path.join(wd, "%s_%s" % (tag, mode))
        exe, log = v_okl.compile_tu(v_okl.assemble(mode, items), base, mode)
        groups = [items]
        if exe is None:
            # isolate the case(s) that do not compile
            groups = []
            for j, it in enumerate(items):
                e1, l1 = v_okl.compile_tu(v_okl.assemble(mode, [it]), base + "_%d" % j, mode)
                if e1 is None:
                    errs = [x for x in l1.splitlines() if "error" in x][:3]
                    fails.append({"kernel": it[0].name, "mode": mode, "what": "translated code does not compile: " + " | ".join(errs)[:400]})
                else:
                    groups.append([it])
        for gi, g in enumerate(groups):
            exe_g = exe if exe is not None else base + "_%d.exe" % items.index(g[0])
            names = [k.name for k, _ in g]
            env = dict(os.environ)
            env["OMP_NUM_THREADS"] = "4"
            rr = v_okl.run_exe(exe_g, names, {k.name: len(k.calls) for k, _ in g}, env=env)
            for k, _ in g:
                bad = [(t, txt) for t, ok, txt in rr.get(k.name, []) if not ok]
                if not rr.get(k.name):
                    bad = [(-1, "no result reported")]
                if bad:
                    t, txt = bad[0]
                    vals = k.calls[t] if 0 <= t < len(k.calls) else "?"
                    fails.append({"kernel": k.name, "mode": mode, "what": "(n,m,s)=%s: %s" % (vals, txt[:400])})
        return fails
    from concurrent.futures import ThreadPoolExecutor
    with ThreadPoolExecutor(max_workers=len(modes)) as ex:
        for f in ex.map(one_mode, modes):
            failures.extend(f)
    return failures


def reduce_failure(tr, wd, desc, mode, tagbase):
    """by-hand shrinking of a failing program descriptor on the failing mode only"""
    cur = desc
    budget = 40
    changed = True
    n = 0
    while changed and budget > 0:
        changed = False
        for cand in simplify(cur):
            if not const_eval_ok(cand):
                continue
            budget -= 1
            n += 1
            k = render(cand, "r%d" % n)
            if run_batch(tr, wd, [k], "%s_r%d" % (tagbase, n), modes=[mode]):
                cur = cand
                changed = True
                break
            if budget <= 0:
                break
    return cur


def run(prop, tier, replay, t0):
    wd = vlib.workdir(prop)
    out = vlib.Outcome()
    tr = v_okl.Translator(wd, nworkers=8)
    rep_dir = os.path.join(vlib.VERIF, "replays", prop)
    os.makedirs(rep_dir, exist_ok=True)
    findings = vlib.known_findings(prop)
    known_ids = set(f.id for f in findings)
    try:
        def replay_file(path):
            d = json.load(open(path))
            k = render(d["desc"], "rp")
            modes = [d["mode"]] if d.get("mode") else v_okl.MODES
            return run_batch(tr, wd, [k], "rp%d" % (abs(hash(path)) % 10000), modes=modes)
        if replay:
            fails = replay_file(os.path.abspath(replay))
            for f in fails:
                print("  %s: %s" % (f["mode"], f["what"]))
            if fails:
                print("VIOLATION property=%s replay=%s" % (prop, os.path.abspath(replay)))
                return 1
            print("REPLAY-PASS")
            return 0
        # saved replays: known findings must still fail (else note), regression inputs must pass
        known_files = {}
        for f in findings:
            p = os.path.normpath(os.path.join(vlib.VERIF, f.replay))
            known_files[p] = f
            if os.path.exists(p):
                if replay_file(p):
                    print("KNOWN-FINDING: property=%s %s [%s]" % (prop, f.text, f.id), flush=True)
                    out.known_printed.append(f.id)
                else:
                    out.notes.append("known finding %s no longer reproduces" % f.id)
        nreg = 0
        for fn in sorted(os.listdir(rep_dir)):
            p = os.path.normpath(os.path.join(rep_dir, fn))
            if not fn.endswith(".json") or fn.startswith("violation_") or p in known_files:
                continue
            nreg += 1
            fl = replay_file(p)
            if fl:
                out.violations.append((p, "regression input fails: %s: %s" % (fl[0]["mode"], fl[0]["what"][:300])))
        out.extra["regression_replays"] = nreg

        nbatches, bsize = (6, 25) if tier == "quick" else (200, 40)
        state = {"n": 0, "batches": 0, "nt": set(), "fail": [], "excluded": {}}

        def excluded(desc):
            for kid in known_ids:
                sel = KNOWN_SELECTORS.get(kid)
                if sel and sel(desc):
                    state["excluded"][kid] = state["excluded"].get(kid, 0) + 1
                    return True
            return False

        @seed(vlib.derive(vlib.seed(), prop))
        @settings(max_examples=nbatches, database=None, deadline=None, derandomize=False,
                  suppress_health_check=list(HealthCheck), phases=[Phase.generate])
        @given(st.lists(program(), min_size=bsize, max_size=bsize))
        def campaign(descs):
            b = state["batches"]
            state["batches"] += 1
            kernels = []
            for i, d in enumerate(descs):
                if not const_eval_ok(d) or excluded(d):
                    continue
                k = render(d, "k%d_%d" % (b, i))
                kernels.append(k)
                if nontrivial(d):
                    state["nt"].add(k.okl.split("{", 1)[1])
                for l in d["loops"]:
                    for cls in (("decrementing" if l["down"] else "incrementing"), ("inclusive" if l["inclusive"] else "exclusive"),
                                ("step!=1" if l["step"] not in (None, "1") else "unit-step"), ("bound-left" if l["flip"] else "bound-right"),
                                ("relative-inner" if l["rel"] else "absolute"), "type:" + l["type"]):
                        out.classes[cls] = out.classes.get(cls, 0) + 1
                if len(out.samples) < 5 and i == 3:
                    out.samples.append(k.okl)
            state["n"] += len(kernels)
            fails = run_batch(tr, wd, kernels, "b%d" % b)
            byname = {k.name: k for k in kernels}
            for f in fails:
                f["desc"] = byname[f["kernel"]].meta
                state["fail"].append(f)
        campaign()
        out.evaluations = state["n"]
        out.nontrivial = state["nt"]
        out.excluded = state["excluded"]
        # triage: at most 3 distinct (mode, first words) failures are reduced
        seen = set()
        for f in state["fail"]:
            key = (f["mode"], f["what"][:40])
            if key in seen and len(seen) >= 1:
                continue
            seen.add(key)
            desc = f["desc"]
            if len(seen) <= 3:
                desc = reduce_failure(tr, wd, desc, f["mode"], "red%d" % len(seen))
            path = os.path.join(rep_dir, "violation_seed%d_%d.json" % (vlib.seed(), len(seen)))
            json.dump({"desc": desc, "mode": f["mode"], "what": f["what"], "okl": render(desc, "rp").okl}, open(path, "w"), indent=1)
            out.violations.append((path, "%s: %s" % (f["mode"], f["what"][:300])))
        out.extra["programs"] = state["n"]
        out.extra["backends"] = v_okl.MODES
        out.extra["disagreements_checked"] = len(state["fail"])
        out.extra["engine"] = "Hypothesis-generated loop nests, %d batches x %d; host compiler g++ as reference semantics" % (nbatches, bsize)
        return vlib.finish(prop, tier, "translation_validation", out, RULE, t0, ASSUME)
    finally:
        tr.close()
        vlib.cleanup(wd)


KNOWN_SELECTORS = {}
RULE = ("case = OKL kernel with 1-3 nested @outer and 1-3 nested @inner loops whose headers are generated (iterator type char/short/"
        "int/size_t/ptrdiff_t; <,<=,>,>= with the bound on either side; ++/--/+=/-= in all spellings; init/bound/step expressions of "
        "varying precedence over kernel arguments n,m,s and literals; inner ranges optionally relative to an outer iterator), run with "
        "3 run-time value tuples incl. one that makes ranges empty.  Reference = the same headers as plain C++ loops compiled by g++. "
        "Each of the 7 translations is compiled and executed (Serial/OpenMP natively; CUDA/HIP/OpenCL/Metal/DPC++ device code under "
        "the launch-model emulation in emu/, driven by the launch sizes the translated launcher computes); the multiset of visited "
        "iterator tuples must equal the reference.  Non-trivial = some header has a non-identifier bound, a step != 1, a decrementing "
        "or an inclusive comparison.  Distinct = distinct kernel text.")
ASSUME = ["loop direction is consistent (incrementing with </<=, decrementing with >/>=) and the step is >= 1, so the sequential loop terminates",
          "inner trip counts do not depend on outer iterators (documented OKL restriction)",
          "compile-time evaluable loops are non-empty (OCCA rejects the others as invalid)",
          "emulation headers under emu/ implement the documented launch model (trusted base)",
          "g++ -O0 is the reference semantics for the plain loops"]

REGISTRY["C17"] = run
m("C17", "translation_validation",
  "Generated loop nests are translated by all seven back ends; every translation is compiled and executed (GPU back ends under an "
  "emulation of the launch model that uses the launch sizes computed by the translated launcher) and the visited iterator tuples are "
  "compared with the same headers run as plain C++ loops. Differential, per generated program; failures are reduced by a by-hand "
  "descriptor reducer to a minimal kernel that becomes the replay file.",
  "Trusted: g++ as reference semantics, the emulation shims in emu/ (fibre scheduler, CUDA/OpenCL/Metal/SYCL built-ins, occa::dim / "
  "occa::kernel launcher shim written from OCCA's run-time code). Real GPU compilers/drivers are out of reach.",
  "property-based testing (Hypothesis grammar generator) + differential execution against the host compiler; launch-model emulation for GPU back ends",
  "hypothesis + g++ + emu", "DESIGN.md §4 C17")
