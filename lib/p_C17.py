"""C17 — every backend visits exactly the iterations of each OKL loop (translation validation)."""
import re

import vlib
import v_okl
from meta import m
from props import REGISTRY

ITYPES = ["int", "int", "int", "short", "char", "size_t", "ptrdiff_t"]
VISIT_PROTO = "void visit(long a, long b, long c, long d, long e, long f);\n"


# ---- expression menus -------------------------------------------------------------------------------
E_LO = ["0", "1", "2", "0 + 1", "n & 1", "m - m", "(n > 5 ? 1 : 0)", "n - n", "1 << 1", "m & 3"]
E_HI = ["n", "m", "n + 1", "n - 1", "n + m", "n >> 1", "m * 2 - 1", "(n | 1)", "n & 7", "2 + 3", "7",
        "n * 2", "m + 2 * 2", "(n < m ? n : m)", "n - 2 + 1", "1 + ((n + 2) << 1)", "n % 5 + 2"]
E_HI_UNSIGNED = ["n", "m", "n + 1", "7", "n & 7", "n * 2", "2 + 3", "n + m", "(n | 1)", "m * 2 + 1"]
E_LO_UNSIGNED = ["0", "1", "2", "0 + 1", "n & 1", "1 << 1", "m & 3"]
E_STEP = [None, None, None, "1", "2", "3", "s", "s + 1", "1 << 1", "(s | 1)", "s * 2 - 1", "2 + 1"]
E_WIDTH = ["4", "3", "s + 2", "2 + 1", "(s | 1)"]
E_HI_NARROW = ["n", "n + 1", "7", "m & 7", "2 + 3"]


def loop_header(rnd, var, kind, outer_vars):
    """kind: 'outer' | 'inner'.  Every choice comes from `rnd`, a Random object handed out by Hypothesis
    (st.randoms(use_true_random=False)), so the case is a function of the Hypothesis seed."""
    ity = rnd.choice(ITYPES)
    unsigned = ity == "size_t"
    narrow = ity in ("char", "short")
    down = rnd.random() < 0.5 and not unsigned
    inclusive = rnd.random() < 0.5
    flip = rnd.random() < 0.4                  # bound on the left: "B > i"
    step = rnd.choice(E_STEP)
    style = rnd.choice(["pre", "post", "compound"])
    rel = None
    if kind == "inner" and outer_vars and rnd.randrange(4) == 0:
        rel = rnd.choice(outer_vars)           # inner range relative to an outer iterator (trip count independent of it)
    lo_txt, hi_txt = rnd.choice(E_LO), rnd.choice(E_HI)
    width = rnd.choice(E_WIDTH)
    if rel is not None:
        lo_txt, hi_txt = rel, ("%s + %s - 1" if inclusive else "%s + %s") % (rel, width)
    elif narrow:
        hi_txt = rnd.choice(E_HI_NARROW)       # keep char/short iterators in range
    elif unsigned:
        # size_t iterators: operands stay non-negative (values n, m >= 0 are used for such programs)
        lo_txt, hi_txt = rnd.choice(E_LO_UNSIGNED), rnd.choice(E_HI_UNSIGNED)
    if down:
        init, bound = hi_txt, lo_txt
        cmp_ = ">=" if inclusive else ">"
        if rel is not None:
            init = "%s + %s - 1" % (rel, width)
            bound = rel if inclusive else "%s - 1" % rel
        upd_op = "-"
    else:
        init, bound = lo_txt, hi_txt
        cmp_ = "<=" if inclusive else "<"
        upd_op = "+"
    # operators that bind looser than a comparison need parentheses to stay one operand of it
    cb = bound
    if any(t in bound for t in ("&", "|", "^", "?")) and not (bound.startswith("(") and bound.endswith(")")):
        cb = "(" + bound + ")"
    if flip:
        check = "%s %s %s" % (cb, {"<": ">", "<=": ">=", ">": "<", ">=": "<="}[cmp_], var)
    else:
        check = "%s %s %s" % (var, cmp_, cb)
    if step is None:
        upd = {"pre": "%s%s%s" % (upd_op, upd_op, var), "post": "%s%s%s" % (var, upd_op, upd_op),
               "compound": "%s %s= 1" % (var, upd_op)}[style]
    else:
        upd = "%s %s= %s" % (var, upd_op, step)
    return {"var": var, "type": ity, "init": init, "check": check, "update": upd, "kind": kind, "down": down,
            "inclusive": inclusive, "step": step, "flip": flip, "bound": bound, "rel": rel is not None}


def program(rnd):
    nouter = rnd.choice([1, 1, 1, 2, 2, 3])
    ninner = rnd.choice([1, 1, 1, 2, 2, 3])
    loops, ovars = [], []
    for k in range(nouter):
        loops.append(loop_header(rnd, "o%d" % k, "outer", []))
        ovars.append("o%d" % k)
    usable = [o for o, l in zip(ovars, loops) if l["type"] in ("int", "ptrdiff_t")]
    for k in range(ninner):
        loops.append(loop_header(rnd, "i%d" % k, "inner", usable))
    # run-time values: three tuples; the last one is small so that some range is empty at run time
    lowest = 0 if any(l["type"] == "size_t" for l in loops) else -2
    vals = [(rnd.randint(3, 9), rnd.randint(2, 8), rnd.randint(1, 3)),
            (rnd.randint(1, 12), rnd.randint(0, 6), rnd.randint(1, 4)),
            (rnd.randint(lowest, 2), rnd.randint(max(lowest, -1), 2), rnd.randint(1, 2))]
    return {"loops": loops, "vals": vals}


def render(desc, name):
    loops = desc["loops"]
    ind = "  "
    okl = [VISIT_PROTO, "@kernel void %s(const int n, const int m, const int s) {" % name]
    ref = ["static void ref_%s(const int n, const int m, const int s) {" % name]
    for d, l in enumerate(loops):
        pad = ind * (d + 1)
        okl.append("%sfor (%s %s = %s; %s; %s; @%s) {" % (pad, l["type"], l["var"], l["init"], l["check"], l["update"], l["kind"]))
        ref.append("%sfor (%s %s = %s; %s; %s) {" % (pad, l["type"], l["var"], l["init"], l["check"], l["update"]))
    vs = [l["var"] for l in loops] + ["0"] * (6 - len(loops))
    call = "%svisit(%s);" % (ind * (len(loops) + 1), ", ".join(vs))
    okl.append(call)
    ref.append(call)
    for d in range(len(loops), 0, -1):
        okl.append(ind * d + "}")
        ref.append(ind * d + "}")
    okl.append("}")
    ref.append("}")
    params = [("const int", "n", False), ("const int", "m", False), ("const int", "s", False)]
    calls = [[str(a), str(b), str(c)] for a, b, c in desc["vals"]]
    return v_okl.Kernel(name, params, "\n".join(okl) + "\n", "\n".join(ref) + "\n", calls, meta=desc)


def nontrivial(desc):
    for l in desc["loops"]:
        bare = l["bound"].replace("_", "").isalnum()
        if not bare or l["down"] or l["inclusive"] or (l["step"] not in (None, "1")):
            return True
    return False


def const_eval_ok(desc):
    """OCCA rejects loops whose compile-time iteration count is not positive; keep such headers out (they are not
    'valid loop headers').  Conservative: a loop is compile-time evaluable only if it mentions no kernel argument and no
    other iterator."""
    for l in desc["loops"]:
        txt = " ".join([l["init"], l["bound"], l["step"] or "1"])
        if any(t in txt for t in ("n", "m", "s", "o0", "o1", "o2")):
            continue
        try:
            init, bound, step = eval(l["init"]), eval(l["bound"]), eval(l["step"] or "1")
        except Exception:
            return False
        cnt = (init - bound) if l["down"] else (bound - init)
        if l["inclusive"]:
            cnt += 1
        if cnt <= 0 or step <= 0:
            return False
    return True


def simplify(desc):
    """candidate simplifications for the by-hand reducer"""
    loops = desc["loops"]
    outs = []
    # fewer value tuples
    if len(desc["vals"]) > 1:
        for i in range(len(desc["vals"])):
            outs.append({"loops": loops, "vals": desc["vals"][:i] + desc["vals"][i + 1:]})
    # drop a loop (keep >=1 outer and >=1 inner); loops that others are relative to cannot be dropped
    for i, l in enumerate(loops):
        kinds = [x["kind"] for j, x in enumerate(loops) if j != i]
        if "outer" in kinds and "inner" in kinds and not any(l["var"] in (x["init"] + x["bound"]) for x in loops if x is not l):
            outs.append({"loops": loops[:i] + loops[i + 1:], "vals": desc["vals"]})
    return outs


RULE = ("case = OKL kernel with 1-3 nested @outer and 1-3 nested @inner loops whose headers are generated (iterator type char/short/"
        "int/size_t/ptrdiff_t; <,<=,>,>= with the bound on either side; ++/--/+=/-= in all spellings; init/bound/step expressions of "
        "varying precedence over kernel arguments n,m,s and literals; inner ranges optionally relative to an outer iterator), run with "
        "3 run-time value tuples incl. one that makes ranges empty.  Reference = the same headers as plain C++ loops compiled by g++. "
        "Each of the 7 translations is compiled and executed (Serial/OpenMP natively; CUDA/HIP/OpenCL/Metal/DPC++ device code under "
        "the launch-model emulation in emu/, driven by the launch sizes the translated launcher computes); the multiset of visited "
        "iterator tuples must equal the reference.  Non-trivial = some header has a non-identifier bound, a step != 1, a decrementing "
        "or an inclusive comparison.  Distinct = distinct kernel text.")
ASSUME = ["loop direction is consistent (incrementing with </<=, decrementing with >/>=) and the step is >= 1, so the sequential loop terminates",
          "inner trip counts do not depend on outer iterators (documented OKL restriction)",
          "compile-time evaluable loops are non-empty (OCCA rejects the others as invalid)",
          "emulation headers under emu/ implement the documented launch model (trusted base)",
          "g++ -O0 is the reference semantics for the plain loops"]



class C17Spec(v_okl.Spec):
    rule, assume = RULE, ASSUME
    quick, thorough = (5, 24), (300, 24)
    program = staticmethod(program)
    render = staticmethod(render)
    valid = staticmethod(const_eval_ok)
    nontrivial = staticmethod(nontrivial)
    simplify = staticmethod(simplify)

    def classes(self, d):
        out = []
        for l in d["loops"]:
            out += [("decrementing" if l["down"] else "incrementing"), ("inclusive" if l["inclusive"] else "exclusive"),
                    ("step!=1" if l["step"] not in (None, "1") else "unit-step"), ("bound-left" if l["flip"] else "bound-right"),
                    ("relative-inner" if l["rel"] else "absolute"), "type:" + l["type"]]
        return out

    def known_filter(self, k, mode, txt, known_ids):
        # known finding 'empty-range-launch': tuples whose reference visits nothing (some range is empty at run time) and
        # whose launch was refused for its negative size
        if "empty-range-launch" in known_ids and mode not in ("serial", "openmp") and "ref=0 " in txt and \
                ("launch dimensions are huge" in txt or "not a multiple of the local size" in txt):
            return "empty-range-launch"
        return None


REGISTRY["C17"] = lambda prop, tier, replay, t0: v_okl.run_tv(C17Spec(), prop, tier, replay, t0)
m("C17", "translation_validation",
  "Generated loop nests are translated by all seven back ends; every translation is compiled and executed (GPU back ends under an "
  "emulation of the launch model that uses the launch sizes computed by the translated launcher) and the visited iterator tuples are "
  "compared with the same headers run as plain C++ loops. Differential, per generated program; failures are reduced by a by-hand "
  "descriptor reducer to a minimal kernel that becomes the replay file.",
  "Trusted: g++ as reference semantics, the emulation shims in emu/ (fibre scheduler, CUDA/OpenCL/Metal/SYCL built-ins, occa::dim / "
  "occa::kernel launcher shim written from OCCA's run-time code). Real GPU compilers/drivers are out of reach.",
  "property-based testing (Hypothesis grammar generator) + differential execution against the host compiler; launch-model emulation for GPU back ends",
  "hypothesis + g++ + emu", "DESIGN.md §4 C17")
