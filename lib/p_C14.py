"""C14 — constant folding computes what C++ computes (Hypothesis expression trees, g++ as oracle)."""
import os
import subprocess

from hypothesis import strategies as st

import v_cexpr as cx
import v_hyp
import vlib
from meta import m
from props import REGISTRY
from v_hyp import Counter

PROP = "C14"

# ---------------------------------------------------------------------------------------------------
# known-finding classes (slug -> decided on a single node with the static C++ types of its operands)
# ---------------------------------------------------------------------------------------------------
SLUGS = ("lit-wider-than-suffix", "shift-rhs-wider", "ternary-mixed-types", "ternary-nested-unparenthesized",
         "tilde-bool", "bitop-bool-bool", "logical-float", "eq-float", "unary-after-binary")


def node_slugs(n):
    """Classes of *this* node (not of its children)."""
    k = n[0]
    out = []
    try:
        if k == "lit":
            t = cx.lit_cxx_type(n[2], n[3], n[4])
            if t != cx.lit_suffix_type(n[4]):
                out.append("lit-wider-than-suffix")
        elif k == "un":
            t = cx.static_type(n[2])
            if n[1] == "~" and t == "bool":
                out.append("tilde-bool")
            if n[1] == "!" and cx.is_float(t):
                out.append("logical-float")
        elif k == "bin":
            op = n[1]
            lt, rt = cx.static_type(n[2]), cx.static_type(n[3])
            if op in ("<<", ">>"):
                if cx.RANK[cx.promote(rt)] > cx.RANK[cx.promote(lt)]:
                    out.append("shift-rhs-wider")
            elif op in ("&", "|", "^"):
                if lt == "bool" and rt == "bool":
                    out.append("bitop-bool-bool")
            elif op in ("&&", "||"):
                if cx.is_float(lt) or cx.is_float(rt):
                    out.append("logical-float")
            elif op in ("==", "!="):
                if cx.is_float(lt) or cx.is_float(rt):
                    out.append("eq-float")
            if op in ("+", "-", "*", "&") and leftmost(n[3])[0] == "un":
                out.append("unary-after-binary")
        elif k == "tern":
            if n[2][0] == "tern" or n[3][0] == "tern":
                out.append("ternary-nested-unparenthesized")
            if cx.static_type(n[2]) != cx.static_type(n[3]):
                out.append("ternary-mixed-types")
    except cx.Undefined:
        pass
    return out


def leftmost(n):
    """the node whose text starts the text of n"""
    while n[0] in ("bin", "tern"):
        n = n[2] if n[0] == "bin" else n[1]
    return n


# ---------------------------------------------------------------------------------------------------
# generator
# ---------------------------------------------------------------------------------------------------
SUFFIX_SPELL = {"": [""], "u": ["u", "U"], "l": ["l", "L", "ll", "LL"],
                "ul": ["ul", "UL", "uL", "Ul", "lu", "LU", "ull", "ULL", "llu", "LLU", "uLL", "Ull"]}
BOUNDARY = [0, 1, 2, 3, 7, 8, 31, 32, 63, 64, 127, 128, 255, 256, 32767, 32768, 65535, 65536,
            (1 << 31) - 1, 1 << 31, (1 << 31) + 1, (1 << 32) - 1, 1 << 32, (1 << 32) + 1,
            (1 << 63) - 1, 1 << 63, (1 << 64) - 1, 0x7FFFFFFE, 0xFFFFFFFE, 1000000007, 123456789012]
FLOATS = ["0.0", "1.0", "0.5", "1.5", "2.5", "3.25", "0.1", "0.2", "0.3", "1e3", "1.5e3", "2.5e-3", "1E+2", "1e10",
          "16777217.0", "2.", ".5", ".25", "100.0", "3.0", "7.0", "0.75", "1e-3", "123456.789", "4294967296.0",
          "2147483648.0", "9007199254740993.0", "1.25e2", "33554431.0"]


def spell_int(kind, value, spell_suf, upper):
    if kind == "dec":
        body = str(value)
    elif kind == "hex":
        body = ("0X%X" if upper else "0x%x") % value
    elif kind == "oct":
        body = "0%o" % value if value else "0"
    else:
        body = ("0B" if upper else "0b") + bin(value)[2:]
    return body + spell_suf


@st.composite
def int_literal(draw, known):
    kind = draw(st.sampled_from(["dec", "dec", "dec", "hex", "hex", "oct", "bin"]))
    suf = draw(st.sampled_from(["", "", "", "u", "l", "ul"]))
    how = draw(st.integers(0, 9))
    if how <= 4:
        value = draw(st.integers(0, 20))
    elif how <= 7:
        value = draw(st.sampled_from(BOUNDARY))
    elif how == 8:
        value = draw(st.integers(0, (1 << 32) - 1))
    else:
        value = draw(st.integers(0, (1 << 64) - 1))
    if kind == "oct" and value == 0:
        kind = "dec"
    t = cx.lit_cxx_type(kind, value, suf)
    if t is None:
        # no C++ type fits (decimal > LLONG_MAX without u): make it unsigned long
        suf = "ul"
        t = cx.lit_cxx_type(kind, value, suf)
    if "lit-wider-than-suffix" in known and t != cx.lit_suffix_type(suf):
        Counter.hit("lit-wider-than-suffix")
        suf = {"int": "", "uint": "u", "long": "l", "ulong": "ul"}[t]
    spell = draw(st.sampled_from(SUFFIX_SPELL[suf]))
    upper = draw(st.booleans())
    return ["lit", spell_int(kind, value, spell, upper), kind, value, suf]


@st.composite
def leaf(draw, known):
    w = draw(st.integers(0, 9))
    if w <= 5:
        return draw(int_literal(known))
    if w <= 7:
        txt = draw(st.sampled_from(FLOATS))
        if draw(st.booleans()):
            txt += draw(st.sampled_from(["f", "F"]))
        return ["flt", txt]
    return ["bool", draw(st.sampled_from(["true", "false"]))]


UB_SNIPPETS = [
    ["bin", "/", ["lit", "1", "dec", 1, ""], ["lit", "0", "dec", 0, ""]],
    ["bin", "%", ["lit", "7", "dec", 7, ""], ["lit", "0", "dec", 0, ""]],
    ["bin", "/", ["lit", "5", "dec", 5, ""], ["par", ["bin", "-", ["lit", "2", "dec", 2, ""], ["lit", "2", "dec", 2, ""]]]],
    ["bin", "<<", ["lit", "1", "dec", 1, ""], ["lit", "32", "dec", 32, ""]],
    ["bin", "+", ["lit", "2147483647", "dec", 2147483647, ""], ["lit", "1", "dec", 1, ""]],
    ["bin", "/", ["lit", "1u", "dec", 1, "u"], ["lit", "0u", "dec", 0, "u"]],
    ["bin", "%", ["lit", "1l", "dec", 1, "l"], ["lit", "0l", "dec", 0, "l"]],
    ["bin", ">>", ["lit", "1", "dec", 1, ""], ["un", "-", ["lit", "1", "dec", 1, ""]]],
    ["bin", "*", ["lit", "65536", "dec", 65536, ""], ["lit", "65536", "dec", 65536, ""]],
]

BIN_OPS = ["*", "/", "%", "+", "-", "<<", ">>", "<", "<=", ">", ">=", "==", "!=", "&", "^", "|", "&&", "||"]


def wrap_child(parent_kind, op, child, side, extra):
    if extra or cx.needs_par(parent_kind, op, child, side):
        return ["par", child]
    return child


def defined(n):
    try:
        return cx.cxx_eval(n)
    except cx.Undefined:
        return None


def avoid_known(n, known):
    """-> slug of a known class this node belongs to, or None"""
    for s in node_slugs(n):
        if s in known:
            return s
    return None


@st.composite
def expr(draw, depth, known):
    """-> tree whose C++ evaluation is defined and that contains no node of a known-finding class"""
    if depth <= 0 or draw(st.integers(0, 9)) < 2:
        return draw(leaf(known))
    w = draw(st.integers(0, 19))
    extra = draw(st.integers(0, 5)) == 0
    if w <= 3:       # unary
        op = draw(st.sampled_from(["-", "+", "!", "~"]))
        a = draw(expr(depth - 1, known))
        for cand in (op, "-", "+"):
            n = ["un", cand, wrap_child("un", cand, a, "a", extra)]
            if defined(n) is None:
                continue
            s = avoid_known(n, known)
            if s:
                Counter.hit(s)
                continue
            return n
        return a
    if w <= 13:      # binary
        op = draw(st.sampled_from(BIN_OPS))
        a = draw(expr(depth - 1, known))
        b = draw(expr(depth - 1, known))
        for cand in (op, "<"):
            n = ["bin", cand, wrap_child("bin", cand, a, "l", extra), wrap_child("bin", cand, b, "r", extra)]
            if defined(n) is None:
                continue
            s = avoid_known(n, known)
            if s:
                Counter.hit(s)
                continue
            return n
        return a
    if w <= 16:      # ternary
        c = draw(expr(depth - 1, known))
        a = draw(expr(depth - 1, known))
        b = draw(expr(depth - 1, known))
        n = ["tern", wrap_child("tern", "", c, "c", extra), wrap_child("tern", "", a, "a", False),
             wrap_child("tern", "", b, "b", extra)]
        if defined(n) is not None:
            s = avoid_known(n, known)
            if not s:
                return n
            Counter.hit(s)
            n = ["tern", n[1], n[2], wrap_child("tern", "", a, "b", extra)]
            if defined(n) is not None and not avoid_known(n, known):
                return n
        return a
    # guarded undefined operand in an unevaluated position
    g = draw(expr(depth - 1, known))
    gv = defined(g)
    form = draw(st.integers(0, 3))
    gp = ["par", g]
    snippet = draw(st.sampled_from(UB_SNIPPETS))
    if form >= 2:
        x = draw(expr(depth - 2, known))
        xt = cx.static_type(x)
        same = [u for u in UB_SNIPPETS if cx.static_type(u) == xt]
        if "ternary-mixed-types" in known and cx.static_type(snippet) != xt:
            if same:
                snippet = same[draw(st.integers(0, len(same) - 1))]
            else:
                Counter.hit("ternary-mixed-types")
                form = 0
    ub = ["par", snippet]
    if form <= 1:
        n = ["bin", "&&", gp, ub] if not cx.truth(gv[1]) else ["bin", "||", gp, ub]
    else:
        xp = ["par", x]
        n = ["tern", gp, xp, ub] if cx.truth(gv[1]) else ["tern", gp, ub, xp]
    if defined(n) is None:
        return g
    s = avoid_known(n, known)
    if s:
        Counter.hit(s)
        return g
    return n


def has_unevaluated_ub(tree):
    for n in cx.walk(tree):
        if n[0] == "par" and n[1] in UB_SNIPPETS:
            return True
    return False


# ---------------------------------------------------------------------------------------------------
# oracle
# ---------------------------------------------------------------------------------------------------
TU_HEAD = r"""
#include <cstdio>
#include <cstring>
static void emit(int id, bool v)               { printf("%d bool 1 0 0 %016llx\n", id, (unsigned long long) v); }
static void emit(int id, int v)                { printf("%d int 4 1 0 %016llx\n", id, (unsigned long long) (unsigned) v); }
static void emit(int id, unsigned v)           { printf("%d uint 4 0 0 %016llx\n", id, (unsigned long long) v); }
static void emit(int id, long v)               { printf("%d long 8 1 0 %016llx\n", id, (unsigned long long) v); }
static void emit(int id, unsigned long v)      { printf("%d ulong 8 0 0 %016llx\n", id, (unsigned long long) v); }
static void emit(int id, long long v)          { printf("%d long 8 1 0 %016llx\n", id, (unsigned long long) v); }
static void emit(int id, unsigned long long v) { printf("%d ulong 8 0 0 %016llx\n", id, (unsigned long long) v); }
static void emit(int id, float v)              { unsigned b; memcpy(&b, &v, 4); printf("%d float 4 1 1 %016llx\n", id, (unsigned long long) b); }
static void emit(int id, double v)             { unsigned long long b; memcpy(&b, &v, 8); printf("%d double 8 1 1 %016llx\n", id, b); }
int main() {
"""


def gxx_batch(wd, tag, texts):
    """-> {index: (type, width, signed, isfloat, bits)} ; indices missing when g++ rejects an expression"""
    out = {}

    def run(idx):
        src = os.path.join(wd, "tu_%s.cpp" % tag)
        exe = os.path.join(wd, "tu_%s.exe" % tag)
        with open(src, "w") as f:
            f.write(TU_HEAD)
            for i in idx:
                f.write("  { auto v = (%s); emit(%d, v); }\n" % (texts[i], i))
            f.write("  return 0;\n}\n")
        r = subprocess.run(["g++", "-O0", "-w", "-std=c++17", "-o", exe, src], stdout=subprocess.PIPE,
                           stderr=subprocess.STDOUT, text=True)
        if r.returncode != 0:
            if len(idx) == 1:
                return
            h = len(idx) // 2
            run(idx[:h])
            run(idx[h:])
            return
        p = subprocess.run([exe], stdout=subprocess.PIPE, stderr=subprocess.STDOUT, text=True)
        for line in p.stdout.split("\n"):
            f_ = line.split()
            if len(f_) == 6 and f_[0].isdigit():
                out[int(f_[0])] = (f_[1], int(f_[2]), int(f_[3]), int(f_[4]), int(f_[5], 16))
    if texts:
        run(list(range(len(texts))))
    return out


def triple(t, v):
    return (cx.WIDTH[t], cx.SIGNED[t], 1 if cx.is_float(t) else 0, cx.value_bits(t, v))


class C14(v_hyp.Spec):
    batch = 300

    def strategy(self, known_ids):
        known = frozenset(known_ids)
        return st.integers(2, 5).flatmap(lambda d: expr(d, known))

    def text(self, item):
        return cx.text(item)

    def classify(self, item):
        types = set()
        ops = set()
        big = False
        for n in cx.walk(item):
            if n[0] == "lit":
                t = cx.lit_cxx_type(n[2], n[3], n[4])
                types.add(t)
                big = big or not cx.fits(n[3], "int")
                ops.add("lit:%s:%s" % (n[2], t))
            elif n[0] == "flt":
                types.add("float" if n[1][-1] in "fF" else "double")
                ops.add("lit:float")
            elif n[0] == "bool":
                types.add("bool")
            elif n[0] == "un":
                ops.add("un:" + n[1])
            elif n[0] == "bin":
                try:
                    ops.add("bin:%s:%s" % (n[1], cx.uac(cx.static_type(n[2]), cx.static_type(n[3]))))
                except cx.Undefined:
                    ops.add("bin:" + n[1])
            elif n[0] == "tern":
                ops.add("tern")
        ub = has_unevaluated_ub(item)
        if ub:
            ops.add("unevaluated-undefined-operand")
        if big:
            ops.add("literal-exceeds-int")
        nt = len(types) >= 2 or ub or big
        return sorted(ops), nt

    def evaluate(self, ctx, items, shrinking=False):
        w = ctx["worker"]
        texts = [cx.text(it) for it in items]
        cases = []
        for t in texts:
            ctx["n"] += 1
            cases.append(("e%d" % ctx["n"], t))
        occa = w.batch("eval", cases)
        refs = []
        for it in items:
            try:
                refs.append(triple(*cx.cxx_eval(it)))
            except cx.Undefined as e:
                refs.append(("undefined", str(e)))
        single = len(items) == 1
        need = [i for i in range(len(items))
                if not (single and "crash" not in occa[i] and occa[i].get("status") == "value"
                        and self._occa_triple(occa[i]) == refs[i])]
        if shrinking:
            # candidates of the shrink phase are judged against the reference evaluator only (it agrees with g++ on
            # everything the batch phase saw, else the case would have been inconclusive); the final example is
            # re-judged with g++ before it is reported
            out = []
            for i in range(len(items)):
                bad = i in need and refs[i][0] != "undefined"
                out.append({"status": "fail" if bad else "ok", "what": "differs from the reference evaluator" if bad else ""})
            return out
        gx = gxx_batch(ctx["wd"], ctx["tag"], texts) if need else {}
        out = []
        for i, it in enumerate(items):
            o, ref = occa[i], refs[i]
            if i not in need:
                out.append({"status": "ok", "what": ""})
                continue
            if ref[0] == "undefined":
                out.append({"status": "inconclusive", "what": "reference evaluator: undefined (%s)" % ref[1]})
                continue
            g = gx.get(i)
            if g is None:
                out.append({"status": "inconclusive", "what": "g++ rejected the expression"})
                continue
            gt = (g[1], g[2], g[3], g[4])
            if gt != ref:
                out.append({"status": "inconclusive",
                            "what": "reference evaluator %s != g++ %s" % (self._fmt(ref), self._fmt(gt))})
                continue
            if o.get("kind") == "skipped":
                out.append({"status": "inconclusive", "what": o["crash"]})
                continue
            if "crash" in o:
                out.append({"status": "fail", "kind": o["kind"],
                            "what": "worker %s while evaluating `%s` (g++: %s %s): %s" %
                                    (o["kind"], texts[i], g[0], self._fmt(gt), o["crash"])})
                continue
            if o["status"] != "value":
                exc = v_hyp.unhex(o.get("exc_hex", ""))
                out.append({"status": "fail", "kind": o["status"],
                            "what": "OCCA %s for `%s` (g++: %s %s) %s" %
                                    (o["status"], texts[i], g[0], self._fmt(gt), v_hyp.exc_summary(exc) if exc else "")})
                continue
            ot = self._occa_triple(o)
            if ot != gt:
                out.append({"status": "fail", "kind": "value",
                            "what": "`%s`: OCCA %s %s, g++ %s %s" % (texts[i], o["type"], self._fmt(ot), g[0], self._fmt(gt))})
                continue
            out.append({"status": "ok", "what": ""})
        return out

    @staticmethod
    def _occa_triple(o):
        return (o["width"], o["signed"], o["float"], int(o["bits"], 16))

    @staticmethod
    def _fmt(t):
        return "(width=%d signed=%d float=%d bits=0x%x)" % t


RULE = ("item = one C++ constant expression (tree depth <= 5) over integer literals (dec/hex/oct/bin, all suffix "
        "spellings, boundary values around 2^31, 2^32, 2^63, 2^64), floating literals (with/without f), true/false, "
        "parentheses, unary + - ! ~, all binary arithmetic/shift/relational/equality/bitwise/logical operators and ?:; a "
        "reference evaluator constructs only trees whose C++17 evaluation is defined and plants undefined operands "
        "(1/0, 1%0, 1<<32, INT_MAX+1, ...) in unevaluated positions only. Oracle: g++ -O0 -w -std=c++17 on batches of 300 "
        "expressions per TU; OCCA (tokenize -> expressionParser::parse -> evaluate) must return the same width, signedness, "
        "floatness and value bits and must not throw or crash. reference != g++ => inconclusive (counted). "
        "Non-trivial = >=2 distinct literal types in the tree, or an unevaluated undefined operand, or an integer "
        "literal that does not fit int. Distinct = distinct expression text.")

SPEC = C14()


def run(prop, tier, replay, t0):
    return v_hyp.run(SPEC, prop, tier, replay, t0, quick=8000, thorough=320000, level="exploration", rule=RULE,
                     assumptions=["the host g++ (-O0 -std=c++17, x86-64 LP64, IEEE-754 binary32/64, arithmetic >> of negative "
                                  "values) is the C++ reference; long and long long are both compared as 64-bit",
                                  "long double, character and user-defined literals are outside the statement (OCCA has no such "
                                  "primitive types)", "leak detection is off in the worker (not part of the property)"])


REGISTRY[PROP] = run

m(PROP, "exploration",
  "Differential property-based test: Hypothesis generates typed constant-expression trees (only C++-defined ones, with "
  "undefined operands placed in unevaluated positions), the host g++ evaluates batches of them in one translation unit, "
  "OCCA's expression parser + primitive evaluator must return the same value bits, signedness and width. Search with "
  "shrinking, not proof; classes behind listed known findings are excluded by construction and counted.",
  "Trusted: g++ as C++ reference, the Python reference evaluator only as a filter (disagreement with g++ is inconclusive, "
  "never a violation), Hypothesis, ASan/UBSan runtime of the worker.",
  "property-based differential testing (Hypothesis grammar-based generation, host compiler as oracle, batched TUs)",
  "hypothesis", "DESIGN.md §4 C14")
