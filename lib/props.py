"""Property registry.  Each entry is a callable (prop, tier, replay, t0) -> exit code."""
import os
import sys

import vlib

REGISTRY = {}


def rc_property(harness, quick, thorough, rule, level="exploration", assumptions=None, variant="asan",
                shards=vlib.NCPU, extra_env=None, timeout=7200):
    """Generic rapidcheck-harness property: (cases per shard, max_size) per tier."""
    assumptions = assumptions or []

    def run(prop, tier, replay, t0):
        vlib.ensure_build(variant)
        binary = vlib.build_harness(harness, "rc", variant)
        wd = vlib.workdir(prop)
        try:
            if replay:
                st, o = vlib.replay_case(binary, os.path.abspath(replay), wd, known="", tag="user", extra_env=extra_env)
                sys.stdout.write(o[-4000:])
                if st != "pass":
                    print("VIOLATION property=%s replay=%s" % (prop, os.path.abspath(replay)))
                    return 1
                return 0
            out = vlib.Outcome()
            findings = vlib.known_findings(prop)
            vlib.run_saved_replays(prop, binary, wd, out, findings, extra_env=extra_env)
            per_shard, max_size = quick if tier == "quick" else thorough
            vlib.run_rc(prop, binary, wd, out, per_shard, max_size, shards=shards,
                        known_ids=[f.id for f in findings], extra_env=extra_env, tier=tier, timeout=timeout)
            out.extra["shards"] = shards
            out.extra["cases_per_shard"] = per_shard
            out.extra["max_size"] = max_size
            out.extra["engine"] = "rapidcheck, %d processes, seeds derived from VERIF_SEED" % shards
            return vlib.finish(prop, tier, level, out, rule, t0,
                               assumptions + ["libocca built from /repo working tree with clang ASan+UBSan (%s variant)" % variant])
        finally:
            vlib.cleanup(wd)
    return run


REGISTRY["C28"] = rc_property(
    "C28", quick=(1500, 40), thorough=(40000, 60),
    rule="case = history of add/remove/freeze/defrost/autoFreeze/clear/query over alphabet {a,b,c,0xE9}, keys of "
         "length 1-5; after every mutating step every string up to length 4 (4 letters) and lengths 5-6 over {a,b} "
         "(436 strings; lengths<=3 only for long quick histories) is queried frozen and unfrozen against a std::map. "
         "Non-trivial = some query extends its model answer by >=2 characters along a branch that exists in the trie "
         "(the only place where frozen and unfrozen walks differ). Distinct = distinct serialised history.",
    assumptions=["keys are non-empty (has(c, 0) is documented to raise)", "trie copy construction is not part of the property"])

# more properties are registered by the modules below
for _m in ("props_api", "props_text", "props_okl", "props_proc"):
    try:
        __import__(_m)
    except ImportError as e:  # module not written yet
        if _m not in str(e):
            raise
