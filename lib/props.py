"""Property registry.  Each entry is a callable (prop, tier, replay, t0) -> exit code."""
import os
import sys

import vlib

REGISTRY = {}


def rc_property(harness, quick, thorough, rule, level="exploration", assumptions=None, variant="asan",
                shards=vlib.NCPU, extra_env=None, timeout=7200, post=None, env_fn=None):
    """Generic rapidcheck-harness property: (cases per shard, max_size) per tier."""
    assumptions = assumptions or []
    extra_env_ = extra_env

    def run(prop, tier, replay, t0):
        vlib.ensure_build(variant)
        binary = vlib.build_harness(harness, "rc", variant)
        wd = vlib.workdir(prop)
        extra_env = dict(extra_env_ or {})
        if env_fn:
            extra_env.update(env_fn(wd))
        try:
            if replay:
                st, o = vlib.replay_case(binary, os.path.abspath(replay), wd, known="", tag="user", extra_env=extra_env)
                sys.stdout.write(o[-4000:])
                if st != "pass":
                    print("VIOLATION property=%s replay=%s" % (prop, os.path.abspath(replay)))
                    return 1
                return 0
            out = vlib.Outcome()
            findings = vlib.known_findings(prop)
            vlib.run_saved_replays(prop, binary, wd, out, findings, extra_env=extra_env)
            per_shard, max_size = quick if tier == "quick" else thorough
            vlib.run_rc(prop, binary, wd, out, per_shard, max_size, shards=shards,
                        known_ids=[f.id for f in findings], extra_env=extra_env, tier=tier, timeout=timeout)
            if post:
                post(prop, binary, wd, out, tier)
            out.extra["shards"] = shards
            out.extra["cases_per_shard"] = per_shard
            out.extra["max_size"] = max_size
            out.extra["engine"] = "rapidcheck, %d processes, seeds derived from VERIF_SEED" % shards
            return vlib.finish(prop, tier, level, out, rule, t0,
                               assumptions + ["libocca built from /repo working tree with clang ASan+UBSan (%s variant)" % variant])
        finally:
            vlib.cleanup(wd)
    return run



# every lib/p_*.py module registers its properties into REGISTRY (and its metadata into meta.META)
def _load_modules():
    import glob
    import importlib
    for f in sorted(glob.glob(os.path.join(os.path.dirname(os.path.abspath(__file__)), "p_*.py"))):
        importlib.import_module(os.path.basename(f)[:-3])
