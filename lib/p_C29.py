"""C29 — C API values keep their value and type through conversions (rapidcheck against the C headers)."""
from meta import m
from props import REGISTRY, rc_property

# same sanitizer options as vlib.base_env, with a smaller free-list quarantine: the cases are tiny, and a
# 256 MB quarantine makes every shard fault in fresh pages all the time (30% of the run time)
_ASAN = ("detect_leaks=1:abort_on_error=0:detect_stack_use_after_return=0:handle_segv=1:allocator_may_return_null=1:"
         "symbolize=1:quarantine_size_mb=32")

REGISTRY["C29"] = rc_property(
    "C29", quick=(400, 50), thorough=(16000, 80),
    rule="case = history over 6 handle slots: scalar ops push a value of every C scalar type (sized and C-named "
         "constructors; extremes, +-0, denormals, NaN, Inf, random bits) through occaType fields -> occa::c::primitive -> "
         "newOccaType -> inferJson -> getDtype -> occa::c::kernelArg (compared with the C++ kernelArg of the same value), "
         "strings / pointers / structs / occaNull likewise; JSON ops (occaCreateJson, ObjectSet/Get/Has with plain and "
         "path keys, ArrayPush/Insert/Get/Pop/Clear, nested json copies incl. self/child aliasing, occaJsonDump->occaJsonParse, "
         "occaFree, occaMalloc/occaTypedMalloc handles) run against a model of typed JSON; after every mutating step every "
         "live handle is read back recursively through the C accessors (type flags, occaJsonGetNumber with the original C "
         "type: tag, bytes, bits; strings; sizes; key presence; default on a miss; JSON null as occaNull). Each handle is "
         "occaFree'd exactly once; LeakSanitizer runs after every case. Non-trivial = a value is read back through >= 2 "
         "levels of nesting, or an extreme scalar goes through the conversion chain. Distinct = distinct serialised history.",
    extra_env={"ASAN_OPTIONS": _ASAN},
    assumptions=[
        "only in-range indices, initialised json values and correctly typed handles are generated for the main class; a "
        "small 'raises' class checks that a non-null pointer given as a JSON value raises occa::exception and changes nothing",
        "a borrowed (needsFree=false) child handle is used only while its root is unchanged; other borrowed handles into "
        "a root are released before that root is mutated",
        "NaN/Inf are not stored in JSON (no JSON representation); they are used in the scalar conversion chain",
        "occaBool is not passed to occa::c::kernelArg (the conversion raises; the C++ kernelArg has no bool overload either)",
        "object keys are [A-Za-z0-9_/] (escaping of keys is C24's domain)",
    ])

m("C29", "exploration",
  "Model-based stateful property test written against the C headers: generated histories of occaType constructors, "
  "occaJson object/array calls, dump/parse, nested copies and frees are executed against a model of typed JSON values; "
  "every value is read back through the C accessors with its original C type and compared bit for bit, kernel-argument "
  "conversion is compared with the C++ kernelArg of the same value, handle validity is checked by ASan on every later use "
  "and LeakSanitizer is run after every case so that a leak is attributed to (and shrunk with) its history. Sampled search.",
  "Trusted: the JSON model in harness/C29.cpp (path keys included), rapidcheck, ASan/UBSan/LSan. Borrowed child handles are "
  "only used while their root is unchanged. The default Serial host device backs the memory handles.",
  "property-based testing (rapidcheck), stateful model-based histories, differential check against the C++ API, sanitizers",
  "rapidcheck", "DESIGN.md §4 C29")
