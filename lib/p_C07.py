"""C07 — editing an included header always invalidates stale cached kernels (Hypothesis RuleBasedStateMachine).

Files of one history (all in the worker's cwd): k.okl (the OKL kernel) and the headers a.h b.h c.h d.h.  A file's
content is a list of items: ["s", n] = the statement `v = (v * 31 + n) % 1000003;`, ["i", "b"] = `#include "b.h"`.
The kernel puts its items between `int v = 0;` and `out[0] = v;` inside the @inner loop, so the int the kernel
writes is a polynomial hash of the *inclusion-order traversal* of the current contents of every file reachable from
k.okl: it changes when any reachable file, the include graph or the order changes.  A file may only include files
of higher rank (k < a < b < c < d), so every state is a DAG; bodies are independent of the file name, so two files
can have byte-identical contents (the class behind the XOR defect).

Item (replay) = {"mode": "Serial"|"OpenMP", "init": {...}, "steps": [...]}, steps:
  ["set", f, content]  ["bump", f, n] (change one statement of f)  ["copy", src, dst]  ["swap", x, y]  ["addinc", f, target, pos]  ["rminc", f, idx]
  ["revert", i]  (i-th snapshot; a snapshot is taken at every build)   ["build", "file"|"string"]
A step that would break the rank rule is a no-op (same decision in generation and in replay).
Oracle at every build (a fresh w_build process, shared cache directory): exit 0 and out[0] == value computed from the
current file contents by eval_state().
"""
import copy
import json
import os
import shutil

import vlib
import v_hypproc as vp
from meta import m
from props import REGISTRY

FILES = ["k", "a", "b", "c", "d"]
RANK = {f: i for i, f in enumerate(FILES)}
MOD = 1000003
MAX_BUILDS = 8


def fname(f):
    return "k.okl" if f == "k" else f + ".h"


def item_ok(f, it):
    return it[0] == "s" or (it[0] == "i" and it[1] in RANK and RANK[it[1]] > RANK[f])


def content_ok(f, content):
    return len(content) <= 4 and all(item_ok(f, it) for it in content)


def render(f, content):
    lines = []
    for it in content:
        if it[0] == "s":
            lines.append("v = (v * 31 + %d) %% %d;" % (it[1], MOD))
        else:
            lines.append('#include "%s.h"' % it[1])
    if f != "k":
        return "".join(l + "\n" for l in lines)
    return ("@kernel void probe(int *out) {\n  for (int o = 0; o < 1; ++o; @outer) {\n"
            "    for (int i = 0; i < 1; ++i; @inner) {\n      int v = 0;\n" +
            "".join(l + "\n" for l in lines) +
            "      out[0] = v;\n    }\n  }\n}\n")


def eval_state(files):
    def walk(f, v):
        for it in files[f]:
            if it[0] == "s":
                v = (v * 31 + it[1]) % MOD
            else:
                v = walk(it[1], v)
        return v
    return walk("k", 0)


def reachable(files):
    seen, todo = set(), ["k"]
    while todo:
        f = todo.pop()
        if f in seen:
            continue
        seen.add(f)
        todo += [it[1] for it in files[f] if it[0] == "i"]
    return seen


def initial_files(init):
    files = {"k": [["i", "a"]] + ([["i", "b"]] if init.get("k_includes_b") else []),
             "a": [["s", 1]] + ([["i", "b"]] if init.get("a_includes_b") else []),
             "b": [["s", 2]], "c": [["s", 3]], "d": [["s", 1]]}
    return files


class History:
    """Interpreter shared by the state machine and the replay."""

    def __init__(self, ctx, mode, init):
        self.ctx, self.mode, self.init = ctx, mode, init
        ctx.case_no = getattr(ctx, "case_no", 0) + 1
        self.D = os.path.join(ctx.root, "h%d" % ctx.case_no)
        shutil.rmtree(self.D, ignore_errors=True)
        self.src = os.path.join(self.D, "src")
        self.cache = os.path.join(self.D, "cache")
        os.makedirs(self.src)
        os.makedirs(self.cache)
        self.files = initial_files(init)
        self.snapshots = []
        self.steps = []
        self.builds = 0
        self.edits_since_build = 0
        self.build_after_edit_after_build = 0
        self.graph_or_revert = 0
        self.equal_contents_builds = 0
        self.nested_only_rebuilds = 0
        for f in FILES:
            self._write(f)

    def _write(self, f):
        with open(os.path.join(self.src, fname(f)), "w") as fh:
            fh.write(render(f, self.files[f]))

    def _set(self, f, content):
        if self.files[f] != content:
            had = [it for it in self.files[f] if it[0] == "i"]
            has = [it for it in content if it[0] == "i"]
            if had != has:
                self.graph_or_revert += 1
            self.files[f] = copy.deepcopy(content)
            self._write(f)
            self.edits_since_build += 1

    def apply(self, step, dry=False):
        """-> None, or a failing verdict dict.  dry: a build step only does the bookkeeping (shrink budget exhausted)."""
        self.steps.append(step)
        op = step[0]
        if op == "set":
            _, f, content = step
            if content_ok(f, content):
                self._set(f, content)
        elif op == "bump":
            # change one statement of one file and nothing else: replace its first statement (or add one in front)
            _, f, n = step
            c = copy.deepcopy(self.files[f])
            idx = [i for i, it in enumerate(c) if it[0] == "s"]
            if idx:
                c[idx[0]] = ["s", n if c[idx[0]][1] != n else n % 3 + 1]
            else:
                c.insert(0, ["s", n])
            if content_ok(f, c):
                self._set(f, c)
        elif op == "copy":
            _, s, d = step
            if s != d and content_ok(d, self.files[s]):
                self._set(d, self.files[s])
        elif op == "swap":
            _, x, y = step
            cx, cy = self.files[x], self.files[y]
            if x != y and content_ok(x, cy) and content_ok(y, cx):
                cx, cy = copy.deepcopy(cx), copy.deepcopy(cy)
                self._set(x, cy)
                self._set(y, cx)
        elif op == "addinc":
            _, f, t, pos = step
            c = copy.deepcopy(self.files[f])
            c.insert(min(pos, len(c)), ["i", t])
            if content_ok(f, c):
                self._set(f, c)
        elif op == "rminc":
            _, f, idx = step
            incs = [i for i, it in enumerate(self.files[f]) if it[0] == "i"]
            if incs and not (f == "k" and len(incs) == 1):   # the kernel keeps at least one include
                c = copy.deepcopy(self.files[f])
                del c[incs[idx % len(incs)]]
                self._set(f, c)
        elif op == "revert":
            _, i = step
            if self.snapshots:
                snap = self.snapshots[i % len(self.snapshots)]
                changed = False
                for f in FILES:
                    if self.files[f] != snap[f]:
                        changed = True
                        self._set(f, snap[f])
                if changed:
                    self.graph_or_revert += 1
        elif op == "build":
            return self.build(step[1], dry)
        return None

    def build(self, kind, dry=False):
        req = {"mode": self.mode, "kernel": "probe", "nout": 2, "props": {"compiler_flags": "-O0"}}
        if kind == "file":
            req["file"] = "k.okl"
        else:
            req["source_file"] = os.path.join(self.src, "k.okl")
        want = eval_state(self.files)
        b = None if dry else self.ctx.runner.build(req, self.cache, self.src)
        self.builds += 1
        if self.snapshots and self.edits_since_build:
            self.build_after_edit_after_build += 1
            prev = self.snapshots[-1]
            changed = [f for f in FILES if prev[f] != self.files[f]]
            direct = set(it[1] for it in prev["k"] if it[0] == "i")
            if changed and all(f in reachable(prev) and f not in direct and f != "k" for f in changed):
                self.nested_only_rebuilds += 1
        reach = sorted(reachable(self.files) - {"k"})
        if len(set(json.dumps(self.files[f]) for f in reach)) < len(reach):
            self.equal_contents_builds += 1
        self.edits_since_build = 0
        self.snapshots.append(copy.deepcopy(self.files))
        state = "; ".join("%s=[%s]" % (fname(f), render(f, self.files[f]).replace("\n", " ").strip() if f != "k" else
                                       " ".join('#include "%s.h"' % it[1] if it[0] == "i" else "s%d" % it[1] for it in self.files[f]))
                          for f in FILES)
        if b is None:
            return None
        if not b.ok:
            return {"status": "fail", "what": "build %d (%s-built, %s) failed or crashed: %s  [files: %s]"
                                              % (self.builds, kind, self.mode, b.brief(), state)}
        got = b.res["out"][0]
        if got != want:
            stale = [n + 1 for n, s in enumerate(self.snapshots[:-1]) if eval_state(s) == got]
            return {"status": "fail",
                    "what": "build %d (%s-built, %s) ran code that does not reflect the current files: kernel wrote %d, the current "
                            "contents give %d%s; compiler invoked: %s  [files: %s]"
                            % (self.builds, kind, self.mode, got, want,
                               (" (%d is what the files of build %s gave)" % (got, stale)) if stale else "",
                               "yes" if b.compiles else "no", state)}
        return None

    def nontrivial(self):
        return self.build_after_edit_after_build > 0 and self.graph_or_revert > 0

    def classes(self):
        c = ["mode:" + self.mode, "builds:%d" % self.builds]
        if self.build_after_edit_after_build:
            c.append("rebuild-after-edit")
        if self.graph_or_revert:
            c.append("graph-change-or-revert")
        if self.equal_contents_builds:
            c.append("build-with-two-reachable-headers-equal")
        if self.nested_only_rebuilds:
            c.append("rebuild-after-editing-only-nested-headers")
        for s in set(s[0] + (":" + s[1] if s[0] == "build" else "") for s in self.steps):
            c.append("op:" + s)
        return c

    def item(self):
        return {"mode": self.mode, "init": self.init, "steps": self.steps}

    def close(self):
        shutil.rmtree(self.D, ignore_errors=True)


def text(item):
    return json.dumps(item, sort_keys=True)


def replay_item(ctx, item):
    h = History(ctx, item["mode"], item.get("init", {}))
    try:
        for step in item["steps"]:
            v = h.apply(step)
            if v is not None:
                return v
        return {"status": "ok", "what": ""}
    finally:
        h.close()


# --------------------------------------------------------------------------------------------------
# the state machine
# --------------------------------------------------------------------------------------------------
def make_machine(ctx, stats, last):
    from hypothesis import strategies as st
    from hypothesis.stateful import RuleBasedStateMachine, initialize, precondition, rule

    failcache = {}
    budget = [3 * vp.SHRINK_BUDGET]
    headers = st.sampled_from(["a", "b", "c", "d"])
    anyfile = st.sampled_from(["a", "b", "a", "b", "c", "d", "k"])

    def items_for(f):
        opts = [["s", 1], ["s", 2], ["s", 3]] + [["i", t] for t in FILES if RANK[t] > RANK[f]]
        return st.sampled_from(opts)

    class Machine(RuleBasedStateMachine):
        def __init__(self):
            super().__init__()
            self.h = None

        @initialize(mode=st.sampled_from(["Serial", "OpenMP"]), kb=st.sampled_from([False, False, True]),
                    ab=st.sampled_from([True, True, False]))
        def init(self, mode, kb, ab):
            self.h = History(ctx, mode, {"k_includes_b": kb, "a_includes_b": ab})

        def _do(self, step):
            # after the first failing history at most 3 * vp.SHRINK_BUDGET further builds are really executed while
            # Hypothesis shrinks (count-based); later builds of unseen histories are bookkeeping only
            dry = False
            if step[0] == "build" and stats.frozen:
                key = text({"mode": self.h.mode, "init": self.h.init, "steps": self.h.steps + [step]})
                if key in failcache:
                    self.h.apply(step, dry=True)
                    self._fail(failcache[key])
                if budget[0] <= 0:
                    dry = True
                else:
                    budget[0] -= 1
            v = self.h.apply(step, dry)
            if v is not None:
                stats.frozen_pending = True
                failcache[text(self.h.item())] = v
                self._fail(v)

        def _fail(self, v):
            # the only raise site: Hypothesis identifies a failure by exception type and source line
            last["item"], last["v"] = self.h.item(), v
            raise AssertionError(v["what"])

        @rule(data=st.data(), f=anyfile)
        def set_content(self, data, f):
            content = data.draw(st.lists(items_for(f), min_size=0 if f != "k" else 1, max_size=2))
            if f == "k" and not any(it[0] == "i" for it in content):
                content = [["i", "a"]] + content
            self._do(["set", f, content])

        # single-file edit immediately followed by a build: the only change since the previous build is one header
        # (possibly one that is reachable only through another header)
        @precondition(lambda self: self.h is not None and self.h.builds < MAX_BUILDS)
        @rule(f=headers, n=st.integers(1, 3), kind=st.sampled_from(["file", "file", "string"]))
        def bump_then_build(self, f, n, kind):
            self._do(["bump", f, n])
            self._do(["build", kind])

        @rule(s=headers, d=headers)
        def copy_content(self, s, d):
            self._do(["copy", s, d])

        @rule(x=headers, y=headers)
        def swap_contents(self, x, y):
            self._do(["swap", x, y])

        @rule(f=st.sampled_from(["k", "a", "a", "b", "c"]), t=headers, pos=st.integers(0, 3))
        def add_include(self, f, t, pos):
            self._do(["addinc", f, t, pos])

        @rule(f=st.sampled_from(["k", "a", "a", "b", "c"]), idx=st.integers(0, 3))
        def remove_include(self, f, idx):
            self._do(["rminc", f, idx])

        @precondition(lambda self: self.h is not None and len(self.h.snapshots) > 0)
        @rule(i=st.integers(0, MAX_BUILDS))
        def revert(self, i):
            self._do(["revert", i])

        # at most two builds in a row without an edit in between (the second one exercises the plain cache hit)
        @precondition(lambda self: self.h is not None and self.h.builds < MAX_BUILDS and
                      not (len(self.h.steps) >= 2 and self.h.steps[-1][0] == "build" and self.h.steps[-2][0] == "build"))
        @rule(kind=st.sampled_from(["file", "file", "string"]))
        def build(self, kind):
            self._do(["build", kind])

        def teardown(self):
            if self.h is not None:
                h = self.h
                if h.builds:
                    stats.record(text(h.item()), h.classes(), h.nontrivial(), h.builds)
                if getattr(stats, "frozen_pending", False):
                    stats.frozen = True
                h.close()

    return Machine


class Spec:
    text = staticmethod(text)

    def shard(self, ctx):
        from hypothesis import seed
        from hypothesis.stateful import run_state_machine_as_test
        stats = vp.ShardStats()
        last = {}
        Machine = make_machine(ctx, stats, last)
        seed(ctx.seed)(Machine)
        steps = 30 if ctx.tier == "quick" else 50
        try:
            run_state_machine_as_test(Machine, settings=vp.hyp_settings(ctx.n, stateful_step_count=steps))
        except AssertionError:
            pass
        if "item" in last:
            stats.res["violation"] = {"item": last["item"], "what": last["v"]["what"], "text": text(last["item"])}
        return stats.res

    def replay(self, ctx, item):
        return replay_item(ctx, item)


RULE = ("case = history (<= 30 steps quick / 50 thorough, <= 8 builds) over the files k.okl, a.h, b.h, c.h, d.h: set a file to a content "
        "from a small alphabet, change a single statement of one header and build at once, copy one header's content to another (equal contents), swap two headers, add/remove an #include "
        "line (direct or nested), revert to the snapshot of an earlier build, build+run in a fresh process (file- or string-built "
        "OKL kernel, Serial or OpenMP) sharing one cache directory; every build must exit 0 and write the value computed from the "
        "current contents. Non-trivial = history with a build that follows an edit that follows a build and at least one revert or "
        "include-graph change. Distinct = distinct serialised history. evaluations counts histories with at least one build.")
ASSUME = ["OKL kernels only (dependency capture lives in the OKL preprocessor)",
          "headers are found through the process working directory (relative #include resolution of the OKL preprocessor)",
          "process environment fixed and constructed by the harness; compiler g++ -O0"]


def run(prop, tier, replay, t0):
    return vp.run_check(Spec(), prop, tier, replay, t0, quick=48, thorough=1600, level="exploration", rule=RULE,
                        assumptions=ASSUME)


REGISTRY["C07"] = run

m("C07", "exploration",
  "Stateful property-based test (Hypothesis RuleBasedStateMachine): generated histories edit a kernel file and up to four headers "
  "(small content alphabet, copy/swap between headers so that byte-identical contents are frequent, add/remove direct and nested "
  "#include lines, revert to earlier snapshots) interleaved with builds of the OKL kernel in fresh processes that share one cache "
  "directory. The kernel's output is a polynomial hash of the inclusion-order traversal of all reachable files, the oracle is a "
  "10-line model evaluating the current contents; a crashing or failing build is a violation as well. Sampled histories with "
  "shrinking, not exhaustive; it reproduces the XOR-combined dependency key (stack overflow when two headers get equal contents).",
  "Trusted: the model of #include expansion, g++, Hypothesis. OKL kernels only; headers resolved through the working directory.",
  "stateful property-based testing (Hypothesis rule-based state machine) against a model of textual inclusion, multi-process with a shared cache",
  "hypothesis", "DESIGN.md §4 C07")
