"""C06 — kernel cache keys separate every build configuration (Hypothesis + fresh worker processes).

Item = {"configs": [c0, c1, ..., cn, c0], "muts": [...]} (older replay form {"A","B"} = [A, B, A]).  A cfg is *symbolic*
(no absolute paths) so replay files are relocatable:

  mode     "Serial" | "OpenMP"                 (same for A and B: the statement is about one device)
  kind     "file" | "string"                   buildKernel(file) | buildKernelFromString(text)
  srcid    1..3                                literal inside the kernel source text
  callpf   bool                                source variant that calls pf(1)
  defines  None | {"DA":n,"DB":n} | {"pf":["fn",b]}     ["fn",b] = hash string of occa function body b
  functions None | {"pf":["fn",b]}
  includes None | list over {"i1.h","i2.h","#define HV 1","#define HV 2"}   (files of these names exist)
  headers  None | list over {"#define HV 1","#define HV 2","#define HW 1"}
  compiler None | g++ | clang++ | tool_g | tool_c | gcc | clang      (logging wrappers first in PATH)
  compiler_flags / compiler_linker_flags / compiler_shared_flags   None | "" | "F:a:b"
           F:a:b = "-O0 -fPIC -shared -I<cwd> -idirafter <env0> -include envsel.h -DFA=a -DFB=b"
  compiler_env_script  None | "env:1" | "env:2" (export CPATH=<env k>) | tool_g | tool_c
  compiler_language    None | "cpp" | "C"
  okl      None | {"enabled": bool, "include_paths": ["A"|"B", ...]}

The kernel is a configuration probe: it writes 14 ints, each a function of some of the properties (see expect()).
Oracle: the configurations of the chain are built+run one after the other, each in a fresh process, all sharing one
fresh cache directory; each run must print the values of *its own* configuration (never an earlier one's binary); a
run that is textually identical to an earlier one must resolve to the same entry (same kernel.hash(), same
binaryFilename(), same inode, no kernel compilation seen by the compiler wrappers).
"""
import copy
import json
import os
import shutil

import vlib
import v_hypproc as vp
from meta import m
from props import REGISTRY

FLAG_FIELDS = ["compiler_flags", "compiler_linker_flags", "compiler_shared_flags"]
FIELDS = ["srcid", "callpf", "defines", "functions", "includes", "headers", "compiler"] + FLAG_FIELDS + \
         ["compiler_env_script", "compiler_language", "okl"]
HASHED = ["defines", "functions", "includes", "headers", "compiler"] + FLAG_FIELDS + \
         ["compiler_env_script", "compiler_language", "okl"]
X1, X2, HW1 = "#define HV 1", "#define HV 2", "#define HW 1"
INC_FILES = {"i1.h": 1, "i2.h": 2, X1: 3, X2: 4}
BODIES = {1: "[=](int a) -> int { return a + 1; }",
          2: "[=](int a) -> int { return a + 2; }",
          3: "[=](int a) -> int { return a * 3 + 1; }"}
PF_AT_1 = {1: 2, 2: 3, 3: 4}
CXX = ("g++", "clang++", "tool_g", "tool_c")
CC = ("gcc", "clang")
NOUT = 14

PAIRS = [("compiler_flags", "compiler_linker_flags"), ("compiler_flags", "compiler_shared_flags"),
         ("compiler_linker_flags", "compiler_shared_flags"), ("compiler", "compiler_env_script"),
         ("includes", "headers"), ("defines", "functions")]
COMMON = {
    "flags": ["F:1:1", "F:1:2", "F:2:1", "F:2:2", "F:1:1", "F:2:2", None, ""],
    "exec": ["tool_g", "tool_c", None],
    "arr": [[X1], [X2], [], None],
    "obj": [{"pf": ["fn", 1]}, {"pf": ["fn", 2]}, None],
}


def pair_group(p):
    if p in FLAG_FIELDS:
        return "flags"
    if p in ("compiler", "compiler_env_script"):
        return "exec"
    if p in ("includes", "headers"):
        return "arr"
    return "obj"


ALPHABET = {
    "srcid": [1, 2, 3],
    "callpf": [False, True],
    "defines": [None, {}, {"DA": 1}, {"DA": 2}, {"DB": 1}, {"DA": 1, "DB": 2}, {"DA": 2, "DB": 1},
                {"pf": ["fn", 1]}, {"pf": ["fn", 2]}],
    "functions": [None, {"pf": ["fn", 1]}, {"pf": ["fn", 2]}, {"pf": ["fn", 3]}],
    "includes": [None, [], ["i1.h"], ["i2.h"], ["i1.h", "i2.h"], ["i2.h", "i1.h"], [X1], [X2], [X1, "i1.h"], ["i2.h", X2]],
    "headers": [None, [], [X1], [X2], [HW1], [X1, HW1], [HW1, X2]],
    "compiler": [None, "g++", "clang++", "tool_g", "tool_c", "gcc", "clang"],
    "compiler_flags": ["F:1:1", "F:1:2", "F:2:1", "F:2:2", "F:3:1", None],
    "compiler_linker_flags": [None, "", "F:1:1", "F:1:2", "F:2:1", "F:2:2"],
    "compiler_shared_flags": [None, None, "F:1:1", "F:1:2", "F:2:1", "F:2:2"],
    "compiler_env_script": [None, "env:1", "env:2", "tool_g", "tool_c"],
    "compiler_language": [None, "cpp", "C"],
    "okl": [None, {"enabled": True}, {"enabled": False}, {"include_paths": ["A"]}, {"include_paths": ["B"]},
            {"include_paths": ["A", "B"]}, {"include_paths": ["B", "A"]}, {"enabled": False, "include_paths": ["A"]},
            {"enabled": True, "include_paths": ["B"]}],
}


# --------------------------------------------------------------------------------------------------
# model
# --------------------------------------------------------------------------------------------------
def is_f(v):
    return isinstance(v, str) and v.startswith("F:")


def okl_on(c):
    o = c.get("okl") or {}
    return o.get("enabled", True) is not False


def lang_c(c):
    return (not okl_on(c)) and (c.get("compiler_language") or "").lower() == "c"


def macro_pf(c):
    d = c.get("defines") or {}
    return "pf" in d


def fn_pf(c):
    f = c.get("functions") or {}
    return "pf" in f


def repair(c):
    """Smallest adjustments that turn a drawn/mutated configuration into one OCCA and the compilers accept."""
    c = copy.deepcopy(c)
    comp = c.get("compiler")
    if lang_c(c):
        c["compiler"] = {"g++": "gcc", "tool_g": "gcc", "clang++": "clang", "tool_c": "clang"}.get(comp, comp)
    else:
        c["compiler"] = {"gcc": "g++", "clang": "clang++"}.get(comp, comp)
    if not any(is_f(c.get(f)) for f in FLAG_FIELDS):
        c["compiler_flags"] = "F:1:1"
    if macro_pf(c) and fn_pf(c):
        c["functions"] = None
    if c.get("callpf") and not macro_pf(c) and not fn_pf(c):
        c["callpf"] = False
    return c


def valid(c):
    if not any(is_f(c.get(f)) for f in FLAG_FIELDS):
        return False
    for f in FLAG_FIELDS:
        v = c.get(f)
        if not (v is None or v == "" or is_f(v)):
            return False
    comp = c.get("compiler")
    if comp is not None and comp not in (CC if lang_c(c) else CXX):
        return False
    env = c.get("compiler_env_script")
    if env not in (None, "env:1", "env:2", "tool_g", "tool_c"):
        return False
    inc = c.get("includes")
    if inc is not None and (any(x not in INC_FILES for x in inc) or len(set(inc)) != len(inc)):
        return False
    hd = c.get("headers")
    if hd is not None and (any(x not in (X1, X2, HW1) for x in hd) or sum(1 for x in hd if x in (X1, X2)) > 1
                           or len(set(hd)) != len(hd)):
        return False
    if macro_pf(c) and fn_pf(c):
        return False
    if c.get("callpf") and not macro_pf(c) and not fn_pf(c):
        return False
    d = c.get("defines") or {}
    for k, v in d.items():
        if k == "pf":
            if len(d) != 1 or not (isinstance(v, list) and v[0] == "fn"):
                return False
        elif k not in ("DA", "DB") or not isinstance(v, int):
            return False
    fn = c.get("functions") or {}
    for k, v in fn.items():
        if k != "pf" or not (isinstance(v, list) and v[0] == "fn"):
            return False
    return True


def d_tokens(v):
    if not is_f(v):
        return []
    _, a, b = v.split(":")
    return ["-DFA=" + a, "-DFB=" + b]


def expect(c):
    """The 14 ints the probe kernel must write for configuration c (computed from c alone)."""
    e = [0] * NOUT
    e[0] = c["srcid"]
    d = c.get("defines") or {}
    e[1] = d.get("DA", 0) if not macro_pf(c) else 0
    e[2] = d.get("DB", 0) if not macro_pf(c) else 0
    incv, mask = 0, 0
    for name in c.get("includes") or []:
        k = INC_FILES[name]
        incv = k
        mask |= 1 << (k - 1)
    e[3], e[4] = incv, mask
    hv = hw = 0
    for line in c.get("headers") or []:
        if line == X1:
            hv = 1
        elif line == X2:
            hv = 2
        elif line == HW1:
            hw = 1
    e[5] = hv * 10 + hw
    if macro_pf(c):
        e[6] = 100
    elif c.get("callpf"):
        e[6] = PF_AT_1[c["functions"]["pf"][1]]
    else:
        e[6] = 0
    # command line: <compiler_flags> (+ std flag) + shared-flag tokens not yet present ... source -o out ... <linker flags>
    # (sys::addCompilerFlags appends only tokens that are not in the list yet); the last -D of a name wins
    toks = d_tokens(c.get("compiler_flags"))
    for t in d_tokens(c.get("compiler_shared_flags")):
        if t not in toks:
            toks.append(t)
    toks += d_tokens(c.get("compiler_linker_flags"))
    fa = fb = None
    for t in toks:
        if t.startswith("-DFA="):
            fa = int(t[5:])
        else:
            fb = int(t[5:])
    e[7], e[8] = fa, fb
    env = c.get("compiler_env_script")
    e[9] = {"env:1": 1, "env:2": 2}.get(env, 0)
    comp = c.get("compiler") or ("gcc" if lang_c(c) else "g++")
    e[10] = 1 if vp.WRAPPED[comp].startswith("clang") else 0
    e[11] = 1 if okl_on(c) else 0
    e[12] = 0 if lang_c(c) else 1
    selv = 0
    if okl_on(c):
        for p in (c.get("okl") or {}).get("include_paths", []):
            selv = {"A": 1, "B": 2}[p]
            break
    e[13] = selv
    return e


SLOTS = ["source id", "define DA", "define DB", "last include", "include set", "header lines", "pf", "flag macro FA",
         "flag macro FB", "env script header", "compiler is clang", "OKL translation", "C++", "okl include path header"]


def source_text(c):
    body = ["out[0] = %d;" % c["srcid"], "out[1] = DA;", "out[2] = DB;", "out[3] = INCV;",
            "out[4] = M1 + 2 * M2 + 4 * M3 + 8 * M4;", "out[5] = HV * 10 + HW;", "out[6] = PFV;", "out[7] = FA;",
            "out[8] = FB;", "out[9] = ENVV;",
            "out[10] = (__VERSION__[0] >= '0' && __VERSION__[0] <= '9') ? 0 : 1;"]
    pre = ['/* configuration probe %d */' % c["srcid"], '#include "sel.h"']
    for mname in ("DA", "DB", "INCV", "HV", "HW"):
        pre += ["#ifndef " + mname, "#define %s 0" % mname, "#endif"]
    for i in (1, 2, 3, 4):
        pre += ["#ifdef I%d" % i, "#define M%d 1" % i, "#else", "#define M%d 0" % i, "#endif"]
    pre += ["#ifdef pf", "#define PFV 100", "#else", "#define PFV %s" % ("pf(1)" if c.get("callpf") else "0"), "#endif"]
    okl = ["#ifdef __OKL__", "@kernel void probe(int *out) {", "  for (int o = 0; o < 1; ++o; @outer) {",
           "    for (int i = 0; i < 1; ++i; @inner) {"]
    okl += ["      " + l for l in body + ["out[11] = 1;", "out[12] = 1;", "out[13] = SELV;"]]
    okl += ["    }", "  }", "}", "#else", "#ifdef __cplusplus", "#define CPPV 1", 'extern "C"', "#else", "#define CPPV 0",
            "#endif", "void probe(int *out) {"]
    okl += ["  " + l for l in body + ["out[11] = 0;", "out[12] = CPPV;", "out[13] = SELV;"]]
    okl += ["}", "#endif", ""]
    return "\n".join(pre + okl)


def materialize(D):
    """The files every configuration of one example refers to (the 'environment', identical for A and B)."""
    cwd = os.path.join(D, "cwd")
    for sub in ("cwd", "incA", "incB", "env0", "env1", "env2", "src", "cache"):
        os.makedirs(os.path.join(D, sub), exist_ok=True)
    for name, k in INC_FILES.items():
        with open(os.path.join(cwd, name), "w") as f:
            f.write("#define I%d 1\n#undef INCV\n#define INCV %d\n" % (k, k))
    for sub, v in (("cwd", 0), ("incA", 1), ("incB", 2)):
        with open(os.path.join(D, sub, "sel.h"), "w") as f:
            f.write("#define SELV %d\n" % v)
    for k in (0, 1, 2):
        with open(os.path.join(D, "env%d" % k, "envsel.h"), "w") as f:
            f.write("#define ENVV %d\n" % k)
    return cwd


def flag_string(D, v):
    if not is_f(v):
        return v
    _, a, b = v.split(":")
    return "-O0 -fPIC -shared -I%s -idirafter %s -include envsel.h -DFA=%s -DFB=%s" % (
        os.path.join(D, "cwd"), os.path.join(D, "env0"), a, b)


def request(c, D):
    props = {}
    req = {"mode": c["mode"], "kernel": "probe", "nout": NOUT}
    sp = os.path.join(D, "src", "k%d%s.%s" % (c["srcid"], "p" if c.get("callpf") else "n",
                                               "okl" if c["kind"] == "file" else "txt"))
    with open(sp, "w") as f:
        f.write(source_text(c))
    req["file" if c["kind"] == "file" else "source_file"] = sp
    d = c.get("defines")
    if d is not None:
        if macro_pf(c):
            b = d["pf"][1]
            req.setdefault("functions", {})["reg%d" % b] = {"source": BODIES[b], "register_only": True}
            req["defines_ref"] = {"pf": "reg%d" % b}
        else:
            props["defines"] = d
    fn = c.get("functions")
    if fn is not None:
        for k, v in fn.items():
            req.setdefault("functions", {})[k] = {"source": BODIES[v[1]]}
    for f in ("includes", "headers", "compiler", "compiler_language"):
        if c.get(f) is not None:
            props[f] = c[f]
    for f in FLAG_FIELDS:
        if c.get(f) is not None:
            props[f] = flag_string(D, c[f])
    env = c.get("compiler_env_script")
    if env is not None:
        props["compiler_env_script"] = ("export CPATH=" + os.path.join(D, "env" + env[4:])) if env.startswith("env:") else env
    o = c.get("okl")
    if o is not None:
        oo = {}
        if "enabled" in o:
            oo["enabled"] = o["enabled"]
        if "include_paths" in o:
            oo["include_paths"] = [os.path.join(D, "inc" + p) for p in o["include_paths"]]
        props["okl"] = oo
    # route: the same effective configuration can reach the build through the call's properties (top), through the call's
    # per-mode override section modes/<Mode>/..., or through the device's kernel properties
    route = c.get("route", "top")
    if route != "top":
        moved = {}
        for f in ("includes", "headers", "compiler", "compiler_language", "compiler_env_script", "okl") + tuple(FLAG_FIELDS):
            if f in props:
                moved[f] = props.pop(f)
        if moved:
            if route == "mode":
                props["modes"] = {c["mode"]: moved}
            else:
                req["device"] = {"kernel": moved}
    req["props"] = props
    return req


# --------------------------------------------------------------------------------------------------
# classification
# --------------------------------------------------------------------------------------------------
def jv(v):
    return json.dumps(v, sort_keys=True)


def configs_of(item):
    """item = {"configs": [c0, c1, ...], "muts": [...]}; the older pair form {"A","B"} means [A, B, A]."""
    if "configs" in item:
        return item["configs"]
    return [item["A"], item["B"], item["A"]]


def differing(A, B):
    return [f for f in FIELDS + ["kind"] if A.get(f) != B.get(f)]


def pair_nontrivial(A, B):
    """-> set of reasons why the pair (A, B) is a collision candidate for a key that combines value hashes"""
    why = set()
    hdiff = [f for f in differing(A, B) if f in HASHED]
    if not hdiff:
        return why
    if sorted(jv(A.get(f)) for f in HASHED) == sorted(jv(B.get(f)) for f in HASHED):
        why.add("nt:same-multiset-of-values")
    for c in (A, B):
        for f in hdiff:
            if c.get(f) is not None and any(g != f and c.get(g) is not None and jv(c.get(g)) == jv(c.get(f)) for g in HASHED):
                why.add("nt:equal-values-across-properties")
    return why


def classify(item):
    cfgs = configs_of(item)
    classes = ["mode:" + cfgs[0]["mode"], "configs:%d" % len(cfgs)]
    classes += ["mut:" + x for x in item.get("muts", [item.get("mut", "?")])]
    nt = False
    seen_pairs = set()
    for j in range(len(cfgs)):
        classes.append("cfg:" + ("okl" if okl_on(cfgs[j]) else ("rawC" if lang_c(cfgs[j]) else "raw")) + ":" + cfgs[j]["kind"])
        for i in range(j):
            A, B = cfgs[i], cfgs[j]
            key = (jv(A), jv(B))
            if key in seen_pairs:
                continue
            seen_pairs.add(key)
            diff = differing(A, B)
            if not diff:
                classes.append("pair:identical")
                continue
            classes.append("pair:different")
            why = pair_nontrivial(A, B)
            if why:
                nt = True
                classes += ["pair:" + w for w in sorted(why)]
            if expect(A) == expect(B):
                classes.append("pair:different-text-same-effect")
            if j == i + 1:
                if len(diff) == 1:
                    classes.append("step-changes-only:" + diff[0])
    return classes, nt


def text(item):
    return json.dumps(item, sort_keys=True)


# --------------------------------------------------------------------------------------------------
# evaluation: every configuration of the chain in its own fresh process, one fresh cache directory
# --------------------------------------------------------------------------------------------------
def describe_mismatch(c, got):
    e = expect(c)
    return "; ".join("%s (out[%d]): expected %s, kernel wrote %s" % (SLOTS[i], i, e[i], got[i])
                     for i in range(NOUT) if e[i] != got[i])


def evaluate(ctx, item):
    cfgs = configs_of(item)
    if not cfgs or not all(valid(c) for c in cfgs) or any(c["mode"] != cfgs[0]["mode"] for c in cfgs):
        return {"status": "fail", "what": "harness: item is not a valid chain of configurations on one device", "builds": 0}
    ctx.case_no = getattr(ctx, "case_no", 0) + 1
    D = os.path.join(ctx.root, "c%d" % ctx.case_no)
    shutil.rmtree(D, ignore_errors=True)
    cwd = materialize(D)
    cache = os.path.join(D, "cache")
    runs = []
    builds = 0
    try:
        for idx, c in enumerate(cfgs):
            b = ctx.runner.build(request(c, D), cache, cwd)
            builds += 1
            runs.append(b)
            who = "run %d" % (idx + 1)
            if not b.ok:
                return {"status": "fail", "builds": builds, "what": "%s: build+run failed: %s  [configuration %s]"
                                                                    % (who, b.brief(), jv(c))}
            got = b.res["out"]
            if got != expect(c):
                # diagnosis only: what does the same configuration print with an empty cache?
                fresh = ctx.runner.build(request(c, D), os.path.join(D, "cache_fresh%d" % idx), cwd)
                builds += 1
                fr = fresh.res["out"] if fresh.ok else fresh.brief()
                shared = ""
                culprit = None
                for j, pb in enumerate(runs[:-1]):
                    if pb.res["binary"] == b.res["binary"] and not b.compiles:
                        culprit = [j, idx]
                        shared = (" -- it loaded the binary built by run %d (%s) without compiling; the two configurations differ in %s"
                                  % (j + 1, b.res["binary"].split("/")[-2],
                                     ", ".join("%s: %s -> %s" % (f, jv(cfgs[j].get(f)), jv(c.get(f))) for f in differing(cfgs[j], c))))
                        break
                return {"status": "fail", "builds": builds, "culprit": culprit,
                        "what": "%s ran code that does not belong to its configuration: %s%s [the same configuration with an "
                                "empty cache writes %s]" % (who, describe_mismatch(c, got), shared, fr)}
            if idx == 0 and not b.compiles:
                return {"status": "fail", "builds": builds,
                        "what": "harness: first build in an empty cache was not seen by the compiler wrappers: %s" % b.cc_all}
            same = [j for j in range(idx) if cfgs[j] == c]
            if same:
                j = same[0]
                r = runs[j]
                probs = []
                if b.res["hash"] != r.res["hash"]:
                    probs.append("kernel.hash() %s != %s" % (b.res["hash"][:16], r.res["hash"][:16]))
                if b.res["binary"] != r.res["binary"]:
                    probs.append("binaryFilename() %s != %s" % (b.res["binary"], r.res["binary"]))
                if b.compiles:
                    probs.append("the compiler was invoked again: %s" % b.compiles[0][:300])
                between = any(runs[k].compiles and runs[k].res["binary"] == b.res["binary"] for k in range(j + 1, idx))
                if b.res["binary"] == r.res["binary"] and b.inode != r.inode and not between:
                    probs.append("the binary file was replaced (inode/mtime/size %s -> %s)" % (r.inode, b.inode))
                if probs:
                    return {"status": "fail", "builds": builds, "culprit": [j, idx],
                            "what": "%s is textually identical to run %d but did not resolve to the same cache entry: %s "
                                    "[configuration %s]" % (who, j + 1, "; ".join(probs), jv(c))}
        return {"status": "ok", "what": "", "builds": builds}
    finally:
        shutil.rmtree(D, ignore_errors=True)


# --------------------------------------------------------------------------------------------------
# generator
# --------------------------------------------------------------------------------------------------
PAIR_MUTS = ["swap", "swap", "equal", "common", "common", "move"]
# Single-property changes are *swept*, not sampled: a chain changes every field of one group, one after the other (the
# field choice of a sampled "change one" turned out to be very uneven over a 100-example Hypothesis run, so a mutant that
# drops one property from the key could be missed).  Every hashed property, the source text and the build kind are in a group.
GROUPS = [["compiler_flags", "compiler_linker_flags", "compiler_shared_flags", "srcid", "okl"],
          ["defines", "functions", "includes", "headers", "callpf"],
          ["compiler", "compiler_env_script", "compiler_language", "okl", "kind"]]


def strategy(max_pair_muts=2):
    from hypothesis import assume
    from hypothesis import strategies as st

    @st.composite
    def chains(draw):
        c0 = {"mode": draw(st.sampled_from(["Serial", "OpenMP"])), "kind": draw(st.sampled_from(["file", "string"])),
              "route": draw(st.sampled_from(["top", "top", "mode", "device"]))}
        for f in FIELDS:
            c0[f] = copy.deepcopy(draw(st.sampled_from(ALPHABET[f])))
        cfgs, muts = [repair(c0)], []
        # 1. sweep: change each field of one group in turn
        g = draw(st.integers(0, len(GROUPS) - 1))
        for f in GROUPS[g]:
            cur = cfgs[-1]
            alts = [x for x in (ALPHABET[f] if f != "kind" else ["file", "string"]) if x != cur.get(f)]
            # mostly pick a value that changes what the kernel must write (an unobservable change proves nothing)
            if draw(st.integers(0, 4)) > 0:
                eff = []
                for x in alts:
                    t = copy.deepcopy(cur)
                    t[f] = copy.deepcopy(x)
                    t = repair(t)
                    if valid(t) and expect(t) != expect(cur):
                        eff.append(x)
                alts = eff or alts
            B = copy.deepcopy(cur)
            B[f] = copy.deepcopy(draw(st.sampled_from(alts)))
            B = repair(B)
            if B != cur:
                cfgs.append(B)
                muts.append("change:" + f)
        # 2. collision-seeking pair mutations
        for _ in range(draw(st.integers(1, max_pair_muts))):
            cur = cfgs[-1]
            mut = draw(st.sampled_from(PAIR_MUTS))
            p, q = draw(st.sampled_from(PAIRS))
            if draw(st.booleans()):
                p, q = q, p
            com = COMMON[pair_group(p)]
            v1 = copy.deepcopy(draw(st.sampled_from(com)))
            v2 = copy.deepcopy(draw(st.sampled_from([x for x in com if x != v1] if mut in ("swap", "common") else com)))
            prep = copy.deepcopy(cur)
            if mut in ("swap", "equal"):
                prep[p], prep[q] = v1, v2
            elif mut == "common":
                prep[p], prep[q] = v1, copy.deepcopy(v1)
            else:
                prep[p], prep[q] = v1, None
            prep = repair(prep)
            B = copy.deepcopy(prep)
            if mut == "swap":
                B[p], B[q] = prep[q], prep[p]
            elif mut == "equal":
                B[q] = copy.deepcopy(prep[p])
            elif mut == "common":
                B[p], B[q] = v2, copy.deepcopy(v2)
            else:
                B[p], B[q] = None, copy.deepcopy(prep[p])
            B = repair(B)
            if prep != cur:
                cfgs.append(prep)
                muts.append("prepare:" + mut)
            cfgs.append(B)          # B == prep is an identity step (textually identical rebuild)
            muts.append(mut if B != prep else "identity")
        # 3. the first configuration again: it must still resolve to its own entry
        cfgs.append(copy.deepcopy(cfgs[0]))
        muts.append("first-again")
        assume(all(valid(c) for c in cfgs))
        return {"configs": cfgs, "muts": muts}

    return chains()


class Spec:
    text = staticmethod(text)

    def shard(self, ctx):
        from hypothesis import given, seed
        stats = vp.ShardStats()
        last = {}
        cache = {}
        budget = [vp.SHRINK_BUDGET]

        @seed(ctx.seed)
        @vp.hyp_settings(ctx.n)
        @given(strategy())
        def test(item):
            # after the first failure at most vp.SHRINK_BUDGET further candidates are really built (count-based, so
            # the verdict never depends on time); later unseen candidates count as passing, which ends the shrinking
            k = text(item)
            if k in cache:
                v = cache[k]
            elif stats.frozen and budget[0] <= 0:
                v = {"status": "ok", "what": "", "builds": 0}
            else:
                if stats.frozen:
                    budget[0] -= 1
                v = cache[k] = evaluate(ctx, item)
            classes, nt = classify(item)
            stats.record(text(item), classes, nt, v.get("builds", 0))
            if v["status"] != "ok":
                stats.frozen = True
                last["item"], last["v"] = item, v
                raise AssertionError(v["what"])

        try:
            test()
        except AssertionError:
            pass
        if "item" in last:
            item, v = last["item"], last["v"]
            # the sweep part of a chain is structural, Hypothesis cannot drop it: reduce to the two runs involved
            if v.get("culprit"):
                cf = configs_of(item)
                i, j = v["culprit"]
                small = {"configs": [cf[i], cf[j]], "muts": ["minimised-from-chain"]}
                v2 = evaluate(ctx, small)
                if v2["status"] == "fail":
                    item, v = small, v2
            stats.res["violation"] = {"item": item, "what": v["what"], "text": text(item)}
        return stats.res

    def replay(self, ctx, item):
        return evaluate(ctx, item)


RULE = ("case = chain c0, c1, ..., cn, c0 (n <= 13) of build configurations on one device (Serial or OpenMP; file- or string-built probe "
        "kernel): first every property of one of three groups (together: all hashed properties, the source text, the build kind) "
        "is changed in turn, mostly to a value that changes the expected output; then 1-2 collision-seeking mutations: swap two "
        "same-typed properties / make two equal / set two to a new common value / move a value (each preceded by a step that sets "
        "the two properties to values valid in both roles); finally c0 again. Every configuration is built and run in its own "
        "fresh process, all sharing one fresh cache directory, so every ordered pair of the chain is a pair (A, B) of the property. "
        "Non-trivial pair = differs in a hashed property and (the multiset of property values is the same, or a differing property "
        "holds the same non-null value as another property in one of the two). distinct_nontrivial = distinct serialised chains "
        "containing at least one non-trivial pair.")
ASSUME = ["process environment fixed and constructed by the harness (no OCCA_*/CXX/CFLAGS/CPATH variables)",
          "gcc/clang semantics used by the probe: a later -D on the command line overrides an earlier one; CPATH directories are "
          "searched before -idirafter directories; a C driver (gcc/clang) compiles a .c file as C",
          "compiler_language = C is only combined with the C drivers (clang++ rejects the -std=c99 OCCA adds)",
          "a functions entry is the hash of a function definition registered in the building process (what OCCA_FUNCTION does)"]


def run(prop, tier, replay, t0):
    return vp.run_check(Spec(), prop, tier, replay, t0, quick=48, thorough=1500, level="exploration", rule=RULE,
                        assumptions=ASSUME)


REGISTRY["C06"] = run

m("C06", "exploration",
  "Property-based search over pairs of kernel build configurations: Hypothesis generates a configuration A over "
  "{source text, defines, includes, headers, functions, compiler, compiler_flags, compiler_linker_flags, compiler_shared_flags, "
  "compiler_env_script, compiler_language, okl settings} on Serial and OpenMP and derives B by collision-seeking mutations "
  "(swap two same-typed properties, make two equal, set two to a new common value, move a value, change one, identity). The kernel is a "
  "configuration probe whose 14 output ints are a function of every property; A, B, A are JIT-built and run in three fresh processes "
  "sharing one fresh cache directory and each must print the values computed from its own configuration; textually identical builds "
  "must resolve to the same entry (hash, binary path, inode, no compiler invocation seen by logging compiler wrappers). "
  "Sampled search with shrinking, not a proof; it found the XOR-combined key (swapped / equal values collide) and the "
  "missing okl settings within the first examples.",
  "Trusted: g++/clang++ (gcc/clang) and their -D / CPATH / -idirafter semantics, the 60-line expected-value model, Hypothesis. "
  "Environment constructed by the harness and identical for every process.",
  "property-based testing (Hypothesis) with collision-seeking pair mutations, model-based expected outputs, multi-process cache reuse observation",
  "hypothesis", "DESIGN.md §4 C06")
