"""OKL translation-validation pipeline: translate generated kernels with every back end (worker w_okl), assemble
test translation units (reference loops + translated code + emulation shims), compile with the host compiler, run,
and parse per-case results.  Used by C17-C22."""
import json
import os
import re
import subprocess
import threading

from hypothesis import given, seed, settings, strategies as st, HealthCheck, Phase
from concurrent.futures import ThreadPoolExecutor

import vlib

MODES = ["serial", "openmp", "cuda", "hip", "opencl", "metal", "dpcpp"]
EMU = os.path.join(vlib.VERIF, "emu")


def hx(s):
    return s.encode().hex() if s else "-"


def unhx(h):
    return "" if h == "-" else bytes.fromhex(h).decode(errors="replace")


class Worker:
    """one w_okl process; restarts after a crash and reports which request crashed it"""

    def __init__(self, binary, wd, tag):
        self.binary, self.wd, self.tag = binary, wd, tag
        self.cur = os.path.join(wd, "w_okl_%s.cur" % tag)
        self.p = None

    def start(self):
        env = vlib.base_env(self.wd, "w" + str(self.tag))
        env["W_OKL_CUR"] = self.cur
        env["ASAN_OPTIONS"] = env["ASAN_OPTIONS"].replace("detect_leaks=1", "detect_leaks=0")
        self.errlog = open(os.path.join(self.wd, "w_okl_%s.err" % self.tag), "ab")
        self.p = subprocess.Popen([self.binary], stdin=subprocess.PIPE, stdout=subprocess.PIPE, stderr=self.errlog,
                                  env=env, text=True, bufsize=1)

    def translate(self, rid, mode, src, props=""):
        """-> dict(ok, device, launcher, diag) or dict(crash=signature)"""
        if self.p is None or self.p.poll() is not None:
            self.start()
        try:
            self.p.stdin.write("%s %s %s %s\n" % (rid, mode, hx(src), hx(props)))
            self.p.stdin.flush()
            line = self.p.stdout.readline()
        except (BrokenPipeError, OSError):
            line = ""
        if not line:
            self.p.wait()
            self.errlog.flush()
            err = open(self.errlog.name, errors="replace").read()[-8000:]
            sig = vlib.crash_signature(err)
            open(self.errlog.name, "w").close()
            self.p = None
            return {"crash": "translator crashed (exit %s): %s" % (self.p.returncode if self.p else "?", sig)}
        f = line.split()
        return {"ok": f[1] == "1", "device": unhx(f[2]), "launcher": unhx(f[3]), "diag": unhx(f[4])}

    def close(self):
        if self.p and self.p.poll() is None:
            try:
                self.p.stdin.close()
                self.p.wait(timeout=10)
            except Exception:
                self.p.kill()


class Translator:
    def __init__(self, wd, nworkers=8):
        vlib.ensure_build("asan")
        self.binary = vlib.build_harness("w_okl", kind="plain")
        self.workers = [Worker(self.binary, wd, i) for i in range(nworkers)]
        self.locks = [threading.Lock() for _ in self.workers]

    def translate_many(self, reqs):
        """reqs: list of (rid, mode, src, props) -> dict rid,mode -> result"""
        out = {}
        chunks = [reqs[i::len(self.workers)] for i in range(len(self.workers))]

        def run(i):
            res = []
            with self.locks[i]:
                for rid, mode, src, props in chunks[i]:
                    res.append(((rid, mode), self.workers[i].translate(rid, mode, src, props)))
            return res
        with ThreadPoolExecutor(max_workers=len(self.workers)) as ex:
            for res in ex.map(run, range(len(self.workers))):
                out.update(dict(res))
        return out

    def close(self):
        for w in self.workers:
            w.close()


# ------------------------------------------------------------------------------------------------
# translation-unit assembly
# ------------------------------------------------------------------------------------------------
class Kernel:
    """A generated kernel: name, params [(ctype, name, is_ptr)], OKL source, reference C++ function body text
    `ref` (a function `static void ref_<name>(<params>)`), and `calls`: list of argument tuples (C++ expression
    strings per parameter; pointer params name a buffer declared in `setup`)."""

    def __init__(self, name, params, okl, ref, calls, setup="", compare="", teardown="", meta=None):
        self.name, self.params, self.okl, self.ref, self.calls = name, params, okl, ref, calls
        self.setup, self.compare, self.teardown = setup, compare, teardown
        self.meta = meta or {}


def _sig(params, by_ref_scalars):
    out = []
    for ct, nm, isptr in params:
        if isptr:
            out.append("%s * %s" % (ct, nm))
        else:
            out.append(("const %s & %s" if by_ref_scalars else "const %s %s") % (ct.replace("const ", ""), nm))
    return ", ".join(out)


def device_kernel_indices(name, device_src):
    return sorted(set(int(x) for x in re.findall(r"\b_occa_%s_(\d+)\b" % re.escape(name), device_src)))


def trampolines(k, mode, device_src):
    """C++ text: trampolines from emu::Args to the translated device entry points + the deviceKernels table."""
    idxs = device_kernel_indices(k.name, device_src)
    t = []
    for j in idxs:
        fn = "_occa_%s_%d" % (k.name, j)
        args = []
        for i, (ct, nm, isptr) in enumerate(k.params):
            base = ct.replace("const ", "").strip()
            if isptr:
                args.append("(%s *) a.mem(%d)" % (ct, i))
            elif mode in ("metal", "dpcpp"):
                args.append("a.ref<%s>(%d)" % (base, i))
            else:
                args.append("a.get<%s>(%d)" % (base, i))
        if mode == "metal":
            args.append("metal::uint3{(unsigned) emu::st().blockIdx.x, (unsigned) emu::st().blockIdx.y, (unsigned) emu::st().blockIdx.z}")
            args.append("metal::uint3{(unsigned) emu::st().threadIdx.x, (unsigned) emu::st().threadIdx.y, (unsigned) emu::st().threadIdx.z}")
            t.append("static void tramp_%s(emu::Args &a) { %s(%s); }" % (fn, fn, ", ".join(args)))
            t.append("static occa::modeKernel_t mk_%s = { tramp_%s, NULL };" % (fn, fn))
        elif mode == "dpcpp":
            t.append("static void tramp_%s(emu::Args &a, occa::dim outer, occa::dim inner) {\n"
                     "  sycl::queue q;\n"
                     "  sycl::range<3> local(inner.z, inner.y, inner.x);\n"
                     "  sycl::range<3> global(outer.z * inner.z, outer.y * inner.y, outer.x * inner.x);\n"
                     "  sycl::nd_range<3> r(global, local);\n"
                     "  %s(&q, &r%s);\n}" % (fn, fn, "".join(", " + x for x in args)))
            t.append("static occa::modeKernel_t mk_%s = { NULL, tramp_%s };" % (fn, fn))
        else:
            t.append("static void tramp_%s(emu::Args &a) { %s(%s); }" % (fn, fn, ", ".join(args)))
            t.append("static occa::modeKernel_t mk_%s = { tramp_%s, NULL };" % (fn, fn))
    n = (max(idxs) + 1) if idxs else 1
    tbl = ", ".join(("&mk__occa_%s_%d" % (k.name, j)) if j in idxs else "NULL" for j in range(n))
    t.append("static occa::modeKernel_t *dk_%s[] = { %s };" % (k.name, tbl))
    return "\n".join(t)


DEV_INC = {
    "cuda": '#include "cuda.hpp"', "hip": '#include "cuda.hpp"', "opencl": '#include "opencl.hpp"',
    "metal": '#include "metal.hpp"', "dpcpp": '#include <CL/sycl.hpp>', "serial": "", "openmp": "",
}


def assemble(mode, items):
    """items: list of (Kernel, translation result).  Returns C++ source of the test TU."""
    tu = ['#include "rt.hpp"', '#include "emu.hpp"', "#include <cmath>", "#include <cstdint>", "#include <cstddef>"]
    if mode in ("serial", "openmp"):
        tu.append("#define RT_MM(name)")
    else:
        tu.append("#define RT_MM(name) occa::modeMemory_t MM_##name = { (void*) T_##name };")
    tu.append(DEV_INC[mode])
    # ---- reference functions first (plain C++, before any keyword macro is active? they are; keep them simple)
    dev, lau, tr, drv = [], [], [], []
    for k, res in items:
        dev.append("// ---- %s : device code (%s)\n%s" % (k.name, mode, res["device"]))
    tu.append("\n".join(dev))
    if mode == "metal":
        tu.append('#include "metal_end.hpp"')
    if mode not in ("serial", "openmp"):
        tu.append("#include <occa/core/kernel.hpp>")
        for k, res in items:
            # the launcher source repeats the kernel file's helper functions: keep it in its own namespace
            lau.append("// ---- %s : launcher\nnamespace L_%s {\n%s\n}" % (k.name, k.name, res["launcher"]))
            tr.append(trampolines(k, mode, res["device"]))
        tu.append("\n".join(tr))
        tu.append("\n".join(lau))
    for k, res in items:
        tu.append("// ---- %s : reference\n%s" % (k.name, k.ref))
        body = ["static void run_%s() {" % k.name, '  rt::currentCase() = "%s";' % k.name]
        for ti, call in enumerate(k.calls):
            body.append("  { rt::currentTuple() = %d;" % ti)
            body.append(k.setup)
            cargs = ", ".join(call)
            body.append("    rt::rec().clear(); rt::visits() = 0; emu::lastError().clear();")
            body.append("    ref_%s(%s);" % (k.name, ", ".join(c.replace("@", "R_") for c in call)))
            body.append("    std::map<rt::Tup, long> R = rt::rec(); rt::rec().clear(); rt::visits() = 0;")
            if mode in ("serial", "openmp"):
                body.append("    %s(%s);" % (k.name, ", ".join(c.replace("@", "T_") for c in call)))
            else:
                margs = []
                for (ct, nm, isptr), c in zip(k.params, call):
                    margs.append(("&MM_" + c[1:]) if isptr else c)
                body.append("    L_%s::%s(dk_%s%s);" % (k.name, k.name, k.name, "".join(", " + m for m in margs)))
            body.append("    std::string err = emu::lastError();")
            body.append(k.compare)
            body.append('    rt::report("%s", %d, R, rt::rec(), err, false);' % (k.name, ti))
            body.append(k.teardown)
            body.append("  }")
        body.append("}")
        drv.append("\n".join(body))
    tu.append("\n".join(drv))
    tu.append("int main(int argc, char **argv) {\n  rt::installHandlers();\n  std::vector<std::string> only(argv + 1, argv + argc);\n"
              "  auto want = [&](const char *n) { if (only.empty()) return true; for (auto &o : only) if (o == n) return true; return false; };")
    for k, res in items:
        tu.append('  if (want("%s")) run_%s();' % (k.name, k.name))
    tu.append('  printf("DONE\\n");\n  return 0;\n}')
    return "\n".join(tu)


def compile_tu(src_text, path_base, mode, sanitize=False, build="default"):
    cpp = path_base + ".cpp"
    exe = path_base + ".exe"
    open(cpp, "w").write(src_text)
    if build == "tsan":
        # clang + libomp + Archer: ThreadSanitizer understands the OpenMP runtime's synchronisation (no false positives)
        cmd = ["clang++", "-std=gnu++17", "-O1", "-g", "-w", "-fsanitize=thread", "-I" + EMU, cpp, "-o", exe, "-lpthread"]
        sanitize = False
    else:
        cmd = ["g++", "-std=gnu++17", "-O0", "-w", "-fpermissive", "-I" + EMU, cpp, "-o", exe, "-lpthread"]
    if mode == "openmp":
        cmd.insert(1, "-fopenmp")
    if sanitize:
        cmd[1:1] = ["-fsanitize=bounds", "-fno-sanitize-recover=bounds"]
    r = vlib.sh(cmd)
    return (exe if r.returncode == 0 else None), r.stdout


def run_exe(exe, names, ntuples, timeout=180, env=None):
    """names in TU order; ntuples[name] = number of RESULT lines a finished case prints.
    -> dict name -> list of (tuple, ok, text).  A case during which the process died or hung gets a failing entry;
    the cases after it are run again in a fresh process."""
    results = {}
    pending = list(names)
    while pending:
        try:
            p = subprocess.run([exe] + pending, stdout=subprocess.PIPE, stderr=subprocess.STDOUT, text=True, errors="replace",
                               timeout=timeout, env=env)
            out, hang, rc = p.stdout, False, p.returncode
        except subprocess.TimeoutExpired as e:
            out = e.stdout or ""
            if isinstance(out, bytes):
                out = out.decode(errors="replace")
            hang, rc = True, None
        race = None
        for line in out.splitlines():
            if "WARNING: ThreadSanitizer" in line and race is None:
                race = line.strip()
            elif race and race.count("|") < 3 and re.match(r"\s+#[01] ", line):
                race += " | " + line.strip()[:120]
            m = re.match(r"RESULT (\S+) (-?\d+) (OK|FAIL)(.*)", line)
            if m and m.group(1) in pending:
                ok = m.group(3) == "OK"
                txt = m.group(4).strip()
                if race:
                    ok, txt, race = False, "race detected in the translated code: " + race[:300] + " ;; " + txt, None
                results.setdefault(m.group(1), []).append((int(m.group(2)), ok, txt))
        if not hang and "DONE" in out:
            break
        culprit = None
        for nme in pending:
            if len(results.get(nme, [])) < ntuples[nme] or any(("signal=" in t or "overrun" in t) for _, _, t in results.get(nme, [])):
                culprit = nme
                break
        if culprit is None:
            break
        if not any(not ok for _, ok, _ in results.get(culprit, [])):
            results.setdefault(culprit, []).append(
                (-1, False, ("hang: no result within %ds" % timeout) if hang else
                 "process exited abnormally (rc=%s) before reporting: %s" % (rc, out[-300:].replace("\n", " | "))))
        pending = pending[pending.index(culprit) + 1:]
    return results


class Spec:
    """what a translation-validation property provides to run_tv"""
    modes = MODES
    level = "translation_validation"
    quick, thorough = (5, 24), (200, 40)
    rule, assume = "", []

    def program(self, rnd): raise NotImplementedError
    def render(self, desc, name): raise NotImplementedError
    def valid(self, desc): return True
    def nontrivial(self, desc): return True
    def simplify(self, desc): return []
    def classes(self, desc): return []
    def known_class(self, desc, known_ids): return None        # generator-level exclusion (syntactic class)
    def known_filter(self, k, mode, txt, known_ids): return None  # result-level exclusion


# ------------------------------------------------------------------------------------------------
def run_batch(tr, wd, kernels, tag, modes=MODES, known_filter=None, excl=None, spec=None):
    if spec is not None and hasattr(spec, "custom_batch"):
        return spec.custom_batch(tr, wd, kernels, tag, modes, known_filter, excl if excl is not None else {})
    return _run_batch(tr, wd, kernels, tag, modes, known_filter, excl, spec)


def _run_batch(tr, wd, kernels, tag, modes=MODES, known_filter=None, excl=None, spec=None):
    """translate + build + run a list of Kernel objects for all modes.  Returns list of failure dicts."""
    excl = excl if excl is not None else {}
    reqs = [(k.name, mode, k.okl, "") for k in kernels for mode in modes]
    res = tr.translate_many(reqs)
    failures = []
    info = {"translated": 0, "rejected": 0}

    def one_mode(mode):
        fails = []
        items = []
        for k in kernels:
            r = res[(k.name, mode)]
            if "crash" in r:
                fails.append({"kernel": k.name, "mode": mode, "what": r["crash"]})
            elif not r["ok"]:
                fails.append({"kernel": k.name, "mode": mode, "what": "translator rejected a valid kernel: " + re.sub(r"\x1b\[[0-9;]*m", "", r["diag"])[-300:].replace("\n", " | ")})
            else:
                items.append((k, r))
                txt = spec.static_check(k, mode, r) if (spec is not None and hasattr(spec, "static_check")) else None
                if txt:
                    kid = known_filter(k, mode, txt) if known_filter else None
                    if kid:
                        excl[kid] = excl.get(kid, 0) + 1
                    else:
                        fails.append({"kernel": k.name, "mode": mode, "what": txt})
        if not items:
            return fails
        sanitize = bool(spec is not None and getattr(spec, "sanitize_bounds", False))
        # variants: (label, build kind, environment) — default one g++ build run once
        variants = spec.variants(mode) if (spec is not None and hasattr(spec, "variants")) else [("", "default", {"OMP_NUM_THREADS": "4"})]
        for build in sorted(set(v[1] for v in variants)):
            base = os.path.join(wd, "%s_%s%s" % (tag, mode, "" if build == "default" else "_" + build))
            exe, log = compile_tu(assemble(mode, items), base, mode, sanitize, build)
            groups = [items]
            if exe is None:
                # isolate the case(s) that do not compile
                groups = []
                for j, it in enumerate(items):
                    e1, l1 = compile_tu(assemble(mode, [it]), base + "_%d" % j, mode, sanitize, build)
                    if e1 is None:
                        errs = [x for x in l1.splitlines() if "error" in x][:3]
                        fails.append({"kernel": it[0].name, "mode": mode, "what": "translated code does not compile: " + " | ".join(errs)[:400]})
                    else:
                        groups.append([it])
            failed_already = set()
            for label, bk, venv in variants:
                if bk != build:
                    continue
                for gi, g in enumerate(groups):
                    exe_g = exe if exe is not None else base + "_%d.exe" % items.index(g[0])
                    names = [k.name for k, _ in g if k.name not in failed_already]
                    if not names:
                        continue
                    env = dict(os.environ)
                    env.update(venv)
                    rr = run_exe(exe_g, names, {k.name: len(k.calls) for k, _ in g}, env=env)
                    for k, _ in g:
                        if k.name not in names:
                            continue
                        bad = [(t, txt) for t, ok, txt in rr.get(k.name, []) if not ok]
                        if not rr.get(k.name):
                            bad = [(-1, "no result reported")]
                        if bad and known_filter:
                            # failures that belong to a listed known finding (decided from the result line) are excluded and counted
                            kept = []
                            for t, txt in bad:
                                kid = known_filter(k, mode, txt)
                                if kid:
                                    excl[kid] = excl.get(kid, 0) + 1
                                else:
                                    kept.append((t, txt))
                            bad = kept
                        if bad:
                            t, txt = bad[0]
                            vals = k.calls[t] if 0 <= t < len(k.calls) else "?"
                            failed_already.add(k.name)
                            fails.append({"kernel": k.name, "mode": mode, "what": "%sargs=%s: %s" % (("[%s] " % label) if label else "", vals, txt[:400])})
        return fails
    from concurrent.futures import ThreadPoolExecutor
    with ThreadPoolExecutor(max_workers=len(modes)) as ex:
        for f in ex.map(one_mode, modes):
            failures.extend(f)
    return failures


def reduce_failure(tr, wd, spec, desc, mode, tagbase, known_filter=None, what=""):
    """by-hand shrinking of a failing program descriptor on the failing mode only; a candidate is kept only if it fails the same
    way with respect to compilation (a simplification that merely stops compiling is not a smaller instance of a wrong result)"""
    nocompile = "does not compile" in what
    cur = desc
    budget = 40
    changed = True
    n = 0
    while changed and budget > 0:
        changed = False
        for cand in spec.simplify(cur):
            if not spec.valid(cand):
                continue
            budget -= 1
            n += 1
            k = spec.render(cand, "r%d" % n)
            fl = run_batch(tr, wd, [k], "%s_r%d" % (tagbase, n), modes=[mode], known_filter=known_filter, spec=spec)
            if fl and any(("does not compile" in f["what"]) == nocompile for f in fl):
                cur = cand
                changed = True
                break
            if budget <= 0:
                break
    return cur


def run_tv(spec, prop, tier, replay, t0):
    wd = vlib.workdir(prop)
    out = vlib.Outcome()
    tr = Translator(wd, nworkers=8)
    modes_all = spec.modes
    rep_dir = os.path.join(vlib.VERIF, "replays", prop)
    os.makedirs(rep_dir, exist_ok=True)
    findings = vlib.known_findings(prop)
    known_ids = set(f.id for f in findings)

    def kfilter(k, mode, txt):
        return spec.known_filter(k, mode, txt, known_ids) if known_ids else None
    try:
        def replay_file(path):
            d = json.load(open(path))
            k = spec.render(d["desc"], "rp")
            modes = [d["mode"]] if d.get("mode") else modes_all
            kf = None if d.get("known") else kfilter
            return run_batch(tr, wd, [k], "rp%d" % (abs(hash(path)) % 10000), modes=modes, known_filter=kf, spec=spec)
        if replay:
            fails = replay_file(os.path.abspath(replay))
            for f in fails:
                print("  %s: %s" % (f["mode"], f["what"]))
            if fails:
                print("VIOLATION property=%s replay=%s" % (prop, os.path.abspath(replay)))
                return 1
            print("REPLAY-PASS")
            return 0
        # saved replays: known findings must still fail (else note), regression inputs must pass
        known_files = {}
        for f in findings:
            p = os.path.normpath(os.path.join(vlib.VERIF, f.replay))
            known_files[p] = f
            if os.path.exists(p):
                if replay_file(p):
                    print("KNOWN-FINDING: property=%s %s [%s]" % (prop, f.text, f.id), flush=True)
                    out.known_printed.append(f.id)
                else:
                    out.notes.append("known finding %s no longer reproduces" % f.id)
        nreg = 0
        for fn in sorted(os.listdir(rep_dir)):
            p = os.path.normpath(os.path.join(rep_dir, fn))
            if not fn.endswith(".json") or fn.startswith("violation_") or p in known_files:
                continue
            nreg += 1
            fl = replay_file(p)
            if fl:
                out.violations.append((p, "regression input fails: %s: %s" % (fl[0]["mode"], fl[0]["what"][:300])))
        out.extra["regression_replays"] = nreg

        nbatches, bsize = spec.quick if tier == "quick" else spec.thorough
        state = {"n": 0, "batches": 0, "nt": set(), "fail": [], "excluded": {}}

        def excluded(desc):
            kid = spec.known_class(desc, known_ids) if known_ids else None
            if kid:
                state["excluded"][kid] = state["excluded"].get(kid, 0) + 1
                return True
            return False

        @seed(vlib.derive(vlib.seed(), prop))
        @settings(max_examples=nbatches + 1, database=None, deadline=None, derandomize=False,
                  suppress_health_check=list(HealthCheck), phases=[Phase.generate])
        @given(st.randoms(use_true_random=False))
        def campaign(rnd):
            descs = [spec.program(rnd) for _ in range(bsize)]
            if all(d == descs[0] for d in descs):
                return            # Hypothesis' first, all-minimal example: 25 copies of one program; not counted
            b = state["batches"]
            state["batches"] += 1
            kernels = []
            for i, d in enumerate(descs):
                if not spec.valid(d) or excluded(d):
                    continue
                k = spec.render(d, "k%d_%d" % (b, i))
                kernels.append(k)
                if spec.nontrivial(d):
                    state["nt"].add(k.okl.split("{", 1)[1])
                for cls in spec.classes(d):
                    out.classes[cls] = out.classes.get(cls, 0) + 1
                if len(out.samples) < 5 and i == 3:
                    out.samples.append(k.okl)
            state["n"] += len(kernels)
            fails = run_batch(tr, wd, kernels, "b%d" % b, modes=modes_all, known_filter=kfilter, excl=state["excluded"], spec=spec)
            byname = {k.name: k for k in kernels}
            for f in fails:
                f["desc"] = byname[f["kernel"]].meta
                state["fail"].append(f)
        campaign()
        if state["batches"] < nbatches:
            out.notes.append("only %d of %d batches were generated (Hypothesis discarded the others: entropy budget of one example exceeded)"
                             % (state["batches"], nbatches))
        if state["n"] == 0:
            raise SystemExit("HARNESS-ERROR: no case was generated (batch too large for one Hypothesis example?); not a property verdict")
        out.evaluations = state["n"]
        out.nontrivial = state["nt"]
        out.excluded = state["excluded"]
        # triage: one replay per failure category (host / launcher back ends x kind of failure); the first 3 are reduced
        def category(f):
            fam = "host" if f["mode"] in ("serial", "openmp") else "launcher"
            w = f["what"]
            for key in ("does not compile", "rejected", "crashed", "hang", "huge", "not a multiple", "overrun", "signal=", "exited abnormally", "atomic primitive"):
                if key in w:
                    return fam, key
            return fam, "wrong iteration set"
        seen = {}
        for f in state["fail"]:
            c = category(f)
            seen.setdefault(c, []).append(f)
        for ci, (c, fl) in enumerate(sorted(seen.items())):
            f = fl[0]
            desc = f["desc"]
            if ci < 3:
                desc = reduce_failure(tr, wd, spec, desc, f["mode"], "red%d" % ci, known_filter=kfilter, what=f["what"])
            path = os.path.join(rep_dir, "violation_seed%d_%d.json" % (vlib.seed(), ci))
            json.dump({"desc": desc, "mode": f["mode"], "what": f["what"], "okl": spec.render(desc, "rp").okl}, open(path, "w"), indent=1)
            out.violations.append((path, "%s: %s  [%d failing (kernel, back end) pairs in this category: %s/%s]"
                                   % (f["mode"], f["what"][:300], len(fl), c[0], c[1])))
        out.extra["programs"] = state["n"]
        out.extra["backends"] = modes_all
        out.extra["disagreements_checked"] = len(state["fail"])
        out.extra["engine"] = "Hypothesis-driven generator (st.randoms), %d batches x %d programs; host compiler g++ as reference semantics" % (nbatches, bsize)
        return vlib.finish(prop, tier, spec.level, out, spec.rule, t0, spec.assume)
    finally:
        tr.close()
        vlib.cleanup(wd)


