"""OKL translation-validation pipeline: translate generated kernels with every back end (worker w_okl), assemble
test translation units (reference loops + translated code + emulation shims), compile with the host compiler, run,
and parse per-case results.  Used by C17-C22."""
import os
import re
import subprocess
import threading
from concurrent.futures import ThreadPoolExecutor

import vlib

MODES = ["serial", "openmp", "cuda", "hip", "opencl", "metal", "dpcpp"]
EMU = os.path.join(vlib.VERIF, "emu")


def hx(s):
    return s.encode().hex() if s else "-"


def unhx(h):
    return "" if h == "-" else bytes.fromhex(h).decode(errors="replace")


class Worker:
    """one w_okl process; restarts after a crash and reports which request crashed it"""

    def __init__(self, binary, wd, tag):
        self.binary, self.wd, self.tag = binary, wd, tag
        self.cur = os.path.join(wd, "w_okl_%s.cur" % tag)
        self.p = None

    def start(self):
        env = vlib.base_env(self.wd, "w" + str(self.tag))
        env["W_OKL_CUR"] = self.cur
        env["ASAN_OPTIONS"] = env["ASAN_OPTIONS"].replace("detect_leaks=1", "detect_leaks=0")
        self.errlog = open(os.path.join(self.wd, "w_okl_%s.err" % self.tag), "ab")
        self.p = subprocess.Popen([self.binary], stdin=subprocess.PIPE, stdout=subprocess.PIPE, stderr=self.errlog,
                                  env=env, text=True, bufsize=1)

    def translate(self, rid, mode, src, props=""):
        """-> dict(ok, device, launcher, diag) or dict(crash=signature)"""
        if self.p is None or self.p.poll() is not None:
            self.start()
        try:
            self.p.stdin.write("%s %s %s %s\n" % (rid, mode, hx(src), hx(props)))
            self.p.stdin.flush()
            line = self.p.stdout.readline()
        except (BrokenPipeError, OSError):
            line = ""
        if not line:
            self.p.wait()
            self.errlog.flush()
            err = open(self.errlog.name, errors="replace").read()[-8000:]
            sig = vlib.crash_signature(err)
            open(self.errlog.name, "w").close()
            self.p = None
            return {"crash": "translator crashed (exit %s): %s" % (self.p.returncode if self.p else "?", sig)}
        f = line.split()
        return {"ok": f[1] == "1", "device": unhx(f[2]), "launcher": unhx(f[3]), "diag": unhx(f[4])}

    def close(self):
        if self.p and self.p.poll() is None:
            try:
                self.p.stdin.close()
                self.p.wait(timeout=10)
            except Exception:
                self.p.kill()


class Translator:
    def __init__(self, wd, nworkers=8):
        vlib.ensure_build("asan")
        self.binary = vlib.build_harness("w_okl", kind="plain")
        self.workers = [Worker(self.binary, wd, i) for i in range(nworkers)]
        self.locks = [threading.Lock() for _ in self.workers]

    def translate_many(self, reqs):
        """reqs: list of (rid, mode, src, props) -> dict rid,mode -> result"""
        out = {}
        chunks = [reqs[i::len(self.workers)] for i in range(len(self.workers))]

        def run(i):
            res = []
            with self.locks[i]:
                for rid, mode, src, props in chunks[i]:
                    res.append(((rid, mode), self.workers[i].translate(rid, mode, src, props)))
            return res
        with ThreadPoolExecutor(max_workers=len(self.workers)) as ex:
            for res in ex.map(run, range(len(self.workers))):
                out.update(dict(res))
        return out

    def close(self):
        for w in self.workers:
            w.close()


# ------------------------------------------------------------------------------------------------
# translation-unit assembly
# ------------------------------------------------------------------------------------------------
class Kernel:
    """A generated kernel: name, params [(ctype, name, is_ptr)], OKL source, reference C++ function body text
    `ref` (a function `static void ref_<name>(<params>)`), and `calls`: list of argument tuples (C++ expression
    strings per parameter; pointer params name a buffer declared in `setup`)."""

    def __init__(self, name, params, okl, ref, calls, setup="", compare="", teardown="", meta=None):
        self.name, self.params, self.okl, self.ref, self.calls = name, params, okl, ref, calls
        self.setup, self.compare, self.teardown = setup, compare, teardown
        self.meta = meta or {}


def _sig(params, by_ref_scalars):
    out = []
    for ct, nm, isptr in params:
        if isptr:
            out.append("%s * %s" % (ct, nm))
        else:
            out.append(("const %s & %s" if by_ref_scalars else "const %s %s") % (ct.replace("const ", ""), nm))
    return ", ".join(out)


def device_kernel_indices(name, device_src):
    return sorted(set(int(x) for x in re.findall(r"\b_occa_%s_(\d+)\b" % re.escape(name), device_src)))


def trampolines(k, mode, device_src):
    """C++ text: trampolines from emu::Args to the translated device entry points + the deviceKernels table."""
    idxs = device_kernel_indices(k.name, device_src)
    t = []
    for j in idxs:
        fn = "_occa_%s_%d" % (k.name, j)
        args = []
        for i, (ct, nm, isptr) in enumerate(k.params):
            base = ct.replace("const ", "").strip()
            if isptr:
                args.append("(%s *) a.mem(%d)" % (ct, i))
            elif mode in ("metal", "dpcpp"):
                args.append("a.ref<%s>(%d)" % (base, i))
            else:
                args.append("a.get<%s>(%d)" % (base, i))
        if mode == "metal":
            args.append("metal::uint3{(unsigned) emu::st().blockIdx.x, (unsigned) emu::st().blockIdx.y, (unsigned) emu::st().blockIdx.z}")
            args.append("metal::uint3{(unsigned) emu::st().threadIdx.x, (unsigned) emu::st().threadIdx.y, (unsigned) emu::st().threadIdx.z}")
            t.append("static void tramp_%s(emu::Args &a) { %s(%s); }" % (fn, fn, ", ".join(args)))
            t.append("static occa::modeKernel_t mk_%s = { tramp_%s, NULL };" % (fn, fn))
        elif mode == "dpcpp":
            t.append("static void tramp_%s(emu::Args &a, occa::dim outer, occa::dim inner) {\n"
                     "  sycl::queue q;\n"
                     "  sycl::range<3> local(inner.z, inner.y, inner.x);\n"
                     "  sycl::range<3> global(outer.z * inner.z, outer.y * inner.y, outer.x * inner.x);\n"
                     "  sycl::nd_range<3> r(global, local);\n"
                     "  %s(&q, &r%s);\n}" % (fn, fn, "".join(", " + x for x in args)))
            t.append("static occa::modeKernel_t mk_%s = { NULL, tramp_%s };" % (fn, fn))
        else:
            t.append("static void tramp_%s(emu::Args &a) { %s(%s); }" % (fn, fn, ", ".join(args)))
            t.append("static occa::modeKernel_t mk_%s = { tramp_%s, NULL };" % (fn, fn))
    n = (max(idxs) + 1) if idxs else 1
    tbl = ", ".join(("&mk__occa_%s_%d" % (k.name, j)) if j in idxs else "NULL" for j in range(n))
    t.append("static occa::modeKernel_t *dk_%s[] = { %s };" % (k.name, tbl))
    return "\n".join(t)


DEV_INC = {
    "cuda": '#include "cuda.hpp"', "hip": '#include "cuda.hpp"', "opencl": '#include "opencl.hpp"',
    "metal": '#include "metal.hpp"', "dpcpp": '#include <CL/sycl.hpp>', "serial": "", "openmp": "",
}


def assemble(mode, items):
    """items: list of (Kernel, translation result).  Returns C++ source of the test TU."""
    tu = ['#include "rt.hpp"', '#include "emu.hpp"', "#include <cmath>", "#include <cstdint>", "#include <cstddef>"]
    tu.append(DEV_INC[mode])
    # ---- reference functions first (plain C++, before any keyword macro is active? they are; keep them simple)
    dev, lau, tr, drv = [], [], [], []
    for k, res in items:
        dev.append("// ---- %s : device code (%s)\n%s" % (k.name, mode, res["device"]))
    tu.append("\n".join(dev))
    if mode == "metal":
        tu.append('#include "metal_end.hpp"')
    if mode not in ("serial", "openmp"):
        tu.append("#include <occa/core/kernel.hpp>")
        for k, res in items:
            lau.append("// ---- %s : launcher\n%s" % (k.name, res["launcher"]))
            tr.append(trampolines(k, mode, res["device"]))
        tu.append("\n".join(tr))
        tu.append("\n".join(lau))
    for k, res in items:
        tu.append("// ---- %s : reference\n%s" % (k.name, k.ref))
        body = ["static void run_%s() {" % k.name, '  rt::currentCase() = "%s";' % k.name]
        for ti, call in enumerate(k.calls):
            body.append("  { rt::currentTuple() = %d;" % ti)
            body.append(k.setup)
            cargs = ", ".join(call)
            body.append("    rt::rec().clear(); rt::visits() = 0; emu::lastError().clear();")
            body.append("    ref_%s(%s);" % (k.name, ", ".join(c.replace("@", "R_") for c in call)))
            body.append("    std::map<rt::Tup, long> R = rt::rec(); rt::rec().clear(); rt::visits() = 0;")
            if mode in ("serial", "openmp"):
                body.append("    %s(%s);" % (k.name, ", ".join(c.replace("@", "T_") for c in call)))
            else:
                margs = []
                for (ct, nm, isptr), c in zip(k.params, call):
                    margs.append(("&MM_" + c[1:]) if isptr else c)
                body.append("    %s(dk_%s%s);" % (k.name, k.name, "".join(", " + m for m in margs)))
            body.append("    std::string err = emu::lastError();")
            body.append(k.compare)
            body.append('    rt::report("%s", %d, R, rt::rec(), err, false);' % (k.name, ti))
            body.append(k.teardown)
            body.append("  }")
        body.append("}")
        drv.append("\n".join(body))
    tu.append("\n".join(drv))
    tu.append("int main(int argc, char **argv) {\n  rt::installHandlers();\n  std::vector<std::string> only(argv + 1, argv + argc);\n"
              "  auto want = [&](const char *n) { if (only.empty()) return true; for (auto &o : only) if (o == n) return true; return false; };")
    for k, res in items:
        tu.append('  if (want("%s")) run_%s();' % (k.name, k.name))
    tu.append('  printf("DONE\\n");\n  return 0;\n}')
    return "\n".join(tu)


def compile_tu(src_text, path_base, mode, sanitize=False):
    cpp = path_base + ".cpp"
    exe = path_base + ".exe"
    open(cpp, "w").write(src_text)
    cmd = ["g++", "-std=gnu++17", "-O0", "-w", "-fpermissive", "-I" + EMU, cpp, "-o", exe, "-lpthread"]
    if mode == "openmp":
        cmd.insert(1, "-fopenmp")
    if sanitize:
        cmd.insert(1, "-fsanitize=bounds")
    r = vlib.sh(cmd)
    return (exe if r.returncode == 0 else None), r.stdout


def run_exe(exe, names, ntuples, timeout=180, env=None):
    """names in TU order; ntuples[name] = number of RESULT lines a finished case prints.
    -> dict name -> list of (tuple, ok, text).  A case during which the process died or hung gets a failing entry;
    the cases after it are run again in a fresh process."""
    results = {}
    pending = list(names)
    while pending:
        try:
            p = subprocess.run([exe] + pending, stdout=subprocess.PIPE, stderr=subprocess.STDOUT, text=True, errors="replace",
                               timeout=timeout, env=env)
            out, hang, rc = p.stdout, False, p.returncode
        except subprocess.TimeoutExpired as e:
            out = e.stdout or ""
            if isinstance(out, bytes):
                out = out.decode(errors="replace")
            hang, rc = True, None
        for line in out.splitlines():
            m = re.match(r"RESULT (\S+) (-?\d+) (OK|FAIL)(.*)", line)
            if m and m.group(1) in pending:
                results.setdefault(m.group(1), []).append((int(m.group(2)), m.group(3) == "OK", m.group(4).strip()))
        if not hang and "DONE" in out:
            break
        culprit = None
        for nme in pending:
            if len(results.get(nme, [])) < ntuples[nme] or any(("signal=" in t or "overrun" in t) for _, _, t in results.get(nme, [])):
                culprit = nme
                break
        if culprit is None:
            break
        if not any(not ok for _, ok, _ in results.get(culprit, [])):
            results.setdefault(culprit, []).append(
                (-1, False, ("hang: no result within %ds" % timeout) if hang else
                 "process exited abnormally (rc=%s) before reporting: %s" % (rc, out[-300:].replace("\n", " | "))))
        pending = pending[pending.index(culprit) + 1:]
    return results
